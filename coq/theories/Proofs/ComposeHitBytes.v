(* Proofs/ComposeHitBytes.v — C01 ⟵ C08 ⟵ C10: a request answered from the cache installs exactly the bytes the
   compiler produced when the entry was stored.

     C10_hit_installs_stored_bytes NAMES the hypothesis "what get_object wrote is the complete stored member"
       (`aget (o_path o) entry = Some (o_new o)`, zstd and the zip container not being modelled in Model/Extract.v);
     C08_roundtrip proves it for the real container: unpacking what CacheWrite packed gives, per requested object,
       the stored permission bits and the stored content, and the stored stdout / stderr;
     C01_hit_returns_stored_entry says which entry a hit hands back: the one stored under the request's key.

   The link between the two byte-level models, by definition: [decodes file o] — the environment's description o of
   one get_object call in Model/Extract.v (its decode outcome o_dec and the chunks copy_decode wrote) is what
   Model/Zip.v's unpack computed for that member: `Some (mode, content)` = decoded with that mode, the chunks being
   exactly the content (in ANY chunking); `None` = the member is absent. *)
From Coq Require Import List NArith Bool.
From Sccache Require Import Base.Sx.
From Sccache Require Import Model.FsModel Model.Extract Proofs.FsModel Proofs.Extract.
From Sccache Require Import Model.Crc32 Model.Zip Proofs.Crc32 Proofs.ZipBase Proofs.Zip.
From Sccache Require Properties.C08 Properties.C10.
From Sccache Require Model.Stats Model.ReqSM Proofs.ReqSM Proofs.ArgsReq.
Import ListNotations.
Local Open Scope N_scope.

Definition decodes (file : option (option N * list N)) (o : obj) : Prop :=
  match file with
  | Some (md, content) => o_dec o = DecOk md /\ concat (o_chunks o) = content
  | None => o_dec o = DecAbsent
  end.

(* the stored bytes, by output path: C10's [entry] *)
Definition entry_of (objs0 : list (list N * option N * list N)) (objs : list obj) : list (path * FsModel.bytes) :=
  combine (map o_path objs) (map obj_content objs0).

Lemma entry_of_stored objs0 objs :
  Forall2 (fun o0 o => o_ok o = true /\ o_new o = obj_content o0) objs0 objs ->
  NoDup (map o_path objs) ->
  forall o, In o objs -> aget path_eqb (o_path o) (entry_of objs0 objs) = Some (o_new o).
Proof.
  unfold entry_of. induction 1 as [|o0 x l0 l [_ Hx] HF IH]; intros Hnd o Hin; [destruct Hin|].
  simpl in *. inversion Hnd as [|? ? Hni Hnd']; subst.
  destruct Hin as [<- | Hin].
  - rewrite path_eqb_refl, Hx. reflexivity.
  - rewrite path_eqb_neq; [apply IH; assumption|].
    intro E. apply Hni. rewrite <- E. apply in_map. exact Hin.
Qed.

Lemma Forall2_imp {A B} (R S : A -> B -> Prop) l0 l :
  (forall a b, R a b -> S a b) -> Forall2 R l0 l -> Forall2 S l0 l.
Proof. intros H HF. induction HF; constructor; auto. Qed.

Lemma Forall2_with_in {A B} (R : A -> B -> Prop) (Q : B -> Prop) l0 l :
  Forall2 R l0 l -> (forall b, In b l -> Q b) -> Forall2 (fun a b => R a b /\ Q b) l0 l.
Proof.
  intros HF. induction HF as [|a b l0 l HR HF IH]; intros HQ; constructor.
  - split; [exact HR | apply HQ; left; reflexivity].
  - apply IH. intros x Hx. apply HQ. right. exact Hx.
Qed.

Lemma Forall2_map_l {A B C} (g : A -> B) (R : B -> C -> Prop) l lc :
  Forall2 R (map g l) lc -> Forall2 (fun a c => R (g a) c) l lc.
Proof.
  revert lc. induction l as [|a l IH]; intros lc H; simpl in H; inversion H; subst; constructor; auto.
Qed.

Section Chain.
Variable compress : list N -> list N.
Variable decompress : list N -> option (list N).
Hypothesis zstd_inverse : forall x, decompress (compress x) = Some x.

(* C08 + C10 *)
Theorem hit_installs_compiled_bytes
        (objs0 : list (list N * option N * list N)) (stdout stderr : list N) (reqs : list (list N * bool))
        (f0 : fs) (objs : list obj) (readers : list (@thread local action)) (sched : list nat) :
  (* the entry was packed from objs0 / stdout / stderr (C08's guards) ... *)
  objs_ok objs0 -> writable (cache_members compress objs0 stdout stderr) = true ->
  no_z64_locator (cache_write compress objs0 stdout stderr) = true ->
  map fst reqs = map obj_name objs0 ->
  (* ... the extraction decodes what unpack computes from those bytes ... *)
  match unpack decompress (cache_write compress objs0 stdout stderr) reqs with
  | UHit _ _ files => Forall2 decodes files objs
  | _ => False
  end ->
  (* ... and runs to Ok (C10's guards) *)
  fs_okb f0 = true -> outputs_okb objs = true -> forallb (observerb f0) readers = true ->
  NoDup (map o_path objs) ->
  forall l rs, snd (run sched f0 objs readers) = (l, []) :: rs -> l_dead l = false ->
  (exists files, unpack decompress (cache_write compress objs0 stdout stderr) reqs = UHit stdout stderr files) /\
  Forall2 (fun o0 o => o_special o = false ->
                       content (fst (run sched f0 objs readers)) (o_path o) = Some (obj_content o0) /\
                       o_dec o = DecOk (Some (perm_of (obj_mode o0)))) objs0 objs.
Proof.
  intros Hok Hw Hz Hreq Hdec Hfs Hout Hobs Hnd l rs Hfin Hal.
  pose proof (Properties.C08.C08_roundtrip compress decompress zstd_inverse objs0 stdout stderr reqs Hok Hw Hz Hreq)
    as Hrt. cbv zeta in Hrt. rewrite Hrt in Hdec. split; [eexists; exact Hrt|].
  (* per object: decoded Ok with the stored mode, chunks = stored content *)
  assert (HF : Forall2 (fun o0 o => o_dec o = DecOk (Some (perm_of (obj_mode o0))) /\ o_new o = obj_content o0)
                       objs0 objs).
  { clear - Hdec. remember (map (fun o => Some (Some (perm_of (obj_mode o)), obj_content o)) objs0) as fl eqn:E.
    revert objs0 E. induction Hdec as [|fo o fl l Hd HF IH]; intros [|o0 objs0] E; try discriminate; constructor.
    - inversion E; subst. exact Hd.
    - apply IH. inversion E; reflexivity. }
  assert (HF2 : Forall2 (fun o0 o => o_ok o = true /\ o_new o = obj_content o0) objs0 objs).
  { apply (Forall2_imp _ _ _ _ (fun a b (H : o_dec b = DecOk (Some (perm_of (obj_mode a))) /\ o_new b = obj_content a) =>
                                  conj (f_equal (fun d => match d with DecOk _ => true | _ => false end) (proj1 H))
                                       (proj2 H)) HF). }
  pose proof (entry_of_stored objs0 objs HF2 Hnd) as Hent.
  assert (Hinst : forall o, In o objs -> o_special o = false -> o_ok o = true ->
                            content (fst (run sched f0 objs readers)) (o_path o) = Some (o_new o)).
  { intros o Hin Hsp Hoko.
    rewrite (Properties.C10.C10_hit_installs_stored_bytes f0 objs readers sched (entry_of objs0 objs) Hfs Hout Hobs Hnd
               (fun o' Hin' _ => Hent o' Hin') l rs o Hfin Hal Hin Hsp Hoko).
    apply Hent. exact Hin. }
  pose proof (Forall2_with_in _ (fun o => o_special o = false -> o_ok o = true ->
                 content (fst (run sched f0 objs readers)) (o_path o) = Some (o_new o)) _ _ HF
                (fun o Hin => Hinst o Hin)) as HF3.
  revert HF3. apply Forall2_imp. intros a b [[Hd Hn] Hq] Hsp. split; [|exact Hd].
  rewrite <- Hn. apply Hq; [exact Hsp|]. unfold o_ok. rewrite Hd. reflexivity.
Qed.

(* C01 + C08 + C10: the whole hit.  The request machine (Model/ReqSM.v) answers from the cache; the entry it hands back
   is the one stored under the request's key: stdout so, stderr se, objects outs (name ↦ content).  For the bytes of
   that entry as CacheWrite packs them (any permission bits mode_of), the unpacking and the installation of the
   outputs give the client exactly so, se and, at every regular output path, the stored content. *)
Theorem hit_end_to_end (f : Model.ReqSM.faults) (cc : Model.ReqSM.cache_control) (o : Model.ReqSM.oracle)
        (st : Model.ReqSM.cstate) :
  Model.ReqSM.r_outcome (snd (Model.ReqSM.execute f cc o st)) = Some Model.Stats.OHit ->
  exists st1 pp k so se outs,
    Model.ReqSM.generate_hash_key f cc o st = (st1, Model.ReqSM.HKKey k, pp) /\
    Model.ReqSM.kv_get k (Model.ReqSM.cs_res st1) = Some (Model.ReqSM.RGood so se outs) /\
    Model.ReqSM.r_client (snd (Model.ReqSM.execute f cc o st)) = Model.ReqSM.CFinished 0 so se /\
    Model.ReqSM.r_outputs (snd (Model.ReqSM.execute f cc o st)) = outs /\
    Model.ReqSM.r_cc_runs (snd (Model.ReqSM.execute f cc o st)) = 0 /\
    forall (mode_of : list N -> option N) (reqs : list (list N * bool))
           (f0 : fs) (objs : list obj) (readers : list (@thread local action)) (sched : list nat),
      let objs0 := map (fun nc : list N * list N => (fst nc, mode_of (fst nc), snd nc)) outs in
      objs_ok objs0 -> writable (cache_members compress objs0 so se) = true ->
      no_z64_locator (cache_write compress objs0 so se) = true ->
      map fst reqs = map obj_name objs0 ->
      match unpack decompress (cache_write compress objs0 so se) reqs with
      | UHit _ _ files => Forall2 decodes files objs
      | _ => False
      end ->
      fs_okb f0 = true -> outputs_okb objs = true -> forallb (observerb f0) readers = true ->
      NoDup (map o_path objs) ->
      forall l rs, snd (run sched f0 objs readers) = (l, []) :: rs -> l_dead l = false ->
      (exists files, unpack decompress (cache_write compress objs0 so se) reqs = UHit so se files) /\
      Forall2 (fun (nc : list N * list N) ob =>
                 o_special ob = false -> content (fst (run sched f0 objs readers)) (o_path ob) = Some (snd nc))
              outs objs.
Proof.
  intro Hhit.
  destruct (Proofs.ArgsReq.hit_returns_stored_entry f cc o st Hhit) as (st1 & pp & k & so & se & outs & A & B & C & D & E).
  exists st1, pp, k, so, se, outs. repeat (split; [assumption|]).
  intros mode_of reqs f0 objs readers sched objs0 Hok Hw Hz Hreq Hdec Hfs Hout Hobs Hnd l rs Hfin Hal.
  destruct (hit_installs_compiled_bytes objs0 so se reqs f0 objs readers sched Hok Hw Hz Hreq Hdec Hfs Hout Hobs Hnd
                                        l rs Hfin Hal) as [Hu HF].
  split; [exact Hu|]. unfold objs0 in HF. apply Forall2_map_l in HF.
  revert HF. apply Forall2_imp. intros a b Hab Hsp. exact (proj1 (Hab Hsp)).
Qed.
End Chain.
