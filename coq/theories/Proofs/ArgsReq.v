(* Proofs/ArgsReq.v — the request-level statements of C01, over the request state machine Model/ReqSM.v
   (written for C09/C14; its transparency theorem is proved in Proofs/ReqSM.v). *)
From Coq Require Import List NArith Bool.
From Sccache Require Import Base.Sx Model.Stats Model.ReqSM Proofs.ReqSM.
Import ListNotations.
Local Open Scope N_scope.

(* a request that parse_arguments does not accept (not a compilation / cannot cache) or whose compiler is not
   supported is handed back untouched: nothing runs on the server, nothing is written, the cache is unchanged; the
   client then runs the original command line itself (commands.rs handle_compile_response) *)
Lemma noncacheable_passthrough f cl cc o st :
  cl <> QCompile ->
  fst (fst (request f cl cc o st)) = st /\
  (r_client (snd (fst (request f cl cc o st))) = CUnhandled \/ r_client (snd (fst (request f cl cc o st))) = CUnsupported) /\
  r_pp_runs (snd (fst (request f cl cc o st))) = 0 /\ r_cc_runs (snd (fst (request f cl cc o st))) = 0 /\
  r_outputs (snd (fst (request f cl cc o st))) = [].
Proof.
  intros H. unfold request. destruct cl; try congruence; cbn; repeat split; auto.
Qed.

(* a cache hit runs no compiler and hands the client exactly what the direct run would have produced.
   [calm]: no panic among the fault values / in the oracle - the hypothesis Proofs/ReqSM.execute_transparent needs since
   panics became first-class faults there (a panicking task is answered with "encountered fatal error", which
   C09_internal_fault_reported covers). *)
Lemma hit_replays_stored w st t f cc :
  consistent w -> Inv w st -> sane (w t) -> f_outdir_ok f = true -> calm f (w t) ->
  r_outcome (snd (execute f cc (w t) st)) = Some OHit ->
  r_cc_runs (snd (execute f cc (w t) st)) = 0 /\
  exists s so se, r_client (snd (execute f cc (w t) st)) = CFinished s so se /\
                  (s, so, se, r_outputs (snd (execute f cc (w t) st))) = direct (w t).
Proof.
  intros HC HI HS HO HCalm Hhit.
  pose proof (execute_transparent w st t f cc HC HI HS HO HCalm) as HT.
  revert Hhit HT. unfold execute.
  destruct (generate_hash_key f cc (w t) st) as [[st1 res] pp].
  destruct res as [|k|]; cbn; try discriminate.
  destruct (cache_lookup f cc k st1) as [so se outs|mt|]; cbn; try discriminate.
  - intros _ HT. split; [reflexivity|]. unfold transparent in HT. cbn in HT. eauto.
  - unfold compile_and_store.
    destruct (o_c_panics (w t)); cbn; [discriminate|].
    destruct (negb (o_c_status (w t) =? 0)); cbn; [discriminate|].
    destruct mt; cbn; try discriminate;
      destruct (negb (o_cacheable (w t))); cbn; try discriminate;
      destruct (negb (o_c_writes (w t))); cbn; try discriminate;
      destruct (put_ok (f_put f) st1); cbn; discriminate.
Qed.

(* a hit hands back exactly the entry that the cache holds under the request's key: stdout, stderr and every output
   file are those stored by the compile that created the entry - nothing is recomputed, shortened or padded.
   (How an entry's bytes survive the zip / zstd encoding is C08's subject; the differential leg `entry` of C01 compares
   this identity with the real CacheWrite -> CacheRead path on members of every size and compressibility class.) *)
Lemma lookup_hit_is_stored f cc k st so se outs :
  cache_lookup f cc k st = LHit so se outs -> kv_get k (cs_res st) = Some (RGood so se outs).
Proof.
  unfold cache_lookup. destruct cc; try discriminate.
  destruct (f_get f); try discriminate; try (destruct (f_outdir_ok f); discriminate).
  destruct (kv_get k (cs_res st)) as [[so' se' outs'| | | |]|]; try discriminate;
    destruct (f_outdir_ok f); try discriminate.
  intros H. injection H as -> -> ->. reflexivity.
Qed.

Lemma hit_returns_stored_entry f cc o st :
  r_outcome (snd (execute f cc o st)) = Some OHit ->
  exists st1 pp k so se outs,
    generate_hash_key f cc o st = (st1, HKKey k, pp) /\
    kv_get k (cs_res st1) = Some (RGood so se outs) /\
    r_client (snd (execute f cc o st)) = CFinished 0 so se /\
    r_outputs (snd (execute f cc o st)) = outs /\ r_cc_runs (snd (execute f cc o st)) = 0.
Proof.
  unfold execute.
  destruct (generate_hash_key f cc o st) as [[st1 res] pp].
  destruct res as [|k|]; cbn; try discriminate.
  destruct (cache_lookup f cc k st1) as [so se outs|mt|] eqn:Hl; cbn; try discriminate.
  - intros _. exists st1, pp, k, so, se, outs. repeat split; try reflexivity.
    eapply lookup_hit_is_stored; exact Hl.
  - unfold compile_and_store.
    destruct (o_c_panics o); cbn; [discriminate|].
    destruct (negb (o_c_status o =? 0)); cbn; [discriminate|].
    destruct mt; cbn; try discriminate;
      destruct (negb (o_cacheable o)); cbn; try discriminate;
      destruct (negb (o_c_writes o)); cbn; try discriminate;
      destruct (put_ok (f_put f) st1); cbn; discriminate.
Qed.
