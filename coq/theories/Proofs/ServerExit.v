(* Proofs/ServerExit.v — clients at the seams of a server's life (see Model/ServerExit.v). *)
From Coq Require Import List NArith Bool Lia.
From Sccache Require Import Model.Startup.
From Sccache Require Import Model.ServerLife.
From Sccache Require Import Model.Client.
From Sccache Require Import Model.ServerExit.
From Sccache Require Import Proofs.ServerLife.
From Sccache Require Import Proofs.Client.
Import ListNotations.
Local Open Scope N_scope.

(* ---------- (a) the start-up report ---------- *)

Lemma started_server_report_ok (a : saddr) :
  status_of_report (report_of_started_server a) = Some StOk /\ spawner_proceeds a = true.
Proof.
  unfold spawner_proceeds. rewrite server_reports_requested_address. simpl. auto.
Qed.

Lemma proceeds_iff_status rep later :
  connect_with_retry later = true ->
  (connect_or_start ARefused rep later = None <-> status_of_report rep <> None).
Proof.
  intro H. rewrite connect_or_start_table. split.
  - intros [E|[_ [[E|E] _]]]; [discriminate| |]; subst rep; simpl; discriminate.
  - intro Hs. right. split; auto. split; auto.
    destruct rep as [[|]| | | |]; simpl in Hs; auto; exfalso; apply Hs; reflexivity.
Qed.

(* any other report about a server that did bind — e.g. the address in another spelling — makes its spawner bail *)
Lemma other_spelling_bails later :
  connect_or_start ARefused (SOk false) later = Some EWrongAddr /\ status_of_report (SOk false) = None.
Proof. split; reflexivity. Qed.

(* ---------- (b) arrivals during the shutdown phase ---------- *)

Lemma has_conn_set_busy c c' b l : has_conn c (set_busy c' b l) = has_conn c l.
Proof.
  induction l as [|[x y] l IH]; simpl; auto.
  destruct (c' =? x); simpl; now rewrite IH.
Qed.

Lemma has_conn_del c c' l : has_conn c (del_conn c' l) = true -> has_conn c l = true.
Proof.
  induction l as [|[x y] l IH]; simpl; auto.
  destruct (c' =? x); simpl; intro H.
  - apply IH in H. rewrite H. apply orb_true_r.
  - apply orb_true_iff in H as [H|H]; [rewrite H; auto | rewrite (IH H); apply orb_true_r].
Qed.

Lemma no_new_conn_step s e c :
  connect_ok s = false ->
  connect_ok (lstep s e) = false /\ (has_conn c (lconns (lstep s e)) = true -> has_conn c (lconns s) = true).
Proof.
  unfold connect_ok. intro H.
  destruct (lphase s) as [|since r|since fin r cut] eqn:Hp; [discriminate| |].
  - destruct e as [d|c0|c0 st|c0|c0| |].
    + simpl. rewrite Hp. auto.
    + simpl. rewrite Hp. rewrite Hp. auto.
    + simpl. destruct (has_conn c0 (lconns s)); rewrite Hp; simpl; rewrite ?Hp; auto.
      split; auto. now rewrite has_conn_set_busy.
    + simpl. rewrite Hp. split; auto. now rewrite has_conn_set_busy.
    + simpl. rewrite Hp. split; auto. apply has_conn_del.
    + simpl. rewrite Hp. rewrite Hp. auto.
    + simpl. rewrite Hp. destruct (lconns s) as [|p l] eqn:Hc.
      * simpl. rewrite Hc. auto.
      * destruct (since + lcap s <=? lnow s); simpl; rewrite ?Hp, ?Hc; split; auto.
        simpl. intro; discriminate.
  - destruct e as [d|c0|c0 st|c0|c0| |].
    + simpl. rewrite Hp. auto.
    + simpl. rewrite Hp. rewrite Hp. auto.
    + simpl. destruct (has_conn c0 (lconns s)); rewrite Hp; simpl; rewrite ?Hp; auto.
    + simpl. rewrite Hp. split; auto. now rewrite has_conn_set_busy.
    + simpl. rewrite Hp. split; auto. apply has_conn_del.
    + simpl. rewrite Hp. rewrite Hp. auto.
    + simpl. rewrite Hp. rewrite Hp. auto.
Qed.

Lemma no_new_conn_exec evs : forall s c,
  connect_ok s = false ->
  connect_ok (lexec s evs) = false /\ (has_conn c (lconns (lexec s evs)) = true -> has_conn c (lconns s) = true).
Proof.
  induction evs as [|e r IH]; intros s c H; simpl; auto.
  destruct (no_new_conn_step s e c H) as [H1 H2].
  destruct (IH (lstep s e) c H1) as [H3 H4]. split; auto.
Qed.

Lemma refused_connect_changes_nothing s c : connect_ok s = false -> lconnect s c = (s, false).
Proof. unfold lconnect. now intros ->. Qed.

Lemma late_client_cold_starts t cap evs c evs' (a : saddr) later :
  let s := lexec (linit t cap) evs in
  lphase s = Serving -> has_conn c (lconns s) = true ->
  let s1 := lstep (lstep s (LRequest c true)) LPoll in
  let s2 := lexec s1 evs' in
  arrival s2 = ARefused
  /\ (forall c', has_conn c' (lconns s2) = true -> has_conn c' (lconns s1) = true)
  /\ (connect_with_retry later = true ->
      connect_or_start (arrival s2) (report_of_started_server a) later = None).
Proof.
  intros s Hp Hc s1 s2.
  assert (H1 : connect_ok s1 = false).
  { unfold connect_ok, s1. now rewrite (stop_then_poll_drains s c Hp Hc). }
  assert (H2 : connect_ok s2 = false) by (apply (no_new_conn_exec evs' s1 c H1)).
  split; [unfold arrival; now rewrite H2|]. split.
  - intros c'. apply (no_new_conn_exec evs' s1 c' H1).
  - intro L. unfold arrival. rewrite H2. now apply cold_start_any_address.
Qed.

(* the same when the phase was entered by idle expiry: generally, whenever the server is not serving *)
Lemma not_serving_refuses s evs (a : saddr) later :
  connect_ok s = false ->
  arrival (lexec s evs) = ARefused /\
  (connect_with_retry later = true ->
   connect_or_start (arrival (lexec s evs)) (report_of_started_server a) later = None).
Proof.
  intro H. destruct (no_new_conn_exec evs s 0 H) as [H2 _].
  unfold arrival. rewrite H2. split; auto. intro L. now apply cold_start_any_address.
Qed.

(* ---------- (c) connections cut when the process exits ---------- *)

Definition term_ok (s : lst) : Prop :=
  match lphase s with
  | Terminated since fin _ cut => cut = [] \/ since + lcap s <= fin
  | _ => True
  end.

Lemma term_ok_step s e : term_ok s -> term_ok (lstep s e).
Proof.
  unfold term_ok. intro H.
  destruct (lphase s) as [|since r|since fin r cut] eqn:Hp.
  - destruct e; simpl; rewrite ?Hp; simpl; rewrite ?Hp; auto.
    + destruct (has_conn c (lconns s)); simpl; rewrite ?Hp; auto.
    + destruct (has_conn c (lconns s)); simpl; rewrite ?Hp; auto.
    + destruct (drain_queue (ltimeout s) (lnow s) (ldeadline s) (lqueue s)); simpl; auto.
      destruct (expired o (lnow s)); simpl; auto.
  - destruct e; simpl; rewrite ?Hp; simpl; rewrite ?Hp; auto.
    + destruct (has_conn c (lconns s)); simpl; rewrite ?Hp; auto.
    + destruct (lconns s); simpl; auto.
      destruct (N.leb_spec (since + lcap s) (lnow s)); simpl; rewrite ?Hp; auto.
  - destruct e; simpl; rewrite ?Hp; simpl; rewrite ?Hp; auto.
    destruct (has_conn c (lconns s)); simpl; rewrite ?Hp; auto.
Qed.

Lemma term_ok_exec evs : forall s, term_ok s -> term_ok (lexec s evs).
Proof. induction evs as [|e r IH]; intros s H; simpl; auto. apply IH. now apply term_ok_step. Qed.

Lemma cut_connection_falls_back t cap evs since fin r cut c opq ig f (k : nat) local :
  lphase (lexec (linit t cap) evs) = Terminated since fin r cut ->
  In (c, true) cut ->
  blen (encode_finished f) < 4294967296 ->
  (k < length (frame (encode_finished f)))%nat ->
  since + cap <= fin
  /\ cut_client opq ig f k = RunLocally LEofAfterAck
  /\ exit_code (cut_client opq ig f k) local = local.
Proof.
  intros Hp Hin Hlen Hk.
  pose proof (term_ok_exec evs (linit t cap) I) as T. unfold term_ok in T. rewrite Hp in T.
  destruct (lexec_const (linit t cap) evs) as [_ Hc]. simpl in Hc. rewrite Hc in T.
  split.
  - destruct T as [T|T]; auto. subst cut. destruct Hin.
  - apply killed_while_answering; auto.
Qed.

(* ---------- (c') the ending matters: an aborting close would turn the fallback into an error ---------- *)

Lemma exit_closes_orderly : close_ending accepted_abort_on_close = Eof.
Proof. reflexivity. Qed.

Lemma reset_is_fatal opq ig f (k : nat) :
  blen (encode_finished f) < 4294967296 ->
  (k < length (frame (encode_finished f)))%nat ->
  cut_client_ending opq ig f k (close_ending true)
  = (if ig then RunLocally LIgnoredError else SccacheError EAfterAck).
Proof.
  intros Hlen Hk. unfold cut_client_ending, cut_stream, close_ending.
  apply (io_error_after_ack opq ig _ (encode_compile_response CompileStarted)
           (firstn k (frame (encode_finished f))) Reset).
  - apply framed_frame. reflexivity.
  - apply decode_encode_started.
  - left. split; [apply prefix_cut_short; assumption | discriminate].
Qed.

Lemma orderly_close_falls_back opq ig f (k : nat) local :
  blen (encode_finished f) < 4294967296 ->
  (k < length (frame (encode_finished f)))%nat ->
  cut_client_ending opq ig f k (close_ending accepted_abort_on_close) = RunLocally LEofAfterAck
  /\ exit_code (cut_client_ending opq ig f k (close_ending accepted_abort_on_close)) local = local.
Proof. intros. unfold cut_client_ending, cut_stream. simpl. now apply killed_while_answering. Qed.
