(* Proofs/FsModel.v — facts about the association lists, the file-system operations and the scheduler
   of Model/FsModel.v. *)
From Coq Require Import List NArith Bool Lia.
From Sccache Require Import Base.Sx Model.FsModel.
Import ListNotations.
Local Open Scope N_scope.

(* ---------- keys ---------- *)

Lemma path_eqb_eq a b : path_eqb a b = true <-> a = b.
Proof.
  unfold path_eqb. destruct a as [a1 a2], b as [b1 b2]; simpl.
  rewrite andb_true_iff, !bytes_eqb_eq. split.
  - intros [H1 H2]; congruence.
  - intros H; inversion H; auto.
Qed.

Lemma path_eqb_refl a : path_eqb a a = true.
Proof. apply path_eqb_eq; reflexivity. Qed.

Lemma path_eqb_neq a b : a <> b -> path_eqb a b = false.
Proof.
  intros H. destruct (path_eqb a b) eqn:E; [|reflexivity].
  apply path_eqb_eq in E. contradiction.
Qed.

Lemma path_eq_dec (a b : path) : {a = b} + {a <> b}.
Proof.
  destruct (path_eqb a b) eqn:E.
  - left. apply path_eqb_eq; assumption.
  - right. intros H. apply path_eqb_eq in H. congruence.
Qed.

(* ---------- association lists ---------- *)

Section AlistFacts.
  Context {K V : Type} (eqb : K -> K -> bool).
  Hypothesis eqb_eq : forall a b, eqb a b = true <-> a = b.

  Lemma eqb_refl' a : eqb a a = true.
  Proof. apply eqb_eq; reflexivity. Qed.

  Lemma eqb_neq' a b : a <> b -> eqb a b = false.
  Proof.
    intros H. destruct (eqb a b) eqn:E; [|reflexivity]. apply eqb_eq in E. contradiction.
  Qed.

  Lemma aget_adel_same k (l : list (K * V)) : aget eqb k (adel eqb k l) = None.
  Proof.
    induction l as [|[k' v] l IH]; simpl; [reflexivity|].
    destruct (eqb k k') eqn:E; [assumption|]. simpl. rewrite E. assumption.
  Qed.

  Lemma aget_adel_other k k' (l : list (K * V)) : k <> k' -> aget eqb k' (adel eqb k l) = aget eqb k' l.
  Proof.
    intros Hne. induction l as [|[k2 v] l IH]; simpl; [reflexivity|].
    destruct (eqb k k2) eqn:E.
    - apply eqb_eq in E; subst k2. rewrite IH.
      rewrite (eqb_neq' k' k); [reflexivity | congruence].
    - simpl. destruct (eqb k' k2); [reflexivity | assumption].
  Qed.

  Lemma aget_aset_same k v (l : list (K * V)) : aget eqb k (aset eqb k v l) = Some v.
  Proof. unfold aset; simpl. rewrite eqb_refl'. reflexivity. Qed.

  Lemma aget_aset_other k k' v (l : list (K * V)) : k <> k' -> aget eqb k' (aset eqb k v l) = aget eqb k' l.
  Proof.
    intros Hne. unfold aset; simpl. rewrite (eqb_neq' k' k) by congruence.
    apply aget_adel_other; assumption.
  Qed.

  Lemma aget_in k v (l : list (K * V)) : aget eqb k l = Some v -> In (k, v) l.
  Proof.
    induction l as [|[k' v'] l IH]; simpl; [discriminate|].
    destruct (eqb k k') eqn:E.
    - apply eqb_eq in E; subst. intros H; inversion H; subst. left; reflexivity.
    - intros H. right. apply IH; assumption.
  Qed.

  Lemma in_aget_some k v (l : list (K * V)) : In (k, v) l -> exists v', aget eqb k l = Some v'.
  Proof.
    induction l as [|[k' v'] l IH]; simpl; [intros []|].
    intros [H|H].
    - inversion H; subst. rewrite eqb_refl'. eauto.
    - destruct (eqb k k'); eauto.
  Qed.
End AlistFacts.

Lemma Neqb_eq a b : N.eqb a b = true <-> a = b.
Proof. apply N.eqb_eq. Qed.

(* ---------- lookups after each operation ---------- *)

Lemma iget_set_same k v (l : list (ino * inode)) : aget N.eqb k (aset N.eqb k v l) = Some v.
Proof. apply aget_aset_same. exact Neqb_eq. Qed.
Lemma iget_set_other k k' v (l : list (ino * inode)) : k <> k' -> aget N.eqb k' (aset N.eqb k v l) = aget N.eqb k' l.
Proof. apply aget_aset_other. exact Neqb_eq. Qed.
Lemma dget_set_same k v (l : list (path * ino)) : aget path_eqb k (aset path_eqb k v l) = Some v.
Proof. apply aget_aset_same. exact path_eqb_eq. Qed.
Lemma dget_set_other k k' v (l : list (path * ino)) : k <> k' -> aget path_eqb k' (aset path_eqb k v l) = aget path_eqb k' l.
Proof. apply aget_aset_other. exact path_eqb_eq. Qed.
Lemma dget_del_same k (l : list (path * ino)) : aget path_eqb k (adel path_eqb k l) = None.
Proof. apply aget_adel_same. Qed.
Lemma dget_del_other k k' (l : list (path * ino)) : k <> k' -> aget path_eqb k' (adel path_eqb k l) = aget path_eqb k' l.
Proof. apply aget_adel_other. exact path_eqb_eq. Qed.

Lemma create_excl_spec t m f f' i :
  create_excl t m f = Some (f', i) ->
  lookup t f = None /\ i = next_ino f /\ next_ino f' = i + 1
  /\ lookup t f' = Some i
  /\ (forall p, p <> t -> lookup p f' = lookup p f)
  /\ iget i f' = Some (mkInode [] m)
  /\ (forall j, j <> i -> iget j f' = iget j f).
Proof.
  unfold create_excl. destruct (lookup t f) eqn:E; [discriminate|].
  intros H; inversion H; subst; clear H. unfold lookup, iget; cbn [dir inodes next_ino].
  repeat split.
  - apply dget_set_same.
  - intros p Hp. apply dget_set_other. congruence.
  - apply iget_set_same.
  - intros j Hj. apply iget_set_other. congruence.
Qed.

Lemma create_excl_none t m f : create_excl t m f = None -> exists i, lookup t f = Some i.
Proof. unfold create_excl. destruct (lookup t f); [eauto | discriminate]. Qed.

Lemma write_chunk_dir i b f : dir (write_chunk i b f) = dir f.
Proof. unfold write_chunk. destruct (iget i f); reflexivity. Qed.

Lemma write_chunk_next i b f : next_ino (write_chunk i b f) = next_ino f.
Proof. unfold write_chunk. destruct (iget i f); reflexivity. Qed.

Lemma write_chunk_lookup i b f p : lookup p (write_chunk i b f) = lookup p f.
Proof. unfold lookup. rewrite write_chunk_dir. reflexivity. Qed.

Lemma write_chunk_iget_other i b f j : j <> i -> iget j (write_chunk i b f) = iget j f.
Proof.
  intros H. unfold write_chunk. destruct (iget i f) eqn:E; [|reflexivity].
  unfold iget; cbn [inodes]. apply iget_set_other. congruence.
Qed.

Lemma write_chunk_iget_same i b f n :
  iget i f = Some n -> iget i (write_chunk i b f) = Some (mkInode (i_bytes n ++ b) (i_mode n)).
Proof.
  intros H. unfold write_chunk. rewrite H. unfold iget; cbn [inodes]. apply iget_set_same.
Qed.

Lemma write_chunk_iget_none i b f j : iget j f = None -> iget j (write_chunk i b f) = None.
Proof.
  intros H. destruct (N.eq_dec j i) as [->|Hne].
  - unfold write_chunk. rewrite H. assumption.
  - rewrite write_chunk_iget_other; assumption.
Qed.

Lemma rename_spec a b f f' :
  rename a b f = Some f' ->
  exists i, lookup a f = Some i
  /\ lookup b f' = Some i
  /\ (a <> b -> lookup a f' = None)
  /\ (forall p, p <> a -> p <> b -> lookup p f' = lookup p f)
  /\ inodes f' = inodes f /\ next_ino f' = next_ino f.
Proof.
  unfold rename. destruct (lookup a f) as [i|] eqn:E; [|discriminate].
  intros H; inversion H; subst; clear H. exists i. unfold lookup; cbn [dir inodes next_ino].
  split; [reflexivity|]. split; [apply dget_set_same|]. split; [|split; [|split; reflexivity]].
  - intros Hab. rewrite dget_set_other by congruence. apply dget_del_same.
  - intros p Hpa Hpb. rewrite dget_set_other by congruence. apply dget_del_other. congruence.
Qed.

Lemma unlink_lookup_same p f : lookup p (unlink p f) = None.
Proof. unfold lookup, unlink; cbn [dir]. apply dget_del_same. Qed.

Lemma unlink_lookup_other p q f : q <> p -> lookup q (unlink p f) = lookup q f.
Proof. intros H. unfold lookup, unlink; cbn [dir]. apply dget_del_other. congruence. Qed.

Lemma chmod_dir p m f : dir (chmod p m f) = dir f.
Proof. unfold chmod. destruct (lookup p f); [destruct (iget _ f)|]; reflexivity. Qed.

Lemma chmod_next p m f : next_ino (chmod p m f) = next_ino f.
Proof. unfold chmod. destruct (lookup p f); [destruct (iget _ f)|]; reflexivity. Qed.

Lemma chmod_lookup p m f q : lookup q (chmod p m f) = lookup q f.
Proof. unfold lookup. rewrite chmod_dir. reflexivity. Qed.

Lemma chmod_bytes_of p m f j : bytes_of (chmod p m f) j = bytes_of f j.
Proof.
  unfold chmod. destruct (lookup p f) as [i|]; [|reflexivity].
  destruct (iget i f) as [n|] eqn:E; [|reflexivity].
  unfold bytes_of, iget; cbn [inodes]. destruct (N.eq_dec j i) as [->|Hne].
  - rewrite iget_set_same. unfold iget in E. rewrite E. reflexivity.
  - rewrite iget_set_other by congruence. reflexivity.
Qed.

Lemma chmod_iget_none p m f j : iget j f = None -> iget j (chmod p m f) = None.
Proof.
  intros H. unfold chmod. destruct (lookup p f) as [i|]; [|assumption].
  destruct (iget i f) as [n|] eqn:E; [|assumption].
  unfold iget; cbn [inodes]. destruct (N.eq_dec j i) as [->|Hne]; [unfold iget in *; congruence|].
  rewrite iget_set_other by congruence. assumption.
Qed.

Lemma chmod_mode_at p m f i n :
  lookup p f = Some i -> iget i f = Some n -> mode_at (chmod p m f) p = Some m.
Proof.
  intros Hl Hi. unfold mode_at. rewrite chmod_lookup, Hl.
  unfold chmod. rewrite Hl, Hi. unfold iget; cbn [inodes]. rewrite iget_set_same. reflexivity.
Qed.

(* ---------- the scheduler ---------- *)

Section SchedFacts.
  Context {St Loc Act : Type} (act : Act -> St -> Loc -> St * Loc).

  Lemma exec_app s1 s2 st : exec act (s1 ++ s2) st = exec act s2 (exec act s1 st).
  Proof. unfold exec. apply fold_left_app. Qed.

  Lemma exec_cons tid s st : exec act (tid :: s) st = exec act s (step_nth act tid (fst st) (snd st)).
  Proof. reflexivity. Qed.

  (* an invariant of the whole system that every single step preserves holds after every schedule *)
  Lemma exec_invariant (P : St * list (@thread Loc Act) -> Prop) :
    (forall tid st, P st -> P (step_nth act tid (fst st) (snd st))) ->
    forall sched st, P st -> P (exec act sched st).
  Proof.
    intros Hstep sched. induction sched as [|tid sched IH]; intros st HP; [assumption|].
    rewrite exec_cons. apply IH. apply Hstep. assumption.
  Qed.
End SchedFacts.
