(* Properties/C17.v — pinned statements for property C17 (filled in below). *)
From Sccache Require Import Base.Sx Model.Lru Model.TcCache.
