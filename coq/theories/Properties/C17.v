(* Properties/C17.v — pinned statements for property C17:
   "The toolchain cache only ever serves content matching the requested id".

   Model: Model/TcCache.v (TcCache of src/dist/cache.rs on top of the LruDiskCache model
   Model/Lru.v, with file contents and an ABSTRACT digest function).  Every theorem is
   universally quantified over the digest function [digest : bytes -> id], over the
   initial cache [s0] satisfying the invariant [tinv] (every entry file sits at
   a/b/<digest of its content>, index and disk agree, no upload in flight — an empty
   cache directory in particular, Example tinv_empty_cache), and over ALL operation
   sequences [ops] (uploads with matching / non-matching / invalid declared ids, uploads
   cut short by a writer error or by a server crash + restart, insert_file, get,
   contains, remove, reopen), of any length. *)
From Coq Require Import List NArith Bool.
From Sccache Require Import Base.Sx.
From Sccache Require Import Model.Lru.
From Sccache Require Import Model.TcCache.
From Sccache Require Import Proofs.TcCache.
Import ListNotations.
Local Open Scope N_scope.

(* In every reachable state, an id the cache reports present has an archive on disk whose
   digest is that id, and whatever `get` returns for an id has that id as its digest. *)
Theorem C17_content_matches :
  forall (digest : bytes -> id) (s0 : tst) (ops : list top),
  tinv digest s0 ->
  let s := trun digest s0 ops in
  forall i : id,
  (tc_contains s i = true -> exists c, content_of s i = Some c /\ digest c = i) /\
  (forall s' t ret, tc_get digest s i = (s', TOk, t, ret) ->
     exists c, ret = [c; digest c] /\ digest c = i /\ content_of s i = Some c).
Proof. exact content_matches. Qed.
Print Assumptions C17_content_matches.

(* If no two contents in play (the client's archive a0, the initial files, everything any
   operation ever wrote) collide under the digest ("no BLAKE3 collision"), then `get` of
   the id of a0 returns a0 itself, never anything else. *)
Theorem C17_serves_the_intended_archive :
  forall (digest : bytes -> id) (s0 : tst) (ops : list top) (a0 : bytes),
  tinv digest s0 ->
  no_collision digest (a0 :: universe s0 ops) ->
  let s := trun digest s0 ops in
  forall s' t ret, tc_get digest s (digest a0) = (s', TOk, t, ret) -> ret = [a0; digest a0].
Proof. exact serves_the_intended_archive. Qed.
Print Assumptions C17_serves_the_intended_archive.

(* An upload that is cut short (writer error), whose content does not hash to the declared
   id, or whose declared id is not a valid id, is rejected and changes nothing: index,
   files, contents are as before, no temp file stays, every id is reported and served as
   before, and a restarted cache (any capacity) is the same as if the upload had never
   happened. *)
Theorem C17_bad_upload_leaves_nothing :
  forall (digest : bytes -> id) (s0 : tst) (ops : list top) (i : id) (b : bytes) (fail : bool),
  tinv digest s0 ->
  let s := trun digest s0 ops in
  (fail = true \/ digest b <> i \/ valid_id i = false) ->
  exists s' r, tc_insert_with digest s i b fail = (s', r, None) /\ r <> TOk /\
    index (lru s') = index (lru s) /\ files (lru s') = files (lru s) /\ cont s' = cont s /\
    handles (lru s') = [] /\
    (forall j, tc_contains s' j = tc_contains s j /\ content_of s' j = content_of s j) /\
    (forall c, index (lru (tc_reopen s' c)) = index (lru (tc_reopen s c)) /\
               files (lru (tc_reopen s' c)) = files (lru (tc_reopen s c)) /\
               cont (tc_reopen s' c) = cont (tc_reopen s c)).
Proof. exact bad_upload_leaves_nothing. Qed.
Print Assumptions C17_bad_upload_leaves_nothing.

(* A server that dies while (or right after) an upload of ANY bytes under ANY id was being
   received comes back exactly as if it had merely been restarted. *)
Theorem C17_crashed_upload_leaves_nothing :
  forall (digest : bytes -> id) (s0 : tst) (ops : list top) (i : id) (b : bytes) (c : N),
  tinv digest s0 ->
  let s := trun digest s0 ops in
  let s' := tc_crash_upload s i b c in
  index (lru s') = index (lru (tc_reopen s c)) /\ files (lru s') = files (lru (tc_reopen s c)) /\
  cont s' = cont (tc_reopen s c) /\ handles (lru s') = [] /\
  (forall j, tc_contains s' j = tc_contains (tc_reopen s c) j /\
             content_of s' j = content_of (tc_reopen s c) j).
Proof. exact crashed_upload_leaves_nothing. Qed.
Print Assumptions C17_crashed_upload_leaves_nothing.

(* For the ids the (fixed) code accepts, make_lru_key_path is total: its two slices do not
   panic, the path is a/b/id with exactly these three plain components (relative, no "..",
   no empty component), its file name is the id (never a temp-file name, so a restart
   keeps it), and distinct ids never share a path. *)
Theorem C17_key_path_total :
  forall i : id, valid_id i = true ->
  slices_ok i = true /\
  (exists a b, key_path i = [a; 47; b; 47] ++ i /\ components (key_path i) = [[a]; [b]; i]) /\
  forallb plain_component (components (key_path i)) = true /\
  file_name (key_path i) = i /\ is_temp (key_path i) = false /\
  (forall j, key_path j = key_path i -> j = i).
Proof. exact key_path_total. Qed.
Print Assumptions C17_key_path_total.

(* Ids outside that class never reach the disk: every call returns its "absent" answer and
   the state is untouched. *)
Theorem C17_invalid_id_no_effect :
  forall (digest : bytes -> id) (s : tst) (i : id), valid_id i = false ->
  (forall b f, tc_insert_with digest s i b f = (s, TRejected, None)) /\
  tc_get digest s i = (s, TNotInCache, None, []) /\
  tc_contains s i = false /\
  tc_remove s i = (s, TOk).
Proof. exact invalid_id_no_effect. Qed.
Print Assumptions C17_invalid_id_no_effect.

(* The client side (ClientToolchains: weak-key map in front of a TcCache filled by
   insert_file): after any sequence of put_toolchain (incl. failing packagers), get_toolchain
   and restarts, what get_toolchain returns for an id has that id as its digest. *)
Theorem C17_client_content_matches :
  forall (digest : bytes -> id) (s0 : cst) (ops : list cop),
  tinv digest (tcs s0) ->
  let s := crun digest s0 ops in
  forall i s' t ret, cstep digest s (CGet i) = (s', TORes TOk t ret) ->
  exists c, ret = [c; digest c] /\ digest c = i /\ content_of (tcs s) i = Some c.
Proof. exact client_content_matches. Qed.
Print Assumptions C17_client_content_matches.

(* The op alphabet of all theorems above includes the FAILING FINAL RENAME: TInsertWithXdev
   (a complete, matching upload whose move from the temp file to a/b/<id> is refused: EXDEV when
   the shard directory is a mount point of its own, EACCES, ENOSPC) and TInsertFileCopy
   (insert_file's rename refused, fall-back copy completing or stopping part-way), at any
   point of any history.  The next two statements say what such a step itself leaves. *)

(* An upload whose final rename fails is answered with an error and leaves nothing new: no
   temp file, no file that was not there before, no id newly reported present, no content
   that was not served before (evictions made for it may have removed entries). *)
Theorem C17_failed_rename_leaves_nothing :
  forall (digest : bytes -> id) (s0 : tst) (ops : list top) (i : id) (b : bytes),
  tinv digest s0 ->
  let s := trun digest s0 ops in
  exists s' r, tc_insert_with_xdev digest s i b = (s', r, None) /\ r <> TOk /\
    handles (lru s') = [] /\
    (forall k, In k (keys (files (lru s'))) -> In k (keys (files (lru s)))) /\
    (forall j, tc_contains s' j = true -> tc_contains s j = true) /\
    (forall j c, content_of s' j = Some c -> content_of s j = Some c).
Proof. exact failed_rename_leaves_nothing. Qed.
Print Assumptions C17_failed_rename_leaves_nothing.

(* insert_file whose rename is refused and whose fall-back copy stops part-way: error, nothing
   new, and nothing at all under the id of the archive (the truncated copy is removed). *)
Theorem C17_failed_copy_leaves_nothing :
  forall (digest : bytes -> id) (s0 : tst) (ops : list top) (b : bytes),
  tinv digest s0 ->
  let s := trun digest s0 ops in
  exists s' r, tc_insert_file_copy digest s b false = (s', r, None, []) /\ r <> TOk /\
    handles (lru s') = [] /\
    (forall k, In k (keys (files (lru s'))) -> In k (keys (files (lru s)))) /\
    (forall j, tc_contains s' j = true -> tc_contains s j = true) /\
    (forall j c, content_of s' j = Some c -> content_of s j = Some c) /\
    (blen b <= cap (lru s) -> valid_id (digest b) = true ->
       tc_contains s' (digest b) = false /\ content_of s' (digest b) = None).
Proof. exact failed_copy_leaves_nothing. Qed.
Print Assumptions C17_failed_copy_leaves_nothing.

(* The remaining crash point of the fault space (finding C17-K1, repaired by 7ead532): the
   process is killed in the middle of insert_file's fall-back copy (any archive, any number of
   bytes written) and the cache is started again.  The result is EXACTLY a plain restart, so a
   history with such a crash is a history of [top] with TReopen in its place and all theorems
   above apply to it.  (Before the repair the copy went straight to the final path and the
   statement was refuted: the old witness is kept in corpus/C17/mount.sx.) *)
Theorem C17_crash_in_fallback_copy_leaves_nothing :
  forall (digest : bytes -> id) (s : tst) (b : bytes) (k : nat) (c : N),
  tc_crash_insert_file_copy digest s b k c = tc_reopen s c.
Proof. exact crash_in_fallback_copy_leaves_nothing. Qed.
Print Assumptions C17_crash_in_fallback_copy_leaves_nothing.

(* Ids of EVERY length are in the case space (Toolchain::archive_id_is_valid puts no upper bound
   on an id).  An id that is not the digest of any content - a stored id with digits appended or
   dropped, an id longer than a file name can be - is never reported present and never served,
   whatever is stored under the ids that resemble it ... *)
Theorem C17_only_digests_are_served :
  forall (digest : bytes -> id) (s0 : tst) (ops : list top) (i : id),
  tinv digest s0 ->
  (forall c, digest c <> i) ->
  let s := trun digest s0 ops in
  tc_contains s i = false /\
  (forall s' r t ret, tc_get digest s i = (s', r, t, ret) -> r <> TOk /\ ret = []).
Proof. exact only_digests_are_served. Qed.
Print Assumptions C17_only_digests_are_served.

(* ... and removing an id touches that id only: every other id (of any length, valid or not) is
   reported and served exactly as before. *)
Theorem C17_remove_is_exact :
  forall (digest : bytes -> id) (s0 : tst) (ops : list top) (i : id),
  tinv digest s0 ->
  let s := trun digest s0 ops in
  forall j, j <> i ->
  tc_contains (fst (tc_remove s i)) j = tc_contains s j /\
  content_of (fst (tc_remove s i)) j = content_of s j.
Proof. exact remove_is_exact. Qed.
Print Assumptions C17_remove_is_exact.

(* The build server in front of the cache (sccache-dist `Server`: handle_assign_job /
   handle_submit_toolchain / handle_run_job with the builder that throws an archive it cannot
   unpack out of the cache again; an upload stalled in the middle of its body holds the cache, and
   assignments arriving meanwhile are answered after it).  Whenever the server tells the
   scheduler that it does NOT need the toolchain of a job - at once, or to an assignment that had
   to wait for an upload - its cache holds, at that moment, an archive under that id whose
   digest is the id; for every history of assignments, uploads, stalled uploads and job runs. *)
Theorem C17_server_ready_means_present :
  forall (digest : bytes -> id) (s0 : sst) (ops : list sop) (o : sop),
  tinv digest (sv s0) ->
  let s := srun digest s0 ops in
  let s' := fst (fst (sstep digest s o)) in
  (snd (fst (sstep digest s o)) = SReady ->
     exists i c, o = SAssign i /\ content_of (sv s') i = Some c /\ digest c = i) /\
  (forall n w, nth_error (swait s) n = Some w ->
     nth_error (snd (sstep digest s o)) n = Some SReady ->
     exists c, content_of (sv s') (snd w) = Some c /\ digest c = snd w).
Proof. exact server_ready_means_present. Qed.
Print Assumptions C17_server_ready_means_present.

(* ---------- non-vacuity ---------- *)

(* the hypothesis [tinv] holds for a freshly created cache directory *)
Example tinv_empty_cache : forall digest c, tinv digest (tc_empty c).
Proof. exact tinv_empty. Qed.

(* a toy digest producing valid ids (letters a-f, then "00") *)
Definition toy_digest (b : bytes) : id := map (fun x => 97 + x mod 6) b ++ [48; 48].

Definition ex_ops : list top :=
  [ TInsertWith (toy_digest [1; 2; 3]) [1; 2; 3] false;     (* accepted *)
    TInsertWith (toy_digest [1; 2; 3]) [9; 9] false;        (* mismatch: rejected *)
    TInsertWith (toy_digest [4; 5]) [4] true;               (* cut short: rejected *)
    TCrashUpload (toy_digest [4; 5]) [4] 100;               (* crash + restart *)
    TInsertFile [7; 7; 7; 7] ].

Example ex_run_serves :
  let s := trun toy_digest (tc_empty 100) ex_ops in
  tc_contains s (toy_digest [1; 2; 3]) = true /\
  tc_contains s (toy_digest [4; 5]) = false /\
  tc_contains s (toy_digest [7; 7; 7; 7]) = true /\
  snd (tstep toy_digest s (TGet (toy_digest [1; 2; 3])))
    = TORes TOk (Some (key_path (toy_digest [1; 2; 3]))) [[1; 2; 3]; toy_digest [1; 2; 3]].
Proof. vm_compute. repeat split. Qed.

Example ex_rejected :
  snd (tstep toy_digest (tc_empty 100) (TInsertWith (toy_digest [1; 2; 3]) [9; 9] false))
    = TORes TRejected None [] /\
  valid_id (toy_digest [1; 2; 3]) = true /\ valid_id [97] = false /\ valid_id [46; 46; 47; 120] = false.
Proof. vm_compute. repeat split. Qed.

Example ex_no_collision :
  no_collision toy_digest ([1; 2; 3] :: universe (tc_empty 100) ex_ops).
Proof.
  intros a b Ha Hb. vm_compute in Ha, Hb.
  repeat (destruct Ha as [<-|Ha]; [|]); try contradiction;
  repeat (destruct Hb as [<-|Hb]; [|]); try contradiction; vm_compute; congruence.
Qed.

Example ex_client :
  let s := crun toy_digest {| tcs := tc_empty 100; weak := [] |}
             [CPut [119; 49] [1; 2; 3] false; CPut [119; 50] [4] true; CPut [119; 49] [9] false; CReopen 50] in
  snd (cstep toy_digest s (CGet (toy_digest [1; 2; 3])))
    = TORes TOk (Some (key_path (toy_digest [1; 2; 3]))) [[1; 2; 3]; toy_digest [1; 2; 3]] /\
  weak s = [([119; 49], toy_digest [1; 2; 3])].
Proof. vm_compute. repeat split. Qed.

Example ex_failed_rename :
  let s := trun toy_digest (tc_empty 100) [TInsertWith (toy_digest [1; 2; 3]) [1; 2; 3] false] in
  snd (tstep toy_digest s (TInsertWithXdev (toy_digest [4; 5]) [4; 5])) = TORes TIoErr None [] /\
  tc_contains (fst (tstep toy_digest s (TInsertWithXdev (toy_digest [4; 5]) [4; 5]))) (toy_digest [4; 5]) = false /\
  snd (tstep toy_digest s (TInsertFileCopy [4; 5] false)) = TORes TIoErr None [] /\
  snd (tstep toy_digest s (TInsertFileCopy [4; 5] true)) = TORes TOk (Some (key_path (toy_digest [4; 5]))) [toy_digest [4; 5]].
Proof. vm_compute. repeat split. Qed.

Example ex_near_ids :
  let d := toy_digest [1; 2; 3] in
  let s := trun toy_digest (tc_empty 100) [TInsertWith d [1; 2; 3] false] in
  tc_contains s d = true /\ tc_contains s (d ++ [48]) = false /\ valid_id (d ++ [48]) = true /\
  tc_contains (fst (tc_remove s (d ++ [48; 48]))) d = true /\
  snd (tstep toy_digest s (TGet (d ++ [48]))) = TORes TNotInCache None [].
Proof. vm_compute. repeat split. Qed.

Example ex_server :
  let d := toy_digest [1; 2; 3] in
  let e := toy_digest [4] in
  let ops := [SAssign d; SSubmit 1 [1; 2; 3]; SAssign d; SRun 2; SAssign e; SStall 3 [4]; SAssign d; SRelease] in
  map (fun x => fst x) (strace toy_digest (s_empty 100) ops)
    = [(SNeed, []); (SSuccess, []); (SReady, []); (SFailed, []); (SNeed, []); (SStalled, []); (SBlocked, []);
       (SSuccess, [SNeed])].
Proof. vm_compute. reflexivity. Qed.
