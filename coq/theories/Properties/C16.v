(* Properties/C16.v — pinned statements for property C16:
   "Compiler processes are bounded by the job-token pool and tokens never leak"  (PARTIAL: the
   `jobserver` crate's pipe is a counter; the compilers' own use of the inherited pipe is not modelled).

   Model: Model/Jobserver.v — src/jobserver.rs (`Client::new_num`, the helper-thread closure, `acquire`)
   and the token life-cycle of src/mock_command.rs (`AsyncCommand::spawn`, `Child::wait`, drops).
   State: pool (tokens in the pipe), reqs (helper cycles owed), hand (the helper holds a token), queue (FIFO
   of one-shot senders), gone (queued requests whose receiver was dropped), slots (token sent, not yet
   received), held (`Acquired` without a process), running (`Child` alive), orphans (processes whose `Child`
   was dropped: tokio does not kill them).
   Events, in ANY order the model allows — `run (init n) es = Some s` ranges over ALL finite schedules of
   requesters, helper thread, cancellations at any point, process exits with either status, spawn
   failures, early drops; no bound on their number or on the number of requests:
     Request r, HelperAcquire, Deliver, Receive r, Cancel r, DropHeld r, Start r, SpawnFail r, Exit r ok,
     DropRunning r, OrphanExit r, Done r.
   `Exit r ok` is the PROCESS exiting: `Child::wait` completes and drops the token at once (in
   `util::wait_with_input_output` the wait runs concurrently with the stdout/stderr drains); the request itself
   ends later, at `Done r`, when the pipes reach EOF — something the compiler started may hold them for long.
   draining = requests between the two: they hold NO token (no term for them in the conservation law).
   The client itself: `Client::new()` = `new_num(num_cpus())`, a limited client with a pool of its own whatever
   MAKEFLAGS says; the `inherited` branch of `_new` (no helper, `acquire()` returns an empty `Acquired` at once)
   is not reachable from it.
   in_hand_off = hand + |slots|, holding = |held| + |running|, live_procs = |running| + |orphans|. *)
From Coq Require Import List NArith Bool.
From Sccache Require Import Model.Jobserver.
From Sccache Require Import Proofs.Jobserver.
Import ListNotations.
Local Open Scope N_scope.

(* Tokens are neither created nor destroyed: pipe + hand-over + requesters = n, after every schedule. *)
Theorem C16_conservation :
  forall (n : N) (es : list event) (s : st),
  run (init n) es = Some s -> pool s + in_hand_off s + holding s = n.
Proof. exact conservation. Qed.
Print Assumptions C16_conservation.

(* Never more token-holding compiler / preprocessor processes than tokens, however many requests there are. *)
Theorem C16_bound :
  forall (n : N) (es : list event) (s : st),
  run (init n) es = Some s -> len (running s) <= n /\ holding s <= n.
Proof. exact bound. Qed.
Print Assumptions C16_bound.

(* Counting the processes that are alive: the excess over n is exactly the orphans, and they come from
   `Child`s dropped before `wait` completed (DropRunning) only; without such drops, live processes <= n. *)
Theorem C16_bound_live :
  forall (n : N) (es : list event) (s : st),
  run (init n) es = Some s ->
  live_procs s <= n + len (orphans s) /\
  (forallb (fun e => negb (is_drop_running e)) es = true -> live_procs s <= n).
Proof. exact bound_live. Qed.
Print Assumptions C16_bound_live.

(* Every exit path returns the token at once: Acquired dropped, spawn failure, process exit with success OR
   failure, Child dropped while running, request dropped with the token already in its slot. *)
Theorem C16_no_leak :
  forall (s : st) (e : event) (s' : st),
  step s e = Some s' -> gives_back s e = true ->
  pool s' = pool s + 1 /\ in_hand_off s' + holding s' + 1 = in_hand_off s + holding s.
Proof. exact no_leak_step. Qed.
Print Assumptions C16_no_leak.

(* A request dropped while it was still queued: the token the helper takes for it goes straight back. *)
Theorem C16_no_leak_cancelled_waiter :
  forall (s s' : st) (h : rid) (q : list rid),
  step s Deliver = Some s' -> queue s = h :: q -> mem h (gone s) = true ->
  pool s' = pool s + 1 /\ hand s' = false /\ slots s' = slots s.
Proof. exact no_leak_gone. Qed.
Print Assumptions C16_no_leak_cancelled_waiter.

(* After ANY history, once nobody waits or holds, every token is back (and no helper cycle is owed). *)
Theorem C16_no_leak_quiescent :
  forall (n : N) (es : list event) (s : st),
  run (init n) es = Some s -> quiescent s = true -> pool s = n /\ reqs s = 0 /\ gone s = [].
Proof. exact no_leak_quiescent. Qed.
Print Assumptions C16_no_leak_quiescent.

(* ... and full parallelism is restored: a burst of n fresh requests is served one after the other and all
   n hold a token at once; an n+1-th request then finds the helper unable to move (it waits). *)
Theorem C16_full_parallelism_restored :
  forall (n : N) (es : list event) (s : st) (r0 : rid),
  run (init n) es = Some s -> quiescent s = true ->
  (forall i, (i < N.to_nat n)%nat -> active s (r0 + N.of_nat i) = false) ->
  exists s', run s (burst (N.to_nat n) r0) = Some s' /\
             holding s' = n /\ pool s' = 0 /\
             (forall r s1, step s' (Request r) = Some s1 -> helper_enabled s1 = None).
Proof. exact full_parallelism_restored. Qed.
Print Assumptions C16_full_parallelism_restored.

(* The queue is a FIFO and a token only ever goes to its head: every step leaves the queue alone, appends the
   new request at the tail, or (Deliver) removes the head h — giving h the token, or returning the token to
   the pipe when h's receiver is gone. *)
Theorem C16_fifo :
  forall (s : st) (e : event) (s' : st),
  step s e = Some s' ->
  (queue s' = queue s /\ e <> Deliver /\ (forall r, e <> Request r)) \/
  (exists r, e = Request r /\ queue s' = queue s ++ [r]) \/
  (e = Deliver /\ exists h, queue s = h :: queue s' /\
     ((mem h (gone s) = false /\ slots s' = slots s ++ [h] /\ pool s' = pool s) \/
      (mem h (gone s) = true /\ slots s' = slots s /\ pool s' = pool s + 1))).
Proof. exact fifo_step. Qed.
Print Assumptions C16_fifo.

(* No deadlock: if somebody waits, either the helper thread can move, or every token is out with some
   requester that can give it back (and the pipe is empty, the helper's hands too). *)
Theorem C16_never_stuck :
  forall (n : N) (es : list event) (s : st),
  run (init n) es = Some s -> 0 < n -> queue s <> [] ->
  (exists e s', helper_enabled s = Some e /\ step s e = Some s') \/
  (pool s = 0 /\ hand s = false /\
   exists r e s', (mem r (slots s) || mem r (held s) || mem r (running s)) = true /\
                  step s e = Some s' /\ gives_back s e = true).
Proof. exact never_stuck. Qed.
Print Assumptions C16_never_stuck.

(* Progress.  An infinite execution (sched i is the i-th event, tr i the state before it) that is
     - helper_fair: whenever the helper thread can move, some helper step eventually happens, and
     - holders_let_go: whenever somebody waits while the pipe and the helper's hands are empty, some requester
       eventually gives a token back (a running process exits, a Child / Acquired / delivered request is dropped),
   serves every queued request: r reaches the head and the token is handed to it (it lands in r's slot
   unless r's receiver was dropped).  No bound on how many requests are ahead of r or arrive meanwhile. *)
Theorem C16_progress :
  forall (n : N) (sched : nat -> event) (tr : nat -> st),
  0 < n -> execution n sched tr -> helper_fair sched tr -> holders_let_go sched tr ->
  forall (i : nat) (r : rid), In r (queue (tr i)) ->
    exists j q, (i <= j)%nat /\ sched j = Deliver /\ queue (tr j) = r :: q /\
                (mem r (gone (tr j)) = false -> In r (slots (tr (S j)))).
Proof. exact progress. Qed.
Print Assumptions C16_progress.

(* The release point is the exit of the process, whatever its status: the token is back in the pipe in the very
   step in which the process exits, while the request is still waiting for EOF on the process' pipes. *)
Theorem C16_release_at_process_exit :
  forall (s : st) (r : rid) (ok : bool) (s' : st),
  step s (Exit r ok) = Some s' ->
  pool s' = pool s + 1 /\ In r (draining s') /\ mem r (running s') = mem r (del r (running s)) /\
  queue s' = queue s /\ hand s' = hand s /\ reqs s' = reqs s.
Proof. exact release_at_exit. Qed.
Print Assumptions C16_release_at_process_exit.

(* ... and the end of the request moves no token. *)
Theorem C16_eof_moves_no_token :
  forall (s : st) (r : rid) (s' : st),
  step s (Done r) = Some s' ->
  pool s' = pool s /\ reqs s' = reqs s /\ hand s' = hand s /\ queue s' = queue s /\ gone s' = gone s /\
  slots s' = slots s /\ held s' = held s /\ running s' = running s.
Proof. exact done_moves_no_token. Qed.
Print Assumptions C16_eof_moves_no_token.

(* Hence a compiler that has exited while something it started still holds its stdout/stderr keeps nothing from
   the next request: with nobody else queued, the next request is served and starts its process although the
   first request never completes (no `Done r` in the schedule). *)
Theorem C16_next_runs_without_eof :
  forall (n : N) (es : list event) (s : st) (r : rid) (ok : bool) (s1 : st) (r2 : rid),
  run (init n) es = Some s -> step s (Exit r ok) = Some s1 ->
  queue s = [] -> hand s = false -> active s1 r2 = false ->
  exists s', run s1 [Request r2; HelperAcquire; Deliver; Receive r2; Start r2] = Some s' /\
             In r2 (running s') /\ In r (draining s').
Proof. exact next_runs_without_eof. Qed.
Print Assumptions C16_next_runs_without_eof.

(* The server's client (`Client::new()`), for EVERY environment — no MAKEFLAGS, a reachable named-fifo jobserver
   with any number of tokens, an fd-pair jobserver with open or closed descriptors, garbage — is a limited client
   whose pool is the number of CPUs the server sees: of any burst of m simultaneous acquisitions at most ncpus
   hold an `Acquired` at once and none of those is empty. *)
Theorem C16_server_client_owns_its_pool :
  forall (ncpus : N) (mf : makeflags),
  c_limited (client_new ncpus mf) = true /\ c_tokens (client_new ncpus mf) = ncpus.
Proof. exact server_client_owns_its_pool. Qed.
Print Assumptions C16_server_client_owns_its_pool.

Theorem C16_every_acquired_holds_a_token :
  forall (ncpus : N) (mf : makeflags) (m : N),
  granted_at_once (client_new ncpus mf) m <= ncpus /\ empty_acquireds (client_new ncpus mf) m = 0.
Proof. exact server_client_bound. Qed.
Print Assumptions C16_every_acquired_holds_a_token.

(* Waiting is not a way to a process.  A process is started only by a request that HOLDS a token (and starting it
   moves no token); a request comes to hold a token only by receiving it from its one-shot slot; a token gets into a
   slot only by the helper's hand-over to the head of the queue.  There is no transition by which a request that has
   merely waited (however long) starts a process or obtains an `Acquired`: in the source, `AsyncCommand::spawn` obtains
   its `Acquired` through the unconditional `Client::acquire()`, and the only `Acquired` built without a token is the
   one of the inherited-jobserver branch (side conditions regenerated by translator/c16_acquire.py, Gen/C16Acquire_ok.v). *)
Theorem C16_start_needs_token :
  forall (s : st) (r : rid) (s' : st),
  step s (Start r) = Some s' ->
  mem r (held s) = true /\ pool s' = pool s /\ in_hand_off s' = in_hand_off s /\ holding s' = holding s.
Proof. exact start_needs_token. Qed.
Print Assumptions C16_start_needs_token.

Theorem C16_token_only_by_receive :
  forall (s : st) (e : event) (s' : st) (x : rid),
  step s e = Some s' -> mem x (held s') = true ->
  mem x (held s) = true \/ (e = Receive x /\ mem x (slots s) = true).
Proof. exact token_only_by_receive. Qed.
Print Assumptions C16_token_only_by_receive.

Theorem C16_slot_only_by_hand_over :
  forall (s : st) (e : event) (s' : st) (x : rid),
  step s e = Some s' -> mem x (slots s') = true ->
  mem x (slots s) = true \/ (e = Deliver /\ hand s = true /\ exists q, queue s = x :: q).
Proof. exact slot_only_by_deliver. Qed.
Print Assumptions C16_slot_only_by_hand_over.

(* Start-up.  Whatever jobserver the environment announces (any R,W or none), whatever descriptors are open when
   the server process starts (announced ones inherited or not), if every `discard_inherited_jobserver()` of the
   start-up sequence comes before the server's client is created, the client's token pipe is intact afterwards:
   both ends open and still the pool's.  The start-up sequence of the CURRENT source is regenerated on every run by
   translator/c16_startup.py (Gen/C16Startup.v) and `startup_ok` of it is re-proved (Gen/C16Startup_ok.v). *)
Theorem C16_pool_survives_startup :
  forall (announced : option (N * N)) (open0 : list N) (acts : list sact),
  startup_ok acts = true ->
  let s := startup announced open0 acts in
  pool_alive s = true /\ exists r w, pool_fds s = Some (r, w) /\ In r (open_fds s) /\ In w (open_fds s).
Proof. exact pool_survives_startup. Qed.
Print Assumptions C16_pool_survives_startup.

(* ---------------------------------------------------------------- non-vacuity *)

(* the order matters: a discard after the client, with R,W = 3,4 announced but not inherited (an ordinary recipe of
   GNU make <= 4.3), closes the pool's own pipe; with 3,4 really inherited the same wrong order goes unnoticed *)
Example C16_discard_after_client_destroys_the_pool :
  pool_alive (startup (Some (3, 4)) [0; 1; 2] [SNewClient; SDiscard]) = false /\
  pool_alive (startup (Some (3, 4)) [0; 1; 2; 3; 4] [SNewClient; SDiscard]) = true /\
  pool_alive (startup (Some (3, 4)) [0; 1; 2] [SDiscard; SNewClient]) = true.
Proof. vm_compute. auto. Qed.


(* the `inherited` branch of `_new` would NOT do: every one of m simultaneous acquisitions is granted, all empty *)
Example C16_inherited_mode_is_unbounded :
  forall m : N, granted_at_once client_inherited m = m /\ empty_acquireds client_inherited m = m.
Proof. exact inherited_mode_unbounded. Qed.

(* one token; 1 exits with a failure while its pipes stay open for good; 2 still runs *)
Example C16_pipes_held_after_exit :
  exists s, run (init 1) [Request 1; HelperAcquire; Deliver; Receive 1; Start 1; Request 2; Exit 1 false;
                          HelperAcquire; Deliver; Receive 2; Start 2] = Some s /\
             draining s = [1] /\ running s = [2] /\ pool s = 0.
Proof. eexists. split; [vm_compute; reflexivity|]. vm_compute. auto. Qed.


(* a contended history with every kind of exit: 2 tokens, 5 requests; 3 is dropped while queued, 4 is dropped
   with the token already in its slot, 1 fails to spawn, 2 runs and exits non-zero, 5 is dropped while running *)
Example C16_history :
  exists s,
    run (init 2) [Request 1; Request 2; Request 3; Request 4; Request 5; HelperAcquire; Deliver; HelperAcquire;
                  Deliver; Receive 1; Receive 2; Cancel 3; SpawnFail 1; Start 2; HelperAcquire; Deliver;
                  HelperAcquire; Deliver; Cancel 4; HelperAcquire; Deliver; Receive 5; Start 5; Exit 2 false;
                  DropRunning 5] = Some s /\
    quiescent s = true /\ pool s = 2 /\ orphans s = [5].
Proof. eexists. split; [vm_compute; reflexivity|]. vm_compute. auto. Qed.

(* the helper cannot take a third token *)
Example C16_third_is_refused :
  run (init 2) [Request 1; Request 2; Request 3; HelperAcquire; Deliver; HelperAcquire; Deliver; HelperAcquire] = None.
Proof. vm_compute. reflexivity. Qed.

(* the hypotheses of C16_progress are satisfiable by an execution in which a request really waits *)
Example C16_fair_execution_exists :
  exists sched tr, execution 1 sched tr /\ helper_fair sched tr /\ holders_let_go sched tr /\
                   exists i r, In r (queue (tr i)).
Proof.
  exists w_sched, w_tr. repeat split; try apply w_execution; try apply w_helper_fair; try apply w_holders_let_go.
  exists 1%nat, 1. exact w_waits.
Qed.
