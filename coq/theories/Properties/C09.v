(* Properties/C09.v — pinned statements for C09 "a broken, corrupt or read-only cache never breaks or
   falsifies a build".  Model: Model/ReqSM.v (the code after the S5 fix); proofs: Proofs/ReqSM.v. *)
From Coq Require Import List NArith Bool.
From Sccache Require Import Base.Sx Model.Stats Model.ReqSM Model.ReqSMExt Proofs.ReqSM.
Import ListNotations.
Local Open Scope N_scope.

(* For EVERY fault assignment (an outcome for each of the five storage interactions), every request class and
   cache control, in every cache state that holds only compiler-produced entries: the client gets the
   compiler's own exit status, stdout, stderr and outputs (or the request is handed back to the client, which
   runs the compiler itself).  Hypotheses: the two hash keys are sound ([consistent], the subject of C02 and
   C04), the compiler writes its outputs when it exits 0 ([sane]), the output directory is usable
   ([f_outdir_ok], not a storage fault: the compiler itself fails without it), and nothing inside the server
   PANICS on the way ([calm]: the storage calls return — Ok, Err, garbage, late — rather than panic, and sccache's
   own code reaches the compiler; a panicking result put is allowed).  What happens without [calm] is
   C09_internal_fault_reported below. *)
Theorem C09_faults_transparent :
  forall (w : world) (st : cstate) (t : N) (f : faults) (cl : req_class) (cc : cache_control),
    consistent w -> Inv w st -> sane (w t) -> f_outdir_ok f = true -> calm f (w t) ->
    transparent (w t) (snd (fst (request f cl cc (w t) st))).
Proof. exact request_transparent. Qed.
Print Assumptions C09_faults_transparent.

(* An internal fault (a storage call or sccache's own code panics inside the compile task) is caught: the request
   is still ANSWERED — with the compiler's own result if the panic was not on its path, otherwise with a reported
   fatal error, never with a wrong result — and it ends in the error class of the statistics. *)
Theorem C09_internal_fault_reported :
  (forall (w : world) (st : cstate) (t : N) (f : faults) (cl : req_class) (cc : cache_control),
      consistent w -> Inv w st -> sane (w t) -> f_outdir_ok f = true ->
      transparent (w t) (snd (fst (request f cl cc (w t) st)))
      \/ r_client (snd (fst (request f cl cc (w t) st))) = CFatal)
  /\ (forall f cc o st, r_client (snd (execute f cc o st)) = CFatal ->
                        r_outcome (snd (execute f cc o st)) = Some OFatal).
Proof. split; [exact request_answered | exact execute_panic_is_error]. Qed.
Print Assumptions C09_internal_fault_reported.

(* The same for whole histories from the empty cache: requests with arbitrary faults, interleaved with damage
   to entry files behind the server's back (overwrite with garbage, truncate, empty, delete; result entries
   and preprocessor-cache entries) and restarts into read-write or read-only mode.  Every request is
   transparent, and at the end the cache still holds only compiler-produced entries. *)
Theorem C09_history_transparent :
  forall (w : world) (ss : list step),
    consistent w -> (forall t, sane (w t)) -> history_ok w empty_cache ss.
Proof. intros w ss HC HS. apply history_transparent; auto. apply Inv_empty. Qed.
Print Assumptions C09_history_transparent.

(* A build that fails (preprocessing or compilation) stores nothing in the result cache ... *)
Theorem C09_failed_never_stored :
  forall (w : world) (st : cstate) (t : N) (f : faults) (cl : req_class) (cc : cache_control),
    Inv w st -> fst (fst (fst (direct (w t)))) <> 0 ->
    cs_res (fst (fst (request f cl cc (w t) st))) = cs_res st.
Proof. exact failed_never_stored. Qed.
Print Assumptions C09_failed_never_stored.

(* ... and for a failing compilation proper that holds without any assumption on the cache contents. *)
Theorem C09_compile_failure_never_stored :
  forall (f : faults) (cl : req_class) (cc : cache_control) (o : oracle) (st : cstate),
    o_c_status o <> 0 -> cs_res (fst (fst (request f cl cc o st))) = cs_res st.
Proof. exact failed_never_stored_cc. Qed.
Print Assumptions C09_compile_failure_never_stored.

(* After the faults stop — in ANY state a fault history can leave behind (entries unparsable, deleted behind
   the index, preprocessor entries garbage or empty), cache writable — a fault-free request of a unit that
   compiles leaves a well-formed entry behind, and the next one is a hit that does not run the compiler. *)
Theorem C09_repopulates :
  forall (w : world) (st : cstate) (t : N),
    consistent w -> Inv w st -> sane (w t) -> calm_oracle (w t) -> cs_ro st = false ->
    o_pp_status (w t) = 0 -> o_c_status (w t) = 0 -> o_cacheable (w t) = true ->
    let '(st1, r1, _) := request no_faults QCompile CCDefault (w t) st in
    let '(st2, r2, _) := request no_faults QCompile CCDefault (w t) st1 in
    kv_get (o_key (w t)) (cs_res st1) = Some (RGood (o_c_stdout (w t)) (o_c_stderr (w t)) (o_c_outputs (w t)))
    /\ transparent (w t) r1
    /\ is_hit_of (w t) r2 /\ transparent (w t) r2.
Proof. exact repopulates. Qed.
Print Assumptions C09_repopulates.

(* The result key a preprocessor-cache entry FILE names is untrusted: an arbitrary byte string.  If it is not of the
   form `hash_key` produces ([wf_result_key]: 64 lower-case hexadecimal digits) the entry is never used for a
   lookup (so the key never becomes a path), the cache still holds only compiler-produced entries, and every
   request — for every fault assignment — gets the compiler's own result: a miss that recompiles (and, by
   C09_repopulates, re-populates). *)
Theorem C09_untrusted_result_key_is_a_miss :
  forall (w : world) (st : cstate) (t : N) (f : faults) (cl : req_class) (cc : cache_control)
         (pk k : key) (m : N),
    consistent w -> Inv w st -> sane (w t) -> f_outdir_ok f = true -> calm f (w t) ->
    wf_result_key k = false ->
    pp_read f pk (forge_pp pk k m st) = None
    /\ Inv w (forge_pp pk k m st)
    /\ transparent (w t) (snd (fst (request f cl cc (w t) (forge_pp pk k m st)))).
Proof.
  intros w st t f cl cc pk k m HC HI HS HO HCalm Hk. split.
  - apply forge_malformed_not_read; exact Hk.
  - apply malformed_result_key_transparent; assumption.
Qed.
Print Assumptions C09_untrusted_result_key_is_a_miss.

(* ---------- non-vacuity ---------- *)

Definition worst : faults :=
  {| f_ppget := PFGarbage; f_ppupd := WErr; f_ppput := WReadOnly; f_get := GBadObj; f_put := WTooLarge;
     f_outdir_ok := true |}.

(* a world meeting the hypotheses *)
Example C09_world_exists :
  consistent demo_oracle /\ (forall t, sane (demo_oracle t)) /\ (forall t, calm_oracle (demo_oracle t))
  /\ Inv demo_oracle empty_cache /\ calm worst (demo_oracle 3).
Proof.
  split; [exact demo_consistent|split; [exact demo_sane|split; [exact demo_calm|split; [apply Inv_empty|]]]].
  unfold calm, worst; simpl. repeat split; discriminate.
Qed.

(* everything that can go wrong goes wrong, and the client still gets the compiler's result; nothing is stored *)
Example C09_everything_fails :
  request worst QCompile CCDefault (demo_oracle 3) empty_cache
  = (empty_cache,
     {| r_client := CFinished 0 [1; 3] [2; 3]; r_outputs := [([111], [3; 3])]; r_pp_runs := 1; r_cc_runs := 1;
        r_outcome := Some (OMiss MReadError false) |},
     [[ICompileRequests]; [IExecuted]; [IReadError; ICompilation; IMiss {| l_lang := 0; l_adv := 0 |}]; [IWriteError]]).
Proof. vm_compute. reflexivity. Qed.

(* a history: populate, overwrite both entry files with garbage, compile twice: miss that re-populates, then hit *)
Example C09_damage_then_repopulate :
  map (fun x => (r_client (fst x), r_cc_runs (fst x), r_outcome (fst x)))
      (snd (run_steps demo_oracle empty_cache
              [SReq 2 no_faults QCompile CCDefault; SDamageRes DGarbage 2; SDamagePp DTruncate 2;
               SReq 2 no_faults QCompile CCDefault; SReq 2 no_faults QCompile CCDefault]))
  = [ (CFinished 0 [1; 2] [2; 2], 1, Some (OMiss MNormal true));
      (CFinished 0 [1; 2] [2; 2], 1, Some (OMiss MReadError true));
      (CFinished 0 [1; 2] [2; 2], 0, Some OHit) ].
Proof. vm_compute. reflexivity. Qed.

(* the two side hypotheses are needed, and what they exclude is not a storage fault:
   (1) a hit whose output directory does not exist is a fatal error (the compiler would fail there, too) *)
Example C09_outdir_needed :
  let st := fst (fst (request no_faults QCompile CCDefault (demo_oracle 0) empty_cache)) in
  r_client (snd (fst (request {| f_ppget := PFNone; f_ppupd := WNone; f_ppput := WNone; f_get := GNone; f_put := WNone;
                                 f_outdir_ok := false |} QCompile CCDefault (demo_oracle 0) st))) = CFatal.
Proof. vm_compute. reflexivity. Qed.

(* (2) a compiler that exits 0 without writing its object file makes artifact creation fail *)
Example C09_sane_needed :
  let o := demo_oracle 0 in
  let bad := {| o_lang := o_lang o; o_pp_key := o_pp_key o; o_manifest := o_manifest o; o_upd := o_upd o;
                o_pp_status := 0; o_pp_stderr := []; o_manifest_ok := true; o_key := o_key o; o_c_status := 0;
                o_c_stdout := []; o_c_stderr := []; o_c_outputs := o_c_outputs o; o_c_writes := false;
                o_cacheable := true; o_pp_panics := false; o_c_panics := false |} in
  r_client (snd (fst (request no_faults QCompile CCDefault bad empty_cache))) = CFatal.
Proof. vm_compute. reflexivity. Qed.

(* (3) a storage call that PANICS (here: the lookup) is caught: the client is told "encountered fatal error", the
   request is counted under cache_errors, nothing is stored *)
Example C09_panic_is_reported :
  request {| f_ppget := PFNone; f_ppupd := WNone; f_ppput := WNone; f_get := GPanic; f_put := WNone; f_outdir_ok := true |}
          QCompile CCDefault (demo_oracle 0) empty_cache
  = ({| cs_res := []; cs_pp := [([0], PGood [0; 0] 7)]; cs_ro := false |},
     {| r_client := CFatal; r_outputs := []; r_pp_runs := 1; r_cc_runs := 0; r_outcome := Some OFatal |},
     [[ICompileRequests]; [IExecuted]; [ICacheError {| l_lang := 0; l_adv := 0 |}]]).
Proof. vm_compute. reflexivity. Qed.

(* ... while a panicking result PUT is just a failed write: the client has the compiler's result *)
Example C09_panicking_put_is_a_write_error :
  snd (request {| f_ppget := PFNone; f_ppupd := WNone; f_ppput := WNone; f_get := GNone; f_put := WPanic; f_outdir_ok := true |}
               QCompile CCDefault (demo_oracle 0) empty_cache)
  = [[ICompileRequests]; [IExecuted]; [ICompilation; IMiss {| l_lang := 0; l_adv := 0 |}]; [IWriteError]].
Proof. vm_compute. reflexivity. Qed.

(* (4) keys an entry file may name: the empty string, "../x", an absolute path are malformed; a digest is not *)
Example C09_malformed_keys :
  wf_result_key [] = false /\ wf_result_key [46; 46; 47; 120] = false   (* "../x" *)
  /\ wf_result_key [47; 120] = false   (* "/x" *) /\ wf_result_key (repeat 65 64) = false
  /\ wf_result_key (repeat 97 64) = true.
Proof. vm_compute. repeat split. Qed.

(* a forged entry with the empty key in front of a populated cache: the request preprocesses, hits the real entry,
   rewrites the forged one *)
Example C09_forged_entry_is_rewritten :
  let st := fst (fst (request no_faults QCompile CCDefault (demo_oracle 2) empty_cache)) in
  let '(st', r, _) := request no_faults QCompile CCDefault (demo_oracle 2) (forge_pp [2] [] 7 st) in
  (r_client r, r_pp_runs r, r_cc_runs r, kv_get [2] (cs_pp st')) = (CFinished 0 [1; 2] [2; 2], 1, 0, Some (PGood [2; 2] 7)).
Proof. vm_compute. reflexivity. Qed.
