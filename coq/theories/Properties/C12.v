(* Properties/C12.v — pinned statements for C12: replacing the compiler binary invalidates its
   results without a restart.  Model: Model/CompilerCache.v.  `VFixed` is the code with the three
   C12 fixes (map keyed by requested AND resolved path; a registered rustup proxy re-validated —
   not modelled; nothing memoised when the executable changed while it was being detected).
   `VAsFound` is the code without the last one; Gen/C12Window.v says which of the two the tree is,
   and C12_asfound_is_fixed_without_windows ties them together.

   Common premises, both BOOLEAN predicates on the history:
     wf_history .. = true             the property's own premise in its weakest form: a request that
                                      finds, on arrival, the mtime under which the PREVIOUS request
                                      for the same path-and-file was served, finds the same bytes
     collision_free_in_play .. = true the identity digest and the key hash do not collide on the
                                      binaries / sources the history touches
   `detect` (bytes -> identity digest, None = not a compiler) and `H` (identity, source -> key) are
   universally quantified.  Histories are arbitrary lists of Swap / Retarget / Remove / Touch /
   Compile / CompileW over an arbitrary initial file system, served by ONE server (no restart);
   `CompileW p src env` is a request during whose compiler detection the environment does `env`
   (the detection is not atomic: stat . probe . digest . record).  For such a request "the bytes at
   the path" (e_cur) are those it was served under, i.e. after the window. *)
From Coq Require Import List NArith Bool.
From Sccache Require Import Model.CompilerCache Proofs.CompilerCache Model.RustToolchain Proofs.RustToolchain.
Import ListNotations.
Local Open Scope N_scope.

(* The identity digest that goes into a request's key is the digest of the bytes CURRENTLY at the
   requested path (through links).  Needs no collision-freeness.  Spelled out: a request that is
   served used the identity of a working compiler that is at the path; a working compiler at the
   path is always served, keyed on its own identity; a file that is no compiler never is. *)
Theorem C12_identity_is_current :
  forall (detect : N -> option N) (H : N -> N -> N) (f0 : fs) (ops : list op),
    wf_history detect H VFixed f0 ops = true ->
    forall e, In e (exec detect H VFixed (start f0) ops) ->
      identity_current detect e = true /\
      (forall id, e_id e = Some id -> served e <> None ->
                  exists b m, e_cur e = Some (b, m) /\ detect b = Some id) /\
      (forall b m id, e_cur e = Some (b, m) -> detect b = Some id ->
                      served e <> None /\ e_key e = Some (H id (e_src e))) /\
      (forall b m, e_cur e = Some (b, m) -> detect b = None -> served e = None).
Proof. intros detect H f0 ops WF e I. exact (identity_full detect H f0 ops WF e I). Qed.
Print Assumptions C12_identity_is_current.

(* Nothing produced by binary A is returned for a request served while binary B <> A is at the
   path: whatever a request hands back (hit or fresh compile) was produced by the bytes now there. *)
Theorem C12_no_cross_binary_results :
  forall (detect : N -> option N) (H : N -> N -> N) (f0 : fs) (ops : list op),
    collision_free_in_play detect H f0 ops = true ->
    wf_history detect H VFixed f0 ops = true ->
    forall e prod, In e (exec detect H VFixed (start f0) ops) -> served e = Some prod ->
      exists m, e_cur e = Some (prod, m).
Proof.
  intros detect H f0 ops CF WF e prod I S. exact (no_cross detect H f0 ops WF e prod CF I S).
Qed.
Print Assumptions C12_no_cross_binary_results.

(* Swap back, both directions.  Take any history, any two requests for the same source (through
   any paths) that both find the working binary A at their path, with ANYTHING in between —
   in particular swapping another binary B in, compiling with it, and putting A back.  Then the
   first request was served, and the second is a cache HIT that returns A's object: A's earlier
   result is valid again, and nothing stored by B in between is returned. *)
Theorem C12_swap_back :
  forall (detect : N -> option N) (H : N -> N -> N) (f0 : fs) (h1 h2 : list op) (p p' : path) (src : N),
    let ops := h1 ++ Compile p src :: h2 ++ [Compile p' src] in
    collision_free_in_play detect H f0 ops = true ->
    wf_history detect H VFixed f0 ops = true ->
    forall e1 e2 A id m1 m2,
      snd (step detect H VFixed (final detect H VFixed (start f0) h1) (Compile p src)) = Some e1 ->
      snd (step detect H VFixed (final detect H VFixed (start f0) (h1 ++ Compile p src :: h2))
                (Compile p' src)) = Some e2 ->
      detect A = Some id -> e_cur e1 = Some (A, m1) -> e_cur e2 = Some (A, m2) ->
      e_out e1 <> OFail /\ e_out e2 = OHit A.
Proof.
  intros detect H f0 h1 h2 p p' src ops CF WF e1 e2 A id m1 m2 S1 S2 D C1 C2.
  exact (swap_back detect H f0 ops WF h1 p src h2 p' e1 e2 A id m1 m2 CF eq_refl S1 S2 D C1 C2).
Qed.
Print Assumptions C12_swap_back.

(* Two different (working) compiler binaries never share a result key — at the same path at
   different times, or under the same name at different paths. *)
Theorem C12_distinct_binaries_never_share :
  forall (detect : N -> option N) (H : N -> N -> N) (f0 : fs) (ops : list op),
    collision_free_in_play detect H f0 ops = true ->
    wf_history detect H VFixed f0 ops = true ->
    forall e1 e2 b1 m1 b2 m2 i1 i2,
      In e1 (exec detect H VFixed (start f0) ops) -> In e2 (exec detect H VFixed (start f0) ops) ->
      e_cur e1 = Some (b1, m1) -> e_cur e2 = Some (b2, m2) ->
      detect b1 = Some i1 -> detect b2 = Some i2 -> b1 <> b2 ->
      exists k1 k2, e_key e1 = Some k1 /\ e_key e2 = Some k2 /\ k1 <> k2.
Proof.
  intros detect H f0 ops CF WF e1 e2 b1 m1 b2 m2 i1 i2 I1 I2 C1 C2 D1 D2 NE.
  exact (distinct_never_share detect H f0 ops WF e1 e2 b1 m1 b2 m2 i1 i2 CF I1 I2 C1 C2 D1 D2 NE).
Qed.
Print Assumptions C12_distinct_binaries_never_share.

(* The premise is necessary (documented limit of mtime re-validation, not a finding): a different
   binary installed with the SAME mtime — directly, or by retargeting a differently named link
   between two binaries with equal mtimes — is served with the old identity and the old object. *)
Theorem C12_same_mtime_refuted :
  (collision_free_in_play detect_w H_w [] ops_same_mtime = true /\
   wf_history detect_w H_w VFixed [] ops_same_mtime = false /\
   existsb (fun e => negb (identity_current detect_w e) && negb (producer_current e))
           (exec detect_w H_w VFixed (start []) ops_same_mtime) = true) /\
  (collision_free_in_play detect_w H_w [] ops_same_mtime_link = true /\
   wf_history detect_w H_w VFixed [] ops_same_mtime_link = false /\
   existsb (fun e => negb (identity_current detect_w e) && negb (producer_current e))
           (exec detect_w H_w VFixed (start []) ops_same_mtime_link) = true).
Proof. exact (conj same_mtime_refuted same_mtime_link_refuted). Qed.
Print Assumptions C12_same_mtime_refuted.

(* The code as first found (`VLegacy`, map keyed by the resolved path only) violates the property
   inside the premise: two links named gcc to one binary, the first one retargeted; the request
   through the second link is keyed on the right identity but EXECUTES the first link's new target.
   Fixed; the witness is corpus/C12/inproc.sx. *)
Theorem C12_shared_entry_refuted :
  collision_free_in_play detect_w H_w [] ops_shared_entry = true /\
  wf_history detect_w H_w VLegacy [] ops_shared_entry = true /\
  existsb (fun e => identity_current detect_w e && negb (producer_current e))
          (exec detect_w H_w VLegacy (start []) ops_shared_entry) = true /\
  all_right VFixed ops_shared_entry = true.
Proof. exact shared_entry_refuted. Qed.
Print Assumptions C12_shared_entry_refuted.

(* The window.  (1) If the digest is taken when a detection starts and the mtime recorded is the one
   read when it has finished (VEarlyLate), a swap while a detection is in flight leaves an entry
   (old digest, new mtime): every later request is keyed on the old binary for good — inside the
   premise; the same history is served correctly by VAsFound and VFixed.  (2) Memoising
   unconditionally with the mtime read BEFORE the detection (VAsFound) breaks when the old file is
   put back, with its original mtime, before any other request: the entry (old mtime, new digest)
   is trusted for the old binary — inside the premise; VFixed (nothing memoised unless the mtime
   after the detection is still the one read before) serves that history correctly, as the four
   theorems above say it must. *)
Theorem C12_window_refuted :
  (collision_free_in_play detect_w H_w [] ops_window_swap = true /\
   wf_history detect_w H_w VEarlyLate [] ops_window_swap = true /\
   some_stale VEarlyLate ops_window_swap = true /\
   all_right VAsFound ops_window_swap = true /\ all_right VFixed ops_window_swap = true) /\
  (collision_free_in_play detect_w H_w [] ops_window_restore = true /\
   wf_history detect_w H_w VAsFound [] ops_window_restore = true /\
   some_stale VAsFound ops_window_restore = true /\
   wf_history detect_w H_w VFixed [] ops_window_restore = true /\
   all_right VFixed ops_window_restore = true).
Proof. exact window_refuted. Qed.
Print Assumptions C12_window_refuted.

(* Without a window (no request whose detection overlaps a change of the file system) the re-stat
   changes nothing: the code without the last fix behaves exactly like VFixed, so the four theorems
   hold for it on such histories.  What it gets wrong is exactly the class of C12_window_refuted (2)
   (known finding C12-K1 while the fix is not merged). *)
Theorem C12_asfound_is_fixed_without_windows :
  forall (detect : N -> option N) (H : N -> N -> N) (s : state) (ops : list op),
    windowless ops = true ->
    exec detect H VAsFound s ops = exec detect H VFixed s ops /\
    final detect H VAsFound s ops = final detect H VFixed s ops.
Proof. intros detect H s ops W. exact (windowless_same detect H ops s W). Qed.
Print Assumptions C12_asfound_is_fixed_without_windows.

(* rustc behind a rustup proxy (Model/RustToolchain.v).  The executable a proxy path leads to changes
   when rustup's selection changes (rustup default / override / rust-toolchain), without any file at
   the path changing.  Because the registered proxy is asked again for EVERY request, each request —
   through the proxy or straight through a toolchain's rustc — is resolved to the toolchain its path
   leads to now, keyed on that build's identity, and handed what that build made (premise: at one
   toolchain's rustc the same mtime means the same build; ident and H collision-free).  Histories may
   contain a LONG DETECTION (RHoldBegin .. RHoldEnd: the build in place names its sysroot, which fixes
   the identity, long before the detection is over) with anything in between — installs, switches and
   REQUESTS ARRIVING INSIDE THE WINDOW: those are covered (each does its own detection); the request
   that overlapped its own detection (v_held) is not constrained, and its source is reserved. *)
Theorem C12_proxy_follows_selection :
  forall (ident : N -> N) (H : N -> N -> N),
    (forall a b, ident a = ident b -> a = b) ->
    (forall i1 s1 i2 s2, H i1 s1 = H i2 s2 -> i1 = i2 /\ s1 = s2) ->
    forall ops,
    held_srcs_reserved ops = true ->
    rwf (rexec ident H false false rstart ops) = true ->
    forall e, In e (rexec ident H false false rstart ops) -> v_held e = false -> rright ident e = true.
Proof. intros ident H I1 I2 ops R W e I Hd. exact (proxy_follows_selection ident H I1 I2 ops R W e I Hd). Qed.
Print Assumptions C12_proxy_follows_selection.

(* ... and it is refuted for a proxy that remembers rustup's first answer (memo = true): after
   `rustup default B` requests are still resolved to, keyed on and compiled by toolchain A. *)
Theorem C12_proxy_memo_refuted :
  rwf (rexec ident_w H_w2 true false rstart ops_switch) = true /\
  existsb (fun e => negb (rright ident_w e)) (rexec ident_w H_w2 true false rstart ops_switch) = true /\
  rwf (rexec ident_w H_w2 false false rstart ops_switch) = true /\
  map v_out (rexec ident_w H_w2 false false rstart ops_switch) = [RMiss 1; RHit 1; RMiss 2; RMiss 2; RMiss 1].
Proof. exact proxy_memo_refuted. Qed.
Print Assumptions C12_proxy_memo_refuted.

(* ... and for a server in which a request that misses the memo JOINS the detection in flight for its
   key: issued after the swap, it is keyed on the old build while the new one compiles, and what it
   stores is handed out when the old build is back.  The same history is served correctly when every
   request does its own detection. *)
Theorem C12_join_refuted :
  held_srcs_reserved ops_join = true /\
  rwf (rexec ident_w H_w2 false true rstart ops_join) = true /\
  plain_right (rexec ident_w H_w2 false true rstart ops_join) = false /\
  rwf (rexec ident_w H_w2 false false rstart ops_join) = true /\
  plain_right (rexec ident_w H_w2 false false rstart ops_join) = true.
Proof. exact join_refuted. Qed.
Print Assumptions C12_join_refuted.

(* The identity of a rustc is the digests of what <sysroot>/lib/*.so LOADS — regular files and links to
   regular files alike: two sysroots whose libraries differ in content have different identities, however
   they are stored.  Hashing regular files only gives every link-farm sysroot the same (empty) identity. *)
Theorem C12_rust_identity_sees_through_links :
  (forall (dg : N -> N), (forall a b, dg a = dg b -> a = b) ->
     forall es1 es2, lib_contents es1 <> lib_contents es2 ->
                     rust_identity dg true es1 <> rust_identity dg true es2) /\
  (lib_contents (sysroot_links 1) <> lib_contents (sysroot_links 2) /\
   rust_identity ident_w false (sysroot_links 1) = rust_identity ident_w false (sysroot_links 2) /\
   rust_identity ident_w true (sysroot_links 1) <> rust_identity ident_w true (sysroot_links 2)).
Proof. exact (conj rust_identity_sees_through_links files_only_refuted). Qed.
Print Assumptions C12_rust_identity_sees_through_links.

(* Non-vacuity: a history with a swap, a swap back, links, a non-compiler and a detection window
   during which the binary is replaced satisfies both premises and is served as the theorems say;
   so does A -> B -> C -> B -> A with A and C sharing an mtime. *)
Example C12_premises_nonvacuous :
  collision_free_in_play detect_w H_w [] ops_example = true /\
  wf_history detect_w H_w VFixed [] ops_example = true /\
  map e_out (exec detect_w H_w VFixed (start []) ops_example) =
    [OMiss 1; OMiss 2; OHit 1; OHit 1; OUnsupported; OHit 2; OMiss 3; OMiss 2; OHit 2] /\
  wf_history detect_w H_w VFixed [] ops_recycled_mtime = true /\
  map e_out (exec detect_w H_w VFixed (start []) ops_recycled_mtime) =
    [OMiss 1; OMiss 2; OMiss 3; OMiss 3; OMiss 2; OMiss 1; OHit 1].
Proof. exact example_in_premise. Qed.
