(* Properties/C06.v — pinned statements for property C06:
   "Disk cache entries appear atomically and survive crashes intact".

   Model: Model/DiskCache.v (DiskCache::put / get at lock granularity over Model/Lru.v, an inode
   layer, server death = every call in flight lost, restart = LruDiskCache::new on what is on disk).
   A world is run by [exec (start c d ths) sched]: c the capacity, d the directory found at start-up,
   ths the calls (TPut k n chunks fail / TGet k — any number, any keys, ANY chunking of the value
   [concat chunks]), sched ANY list of thread ids.  Events in [wlog]: ECommit t k v = put t renamed
   its temp file, holding exactly v, to k;  EOpen t k = get t looked k up under the lock;
   ERet t k r = get t returned r.

   Key paths never collide with temp-file names (C06_hex_keys_not_temp), which is what allows the
   model to keep temp files in a name space of their own. *)
From Coq Require Import List NArith Bool.
From Sccache Require Import Base.Sx Model.Lru Model.DiskCache Model.DiskTree Proofs.DiskCache Proofs.DiskTree.
From Sccache Require Model.RoCache.
Import ListNotations.
Local Open Scope N_scope.

(* Every lookup that returns an entry returns, byte for byte, the complete value of a put to the SAME
   key whose Commit step precedes the lookup's Open step in the schedule (or an entry that was in the
   directory at start-up) — never a prefix, a mixture or another key's bytes; and every finished
   lookup is in the log, so this speaks about all of them.  For all capacities, directories, sets of
   calls, chunkings and schedules. *)
Theorem C06_get_complete :
  forall (c : N) (d : disk) (ths : list thread) (sched : list nat),
  wf_disk d = true -> forallb is_call ths = true ->
  let w := exec (start c d ths) sched in
  (forall l1 l2 t k v, wlog w = l1 ++ ERet t k (GHit v) :: l2 ->
     nth_error ths t = Some (TGet k) /\
     exists l0 l0', l1 = l0 ++ EOpen t k :: l0' /\
       (initial_entry d k v \/
        exists t' n chunks f, In (ECommit t' k v) l0 /\
          nth_error ths t' = Some (TPut k n chunks f) /\ v = concat chunks)) /\
  (forall t k r, nth_error (wt w) t = Some (TGetDone k r) ->
     nth_error ths t = Some (TGet k) /\ In (ERet t k r) (wlog w)).
Proof. exact get_complete. Qed.
Print Assumptions C06_get_complete.

(* No lookup ever fails, and a put fails only if its own write failed (it then abandons its reservation). *)
Theorem C06_no_errors :
  forall (c : N) (d : disk) (ths : list thread) (sched : list nat),
  disk_ok d -> forallb is_call ths = true ->
  let w := exec (start c d ths) sched in
  forall t, (forall k, nth_error (wt w) t <> Some (TGetDone k GErr)) /\
            (nth_error (wt w) t = Some (TPutDone PErr) -> exists k n ch, nth_error ths t = Some (TPut k n ch true)).
Proof. exact no_errors. Qed.
Print Assumptions C06_no_errors.

(* The server dies after ANY prefix of ANY schedule; a new server (any capacity c') opens the directory.
   Then: no temp file remains, none is listed, indexed or in the directory; every path in the directory
   holds the complete value of a put that had reached its Commit rename before the crash, or an initial
   entry; the size counts exactly the indexed entries, each of which is served complete and has the
   recorded length (nothing is reserved, nothing else is counted). *)
Theorem C06_crash_safe :
  forall (c : N) (d : disk) (ths : list thread) (sched : list nat) (n : nat) (c' : N),
  disk_ok d -> forallb is_call ths = true ->
  let w := exec (start c d ths) (firstn n sched) in
  let s' := restart c' (ws w) in
  tmps s' = [] /\
  (forall k, is_temp k = true ->
     alookup k (files (lru s')) = None /\ alookup k (index (lru s')) = None /\ alookup k (dir s') = None) /\
  (forall k i, alookup k (dir s') = Some i ->
     exists v, hlookup i (inodes s') = Some v /\
       (initial_entry d k v \/
        exists t' n0 chunks f, In (ECommit t' k v) (wlog w) /\
          nth_error ths t' = Some (TPut k n0 chunks f) /\ v = concat chunks)) /\
  size (lru s') = sum_sizes (index (lru s')) /\
  (forall k sz, alookup k (index (lru s')) = Some sz ->
     exists v, visible s' k = Some v /\ blen v = sz).
Proof. exact crash_safe. Qed.
Print Assumptions C06_crash_safe.

(* ... and whatever the restarted server serves afterwards, under any new calls and schedule, is an
   initial entry, a value committed before the crash, or a value committed (before the lookup) after
   the restart; its lookups never fail. *)
Theorem C06_crash_then_get :
  forall (c : N) (d : disk) (ths : list thread) (sched : list nat)
         (c' : N) (ths2 : list thread) (sched2 : list nat),
  disk_ok d -> forallb is_call ths = true -> forallb is_call ths2 = true ->
  let w1 := exec (start c d ths) sched in
  let w2 := exec (start c' (persist (ws w1)) ths2) sched2 in
  (forall l1 l2 t k v, wlog w2 = l1 ++ ERet t k (GHit v) :: l2 ->
     nth_error ths2 t = Some (TGet k) /\
     (initial_entry d k v \/
      (exists t' n chunks f, In (ECommit t' k v) (wlog w1) /\
         nth_error ths t' = Some (TPut k n chunks f) /\ v = concat chunks) \/
      (exists l0 l0' t' n chunks f, l1 = l0 ++ EOpen t k :: l0' /\ In (ECommit t' k v) l0 /\
         nth_error ths2 t' = Some (TPut k n chunks f) /\ v = concat chunks))) /\
  (forall t k, nth_error (wt w2) t <> Some (TGetDone k GErr)).
Proof. exact crash_then_get. Qed.
Print Assumptions C06_crash_then_get.

(* Between Reserve and Commit nothing of the new entry can be seen: in every reachable state, the
   Reserve step of any put can only make entries disappear (eviction), and its Write steps and its
   Abandon step change no lookup result at all; [visible s k] is what a lookup of k returns in s
   (C06_lookup_visible). *)
Theorem C06_uncommitted_invisible :
  forall (c : N) (d : disk) (ths : list thread) (sched : list nat),
  wf_disk d = true -> forallb is_call ths = true ->
  let w := exec (start c d ths) sched in
  forall t th, nth_error (wt w) t = Some th ->
    let s' := fst (fst (step_thread t (ws w) th)) in
    match th with
    | TPut _ _ _ _ => forall k', visible s' k' = visible (ws w) k' \/ visible s' k' = None
    | TPutW _ _ _ (_ :: _) _ | TPutW _ _ _ [] true => forall k', visible s' k' = visible (ws w) k'
    | _ => True
    end.
Proof. exact uncommitted_invisible. Qed.
Print Assumptions C06_uncommitted_invisible.

Theorem C06_lookup_visible :
  forall (t : nat) (s : dst) (k : key),
  let '(s1, th1, _) := step_thread t s (TGet k) in
  let '(_, th2, _) := step_thread t s1 th1 in
  (forall v, th2 = TGetDone k (GHit v) -> visible s k = Some v) /\
  (th2 = TGetDone k GMiss -> visible s k = None).
Proof. exact lookup_visible. Qed.
Print Assumptions C06_lookup_visible.

(* make_key_path of a hex key (what sccache uses) is never a temp-file name *)
Theorem C06_hex_keys_not_temp :
  forall k : list N, is_hex_key k = true -> is_temp (make_key_path k) = false.
Proof. exact hex_keys_not_temp. Qed.
Print Assumptions C06_hex_keys_not_temp.

(* ---------- both stores of DiskCache over one tree (Model/DiskTree.v) ----------

   DiskCache has a second LruDiskCache, the preprocessor-entry store, rooted at <root>/preprocessor —
   INSIDE the tree the result store scans.  [texec (tstart c d ths) sched] runs calls on both stores
   (TMain (TPut ..) / TMain (TGet ..) / TPpPut / TPpGet) under ANY schedule; [trestart c' t] is the
   server dying in state t and a new one starting: every temp file of a call in flight, of either store,
   is then an ordinary file <dir>/.sccachetmp<id> of the tree (C06_crash_leaves_temps), and it is
   LruDiskCache::init's own test on the file name that must get rid of it. *)

(* The server dies after ANY prefix of ANY schedule of calls on both stores; the new server (any
   capacity) opens its two stores, in either order.  Then no file with a temp name is left ANYWHERE in
   the tree, neither store indexes one, and each store's size is the sum of what it indexes. *)
Theorem C06_crash_safe_tree :
  forall (c : N) (d : disk) (ths : list tthread) (sched : list nat) (n : nat) (c' : N) (pp_first : bool),
  let w := texec (tstart c d ths) (firstn n sched) in
  let r := open_both pp_first (trestart c' (tws w)) in
  (forall p, is_temp p = true -> alookup p (disk_files r) = None) /\
  tmps (base r) = [] /\ pp_tmps r = [] /\
  (forall p, is_temp p = true ->
     alookup p (index (lru (base r))) = None /\ alookup p (index (pps r)) = None) /\
  size (lru (base r)) = sum_sizes (index (lru (base r))) /\
  size (pps r) = sum_sizes (index (pps r)).
Proof. intros. apply restart_clean. Qed.
Print Assumptions C06_crash_safe_tree.

(* ... and the statement above is about something: in the tree the restarted server finds, the temp file
   of every call in flight is listed under its temp name — at the root for the result store, under
   preprocessor/ for the nested store. *)
Theorem C06_crash_leaves_temps :
  forall t : tst,
  (forall h ino v, In (h, ino) (tmps (base t)) -> hlookup ino (inodes (base t)) = Some v ->
     alookup (temp_name [] h) (d_files (materialise t)) <> None /\ is_temp (temp_name [] h) = true) /\
  (forall h ino v, In (h, ino) (pp_tmps t) -> hlookup ino (inodes (base t)) = Some v ->
     alookup (temp_name RoCache.pp_prefix h) (d_files (materialise t)) <> None /\
     is_temp (temp_name RoCache.pp_prefix h) = true /\
     RoCache.under_pp (temp_name RoCache.pp_prefix h) = true).
Proof.
  intros t. destruct (materialise_lists_temps t) as [A B]. split.
  - intros h ino v H1 H2. split; [eapply A; eauto|apply temp_name_root_is_temp].
  - intros h ino v H1 H2. split; [eapply B; eauto|]. split; [apply temp_name_pp_is_temp|reflexivity].
Qed.
Print Assumptions C06_crash_leaves_temps.

(* With result-store calls only, the tree model is Model/DiskCache.v step for step, so the theorems
   above about [exec (start c d ths) sched] are theorems about the tree model's result store. *)
Theorem C06_tree_refines_main :
  forall (c : N) (d : disk) (ths : list thread) (sched : list nat),
  let w := exec (start c d ths) sched in
  let tw := texec (tstart c d (map TMain ths)) sched in
  base (tws tw) = ws w /\ twt tw = map TMain (wt w) /\ twlog tw = map EMain (wlog w).
Proof. exact tree_refines_main. Qed.
Print Assumptions C06_tree_refines_main.

(* An indexed — and therefore counted — key can be looked up: in every reachable state of an opened cache a
   lookup of it returns a complete value of the recorded size (no "indexed entry without its file", no store
   that returned Ok and is gone). *)
Theorem C06_indexed_is_served :
  forall (c : N) (d : disk) (ths : list thread) (sched : list nat),
  disk_ok d -> forallb is_call ths = true ->
  let w := exec (start c d ths) sched in
  inited (ws w) = true ->
  forall k sz, alookup k (index (lru (ws w))) = Some sz ->
    exists v, visible (ws w) k = Some v /\ blen v = sz.
Proof. exact indexed_is_served. Qed.
Print Assumptions C06_indexed_is_served.

(* The scan of a restarted server skips nothing: every file still below the cache root after the restart —
   whatever its own name or the names of the directories above it (all paths of the model are relative to the
   cache root, whose own name is not an input of LruDiskCache::init) — is indexed with its size, has no temp name,
   and is served complete. *)
Theorem C06_restart_indexes_all :
  forall (c : N) (d : disk) (ths : list thread) (sched : list nat) (n : nat) (c' : N),
  disk_ok d -> forallb is_call ths = true ->
  let w := exec (start c d ths) (firstn n sched) in
  let s' := restart c' (ws w) in
  forall k sz mt, alookup k (files (lru s')) = Some (sz, mt) ->
    alookup k (index (lru s')) = Some sz /\ is_temp k = false /\
    exists v, visible s' k = Some v /\ blen v = sz.
Proof. exact restart_indexes_all. Qed.
Print Assumptions C06_restart_indexes_all.

(* ---------- non-vacuity ---------- *)

Definition kx : list N := [97; 49; 98; 50].          (* "a1b2" *)
Definition px : key := make_key_path kx.             (* "a/1/a1b2" *)

Example hex_key_ex : is_hex_key kx = true.
Proof. reflexivity. Qed.

(* a directory with one old entry for the key and a leftover temp file *)
Definition ex_disk : disk :=
  {| d_files := [(px, (2, 5))]; d_dir := [(px, 0)]; d_inodes := [(0, [9; 9]); (1, [7])];
     d_tmps := [(0, 1)]; d_next_ino := 2; d_next_h := 1; d_clock := 10 |}.

Example ex_disk_ok : disk_ok ex_disk.
Proof.
  constructor; simpl.
  - reflexivity.
  - split; [intros k' []|exact I].
  - intros k sz mt. destruct (bytes_eqb k px); intros H; inversion H; subst. discriminate.
  - intros k1 k2 sz1 sz2 mt. destruct (bytes_eqb k1 px) eqn:E1; destruct (bytes_eqb k2 px) eqn:E2;
      intros H1 H2; try discriminate. apply bytes_eqb_eq in E1, E2. congruence.
  - intros k sz mt. destruct (bytes_eqb k px) eqn:E; intros H; inversion H; subst.
    exists 0, [9; 9]. auto.
  - intros k i [H|[]]. inversion H; subst. reflexivity.
Qed.

(* two puts on one key, written in chunks, interleaved with a lookup: the lookup (opened after the
   first commit, read after the second) returns the complete first value *)
Definition ex_threads : list thread :=
  [TPut px 2 [[1]; [1]] false; TPut px 3 [[2; 2]; [2]] false; TGet px].

Example two_puts_one_get :
  let w := exec (start 100 ex_disk ex_threads) [0; 1; 0; 1; 0; 0; 2; 1; 1; 2]%nat in
  wt w = [TPutDone POk; TPutDone POk; TGetDone px (GHit [1; 1])] /\
  visible (ws w) px = Some [2; 2; 2].
Proof. vm_compute. split; reflexivity. Qed.

(* a crash between Write and Commit: the temp file is on disk, the old entry is still served; after
   restart the temp files are gone and the key holds the complete old entry *)
Example crash_between_write_and_commit :
  let w := exec (start 100 ex_disk ex_threads) [0; 0; 0]%nat in
  length (tmps (ws w)) = 1%nat /\ visible (ws w) px = Some [9; 9] /\
  tmps (restart 100 (ws w)) = [] /\ visible (restart 100 (ws w)) px = Some [9; 9] /\
  size (lru (restart 100 (ws w))) = 2.
Proof. vm_compute. repeat split; reflexivity. Qed.

(* a crash right after the Commit rename: the new complete entry survives *)
Example crash_after_commit :
  let w := exec (start 100 ex_disk ex_threads) [0; 0; 0; 0]%nat in
  visible (restart 100 (ws w)) px = Some [1; 1].
Proof. vm_compute. reflexivity. Qed.

(* capacity pressure: the second reservation is refused while the first is in flight, nothing breaks *)
Example reservation_refused :
  let w := exec (start 4 ex_disk ex_threads) [0; 1; 0; 0; 0]%nat in
  wt w = [TPutDone POk; TPutDone PTooLarge; TGet px] /\ visible (ws w) px = Some [1; 1].
Proof. vm_compute. split; reflexivity. Qed.

(* the nested store: a put into preprocessor/ dies after its write.  Its temp file is in the tree the
   new server finds (under preprocessor/), the result store's scan reaches it there, and after the
   restart nothing with a temp name is listed or indexed; the committed nested entry of an earlier put
   IS indexed by the result store after the restart (S18: the nested store lives inside the scanned tree) *)
Definition ppk : key := RoCache.pp_path [97; 98; 99; 100].       (* "preprocessor/a/b/c/abcd" *)
Definition ex_tthreads : list tthread :=
  [TPpPut ppk [[4; 4]]; TPpPut ppk [[6]; [6]]; TMain (TGet px)].

Example nested_put_crash :
  let w := texec (tstart 100 ex_disk ex_tthreads) [0; 0; 0; 2; 1; 1]%nat in
  let d := materialise (tws w) in
  let r := open_both false (trestart 100 (tws w)) in
  pp_tmps (tws w) = [(1, 3)] /\
  alookup (temp_name RoCache.pp_prefix 1) (d_files d) = Some (1, 13) /\
  alookup (temp_name RoCache.pp_prefix 1) (disk_files r) = None /\
  map fst (index (lru (base r))) = [ppk; px] /\ map fst (index (pps r)) = [ppk] /\
  size (lru (base r)) = 4 /\ temp_count r = 0%nat.
Proof. vm_compute. repeat split; reflexivity. Qed.

(* The lock scope of DiskCache::get is load-bearing.  C06_no_errors holds because the look-up in the index,
   utimes and open are ONE critical section.  If they were two steps (index look-up under the lock, utimes + open
   after unlocking: thread kind TGetSplit, which the code does NOT have), a store of another key whose
   reservation evicts the entry in between makes the lookup fail — neither a miss nor a complete entry — while the
   atomic lookup under the same schedule is served. *)
Definition py : key := make_key_path [98; 50; 99; 51].     (* "b/2/b2c3" *)

Theorem C06_split_lookup_refuted :
  exists (c : N) (d : disk) (sched : list nat),
    disk_ok d /\
    nth_error (twt (texec (tstart c d [TGetSplit px; TMain (TPut py 3 [[1; 1; 1]] false)]) sched)) 0
      = Some (TMain (TGetDone px GErr)) /\
    nth_error (twt (texec (tstart c d [TMain (TGet px); TMain (TPut py 3 [[1; 1; 1]] false)]) sched)) 0
      = Some (TMain (TGetDone px (GHit [9; 9]))).
Proof.
  exists 4, ex_disk, [0; 1; 0]%nat. split; [exact ex_disk_ok|]. vm_compute. split; reflexivity.
Qed.
Print Assumptions C06_split_lookup_refuted.
