(* Properties/C13.v — pinned statements for C13 "Distributed compiles match local ones in artefacts and
   status, or fall back" (PARTIAL: the build server, toolchain/input packaging and the remote compile are
   not modelled; see lib/props/c13.py ASSUMPTIONS).  Models: Model/DistStatus.v, Model/DistFallback.v,
   Model/DistArgs.v.  `true` selects the models of the tree after the four `fix:` commits, `false` /
   `_orig` the pinned commit. *)
From Coq Require Import List NArith ZArith Bool.
From Coq Require String.
Import String.StringSyntax.
From Sccache Require Import Base.Sx Model.DistStatus Model.DistFallback Model.DistArgs Model.DistHistory Model.DistRustInputs Model.DistPaths Model.DistRoutes.
From Sccache Require Proofs.DistStatus Proofs.DistFallback Proofs.DistArgs Proofs.DistHistory Proofs.DistRustInputs Proofs.DistPaths Proofs.DistRoutes Gen.C13Routes.
Import ListNotations.

(* ------------------------------------------------------------------ exit status *)

Theorem C13_exit_status_preserved : forall c : Z,
  (0 <= c < 256)%Z ->
  code (to_local c) = Some c /\ signal (to_local c) = None /\ success (to_local c) = (c =? 0)%Z
  /\ client_view (to_local c) = CsExit c.
Proof. exact Proofs.DistStatus.exit_status_preserved. Qed.
Print Assumptions C13_exit_status_preserved.

(* any i32 on the wire is decoded like the exit code of a real process: modulo 256, never as a signal *)
Theorem C13_exit_status_mod256 : forall c : Z,
  code (to_local c) = Some (c mod 256)%Z /\ signal (to_local c) = None.
Proof. exact Proofs.DistStatus.exit_status_mod256. Qed.
Print Assumptions C13_exit_status_mod256.

(* server side process::Output -> ProcessOutput -> client side process::Output preserves code() *)
Theorem C13_status_roundtrip : forall (raw : raw_status) (c : Z),
  try_from_output raw = Some c ->
  (0 <= c < 256)%Z /\ code raw = Some c /\ code (to_local c) = Some c /\ signal (to_local c) = None
  /\ success (to_local c) = (c =? 0)%Z.
Proof. exact Proofs.DistStatus.status_roundtrip. Qed.
Print Assumptions C13_status_roundtrip.

(* a compiler killed by a signal is not packed into a ProcessOutput at all (the job fails, the client falls back) *)
Theorem C13_signal_not_forwarded : forall (raw : raw_status) (s : Z),
  signal raw = Some s -> try_from_output raw = None.
Proof. exact Proofs.DistStatus.signal_refused. Qed.
Print Assumptions C13_signal_not_forwarded.

(* S9 at the pinned commit: exit 1 -> "signal 1"; exit 128 -> the client exits 0 *)
Theorem C13_exit_status_refuted_before_fix :
  (code (to_local_orig 1) = None /\ signal (to_local_orig 1) = Some 1%Z)
  /\ (code (to_local_orig 128) = Some 0%Z /\ client_view (to_local_orig 128) = CsExit 0).
Proof. exact Proofs.DistStatus.orig_refuted. Qed.
Print Assumptions C13_exit_status_refuted_before_fix.

(* ------------------------------------------------------------------ fallback classification *)

(* for every stage: an error that is neither a 4xx nor FileTooLarge makes the local command run,
   and its result (status, stdout/stderr: the same `outcome`) is what the request returns *)
Theorem C13_fallback_total : forall (s : script) (f : fs) (st : stage),
  s_gen s = true -> s_dist s = true -> first_fault s = Some (st, EOther) ->
  r_local_ran (dist_or_local true s f) = true
  /\ r_out (dist_or_local true s f) = retag DistError (r_out (local_only s f)).
Proof. exact Proofs.DistFallback.fallback_total. Qed.
Print Assumptions C13_fallback_total.

(* the two documented classes surface, at every stage, without running the local compiler *)
Theorem C13_error_classes : forall (s : script) (f : fs) (st : stage),
  s_gen s = true -> s_dist s = true ->
  (first_fault s = Some (st, EHttp4xx) ->
     r_out (dist_or_local true s f) = OErr KHttp /\ r_local_ran (dist_or_local true s f) = false)
  /\ (first_fault s = Some (st, ETooLarge) ->
     r_out (dist_or_local true s f) = OErr KTooLarge /\ r_local_ran (dist_or_local true s f) = false).
Proof. exact Proofs.DistFallback.error_classes. Qed.
Print Assumptions C13_error_classes.

(* ... and exactly those: any other error is one a build without distributed compilation reports too *)
Theorem C13_documented_errors_only : forall (s : script) (f : fs) (k : errkind),
  r_out (dist_or_local true s f) = OErr k ->
  (k = KHttp /\ s_dist s = true /\ exists st, first_fault s = Some (st, EHttp4xx))
  \/ (k = KTooLarge /\ s_dist s = true /\ exists st, first_fault s = Some (st, ETooLarge))
  \/ r_out (local_only s f) = OErr k.
Proof. exact Proofs.DistFallback.documented_errors_only. Qed.
Print Assumptions C13_documented_errors_only.

(* the whole decision table: never a panic; remote result | 4xx | FileTooLarge | the local compiler's result *)
Theorem C13_local_or_documented : forall (s : script) (f : fs),
  r_out (dist_or_local true s f) <> OPanic
  /\ ((exists code outs, s_run s = RunComplete code outs /\ first_fault s = None
         /\ r_out (dist_or_local true s f) = OOk DistOk (to_local code)
         /\ r_local_ran (dist_or_local true s f) = false)
      \/ (r_out (dist_or_local true s f) = OErr KHttp /\ r_local_ran (dist_or_local true s f) = false
          /\ s_dist s = true /\ exists st, first_fault s = Some (st, EHttp4xx))
      \/ (r_out (dist_or_local true s f) = OErr KTooLarge /\ r_local_ran (dist_or_local true s f) = false
          /\ s_dist s = true /\ exists st, first_fault s = Some (st, ETooLarge))
      \/ (exists dt, r_out (dist_or_local true s f) = retag dt (r_out (local_only s f))
          /\ r_local_ran (dist_or_local true s f) = r_local_ran (local_only s f))).
Proof. exact Proofs.DistFallback.local_or_documented. Qed.
Print Assumptions C13_local_or_documented.

(* ------------------------------------------------------------------ no false success *)

(* the client process exits 0 only if the remote compiler exited 0 and every fetched output is completely
   written, or the local compiler ran, exited 0, and its outputs are the ones on disk *)
Theorem C13_never_false_success : forall (s : script) (f : fs),
  (forall code outs, s_run s = RunComplete code outs -> (0 <= code < 256)%Z) ->
  client_sees (r_out (dist_or_local true s f)) = CcStatus (CsExit 0) ->
  (exists outs, s_run s = RunComplete 0 outs
      /\ r_out (dist_or_local true s f) = OOk DistOk (to_local 0)
      /\ r_local_ran (dist_or_local true s f) = false
      /\ forall p w, In (p, w) outs -> w = WOk /\ fs_get (r_fs (dist_or_local true s f)) p = Some CRemote)
  \/ (r_local_ran (dist_or_local true s f) = true
      /\ exists raw ws, s_local s = LExit raw ws /\ code raw = Some 0%Z
         /\ forall p, In p ws -> fs_get (r_fs (dist_or_local true s f)) p = Some CLocal).
Proof. exact Proofs.DistFallback.never_false_success. Qed.
Print Assumptions C13_never_false_success.

(* pinned commit: remote exit 128, no outputs, local compiler never run — the client exits 0 *)
Theorem C13_never_false_success_refuted_before_fix :
  client_sees (r_out (dist_or_local false Proofs.DistFallback.witness_128 [])) = CcStatus (CsExit 0)
  /\ r_local_ran (dist_or_local false Proofs.DistFallback.witness_128 []) = false
  /\ s_run Proofs.DistFallback.witness_128 = RunComplete 128 [].
Proof. exact Proofs.DistFallback.false_success_refuted_orig. Qed.
Print Assumptions C13_never_false_success_refuted_before_fix.

(* ------------------------------------------------------------------ cleanup *)

(* after any failure of the distributed attempt every path pushed onto `output_paths` so far is gone and
   every other path is untouched (the loop is modelled literally: Model/DistFallback.write_loop) *)
Theorem C13_cleanup : forall (s : script) (f : fs) (c : eclass) (f' : fs),
  dist_attempt true s f = AErr c f' ->
  (forall q, In q (attempted s) -> fs_get f' q = None)
  /\ (forall q, ~ In q (attempted s) -> fs_get f' q = fs_get f q).
Proof. exact Proofs.DistFallback.cleanup_thm. Qed.
Print Assumptions C13_cleanup.

(* whatever the request's result, unless it is a completed distributed compile no (partial) remote data is left *)
Theorem C13_no_remote_leftovers : forall (s : script) (f : fs),
  no_remote f ->
  (forall raw, r_out (dist_or_local true s f) <> OOk DistOk raw) ->
  no_remote (r_fs (dist_or_local true s f)).
Proof. exact Proofs.DistFallback.no_remote_leftovers. Qed.
Print Assumptions C13_no_remote_leftovers.

(* pinned commit: `assert!(count == len)` panics past try_or_cleanup!: outputs 0 and 1 stay, no fallback.
   Against the property's last sentence ("a failed or interrupted distributed job never leaves partial
   output files behind") this is a genuine violation, reachable by a build server (or a corrupted answer)
   whose declared length disagrees with the data; repaired by `fix: dist: a fetched output of unexpected
   length is an error, not a panic`. *)
Theorem C13_cleanup_refuted_before_fix :
  r_out (dist_or_local false Proofs.DistFallback.witness_len []) = OPanic
  /\ fs_get (r_fs (dist_or_local false Proofs.DistFallback.witness_len [])) 0%N = Some CRemote
  /\ fs_get (r_fs (dist_or_local false Proofs.DistFallback.witness_len [])) 1%N = Some CRemote
  /\ r_local_ran (dist_or_local false Proofs.DistFallback.witness_len []) = false.
Proof. exact Proofs.DistFallback.cleanup_refuted_orig. Qed.
Print Assumptions C13_cleanup_refuted_before_fix.

(* ------------------------------------------------------------------ same artefacts, cached alike *)

(* when the build server only ever touches paths the local compiler writes as well, a fallback leaves
   exactly the files of a purely local compile *)
Theorem C13_same_files_as_local : forall (s : script) (f : fs) (st : stage),
  s_gen s = true -> s_dist s = true -> first_fault s = Some (st, EOther) ->
  incl (map fst (run_outs s)) (local_writes s) ->
  forall p, fs_get (r_fs (dist_or_local true s f)) p = fs_get (r_fs (local_only s f)) p.
Proof. exact Proofs.DistFallback.same_files_as_local. Qed.
Print Assumptions C13_same_files_as_local.

(* ... and is stored in / later served from the cache exactly like one *)
Theorem C13_cached_like_local : forall (s : script) (f : fs) (st : stage),
  s_gen s = true -> s_dist s = true -> first_fault s = Some (st, EOther) ->
  incl (map fst (run_outs s)) (local_writes s) ->
  request_class 0%N (dist_or_local true s f) = retag_q DistError (request_class 0%N (local_only s f))
  /\ second_request 0%N (dist_or_local true s f) = second_request 0%N (local_only s f).
Proof. exact Proofs.DistFallback.cached_like_local. Qed.
Print Assumptions C13_cached_like_local.

(* ------------------------------------------------------------------ pre-existing files, histories *)

(* What a request does to the disk is, per path, "overwrite with this / remove / leave alone", decided by the
   fault script alone; neither that nor the result depends on what the files held before (in particular not on
   whether the previous build's object was shorter, equal or longer than the one written now). *)
Theorem C13_effect_independent_of_preexisting : forall s : script,
  (exists g : path -> option (option content),
     forall f p, fs_get (r_fs (dist_or_local true s f)) p = match g p with Some c => c | None => fs_get f p end)
  /\ (forall f1 f2, r_out (dist_or_local true s f1) = r_out (dist_or_local true s f2)
                    /\ r_local_ran (dist_or_local true s f1) = r_local_ran (dist_or_local true s f2)).
Proof. exact Proofs.DistHistory.effect_independent_of_preexisting. Qed.
Print Assumptions C13_effect_independent_of_preexisting.

(* over any history of requests, with the preprocessor cache on or off: a job is never sent an empty
   translation unit (the direct-mode shortcut, which has none, is only taken without a dist client) *)
Theorem C13_job_input_complete : forall (pp : bool) (steps : list step) (h : hstate) (o : hobs),
  In o (hrun pp h steps) -> ho_sent o <> Some TuEmpty.
Proof. exact Proofs.DistHistory.job_input_complete. Qed.
Print Assumptions C13_job_input_complete.

(* a stored result is served on the next request for the same source exactly as stored, whatever lies at the path *)
Theorem C13_hit_restores_exact : forall (pp : bool) (h : hstate) (st : step) (c : content) (sr : src),
  lookup (st_variant st) (h_store h) = Some (c, sr) ->
  ho_hit (snd (hstep pp h st)) = true
  /\ fs_get (h_fs (fst (hstep pp h st))) 0%N = Some c
  /\ ho_src (snd (hstep pp h st)) = Some sr
  /\ ho_ran (snd (hstep pp h st)) = false
  /\ ho_sent (snd (hstep pp h st)) = None
  /\ h_store (fst (hstep pp h st)) = h_store h.
Proof. exact Proofs.DistHistory.hit_restores_exact. Qed.
Print Assumptions C13_hit_restores_exact.

(* a successful compile (remote or fallback) is stored: what is stored is what is on disk *)
Theorem C13_miss_is_stored : forall (pp : bool) (h : hstate) (st : step) (dt : dist_type),
  lookup (st_variant st) (h_store h) = None ->
  ho_q (snd (hstep pp h st)) = QMiss dt ->
  exists c sr, fs_get (h_fs (fst (hstep pp h st))) 0%N = Some c
    /\ ho_src (snd (hstep pp h st)) = Some sr
    /\ lookup (st_variant st) (h_store (fst (hstep pp h st))) = Some (c, sr).
Proof. exact Proofs.DistHistory.miss_is_stored. Qed.
Print Assumptions C13_miss_is_stored.

(* a toolchain cache too small for the packaged toolchain: EVERY request (first, repeated, after a client
   restart) is the documented error and never a silent local compile; no dangling weak-key entry appears *)
Theorem C13_toolchain_too_large_every_request : forall limit size : N,
  (limit < size)%N ->
  forall ops t f, t_weak t = false ->
  forall t' o, In (t', o) (tc_run limit size (t, f) ops) ->
    t_weak t' = false
    /\ (forall r, o = Some r -> r_out r = OErr KTooLarge /\ r_local_ran r = false).
Proof. exact Proofs.DistHistory.tc_too_large_every_request. Qed.
Print Assumptions C13_toolchain_too_large_every_request.

(* ... and when it fits every request is compiled remotely, the archive being there whenever the weak key is *)
Theorem C13_toolchain_fits_every_request : forall limit size : N,
  (size <= limit)%N ->
  forall ops t f, (t_weak t = true -> t_archive t = true) ->
  forall t' o r, In (t', o) (tc_run limit size (t, f) ops) -> o = Some r ->
    r_out r = OOk DistOk (to_local 0) /\ r_local_ran r = false.
Proof. exact Proofs.DistHistory.tc_fits_every_request. Qed.
Print Assumptions C13_toolchain_fits_every_request.

(* ------------------------------------------------------------------ Rust inputs: trimmed dependency rlibs *)

(* whatever the order, grouping (separate options / comma lists) and repetition of the --crate-type options: if any
   requested crate type needs object code (staticlib, bin, dylib, cdylib, proc-macro) the request is either not
   distributed at all (uncacheable) or every dependency rlib is sent complete *)
Theorem C13_rlibs_complete_when_object_code_needed : forall (opts : list (list cty)) (sibling meta : bool),
  existsb (existsb needs_object_code) opts = true ->
  packaged opts sibling meta = None \/ packaged opts sibling meta = Some Complete.
Proof. exact Proofs.DistRustInputs.rlibs_complete_when_needed. Qed.
Print Assumptions C13_rlibs_complete_when_object_code_needed.

(* and no dependency rlib is ever left out of the inputs archive *)
Theorem C13_rlib_never_missing : forall (opts : list (list cty)) (sibling meta : bool),
  packaged opts sibling meta <> Some Missing.
Proof. exact Proofs.DistRustInputs.rlib_never_missing. Qed.
Print Assumptions C13_rlib_never_missing.

(* before the fix: an rlib built by a current rustc (metadata member lib.rmeta) vanished from a pure-rlib job *)
Theorem C13_rlib_missing_refuted_before_fix :
  send_rlib_orig {| c_rlib := true; c_staticlib := false |} false false = Missing.
Proof. reflexivity. Qed.
Print Assumptions C13_rlib_missing_refuted_before_fix.

Example rust_inputs_examples :
  packaged [[TRlib]] false true = Some Trimmed
  /\ packaged [[TStaticlib]; [TRlib]] false true = Some Complete
  /\ packaged [[TRlib]; [TStaticlib; TLib]] false true = Some Complete
  /\ packaged [[TLib]] true true = Some Complete
  /\ packaged [[TRlib]; [TCdylib]] false true = None.
Proof. vm_compute. auto. Qed.

(* ------------------------------------------------------------------ input paths and the rlib dependency reader *)

(* simplify_path, over any kernel path walk in which `.` stays and `..` out of a directory whose own entry is not a
   symbolic link is its lexical parent: if the path is not refused and the original path names a file, the
   simplified path (after which the archive entry is named) names the same file *)
Theorem C13_simplify_same_file :
  forall (node : Type) (walk : node -> comp -> option node) (start : node) (is_link : list name -> bool),
  (forall n, walk n CDot = Some n) ->
  (forall acc n, is_link acc = false -> Proofs.DistPaths.resolve node walk start acc = Some n ->
                 walk n CDotDot = Proofs.DistPaths.resolve node walk start (removelast acc)) ->
  forall cs acc q m,
    simplify is_link cs acc = Some q ->
    Proofs.DistPaths.walks node walk (Proofs.DistPaths.resolve node walk start acc) cs = Some m ->
    Proofs.DistPaths.resolve node walk start q = Some m.
Proof. exact Proofs.DistPaths.simplify_same_file. Qed.
Print Assumptions C13_simplify_same_file.

(* the RlibDepReader cache: after any history of rebuilds (which advance the modification time) and lookups, a
   lookup answers with the crates the file's metadata names NOW, never with a list read from an earlier build *)
Theorem C13_rlib_deps_current : forall (ops : list rop) (p : N),
  let s := snd (rrun r_init ops) in
  snd (rstep s (RDiscover p)) = match alookup p (r_files s) with Some f => Some (f_deps f) | None => None end.
Proof. exact Proofs.DistPaths.rlib_deps_current. Qed.
Print Assumptions C13_rlib_deps_current.

(* `proj/link/../foo.c` with `link` a symbolic link is refused; without the link it is `proj/foo.c`;
   `..` right after a real directory below the link is fine *)
Example simplify_examples :
  let lk := [([bs "proj"; bs "link"], (false, [CDotDot; CName (bs "real"); CName (bs "gen")]))] in
  simplify_in lk [CName (bs "proj"); CName (bs "link"); CDotDot; CName (bs "foo.c")] = None
  /\ simplify_in [] [CName (bs "proj"); CName (bs "link"); CDotDot; CName (bs "foo.c")] = Some [bs "proj"; bs "foo.c"]
  /\ simplify_in lk [CName (bs "proj"); CName (bs "link"); CName (bs "x"); CDotDot; CName (bs "y")]
     = Some [bs "proj"; bs "link"; bs "y"].
Proof. vm_compute. auto. Qed.

(* bdep is rebuilt to the same path and now names cdep: the next lookup sees it *)
Example rlib_deps_example :
  fst (rrun r_init [RBuild 2 []; RDiscover 2; RBuild 2 [1%N]; RDiscover 2])
  = [None; Some []; None; Some [1%N]].
Proof. vm_compute. reflexivity. Qed.

(* a library file `lib<crate>-<hash>.rlib` of the -L directories belongs to <crate>: the prefix is removed exactly once,
   so the library of every crate the externs' metadata names is packaged, also when the crate's own name starts with
   "lib" (libc, libz_sys, ...) *)
Theorem C13_lib_prefix_once : forall (dep_names : list name) (n : name),
  crate_of_libname (lib_prefix ++ n) = Some n
  /\ (In n dep_names -> lib_packaged dep_names (lib_prefix ++ n) = true).
Proof. intros d n. split; [apply Proofs.DistPaths.lib_prefix_once | apply Proofs.DistPaths.named_lib_is_packaged]. Qed.
Print Assumptions C13_lib_prefix_once.

(* removing the prefix as often as it occurs: liblibc-<hash>.rlib would belong to a crate `c` *)
Theorem C13_lib_prefix_trim_all_refuted :
  trim_all_lib 10 (lib_prefix ++ [108; 105; 98; 99]%N) = [99%N]
  /\ crate_of_libname (lib_prefix ++ [108; 105; 98; 99]%N) = Some [108; 105; 98; 99]%N.
Proof. exact Proofs.DistPaths.trim_all_refuted. Qed.
Print Assumptions C13_lib_prefix_trim_all_refuted.

(* ------------------------------------------------------------------ route status classes, compiler aliases *)

(* Gen/C13Routes.v is the table of the scheduler's and the build server's routes as they are in src/dist/http.rs
   (regenerated every run).  Its side condition `routes_ok routes = true` - no failure of a handler or of the front
   end's own bookkeeping is answered with a 4xx or 2xx status - is discharged by vm_compute in the generated
   Gen/C13Routes_ok.v, compiled as a separate obligation AFTER the correspondence legs (lib/props/c13.py `extra`), so
   that a tree which breaks it is still searched for a concrete failing request.
   Composed with the fallback table: when the scheduler's or the build server's own handler fails behind a route the
   client talks to (alloc_job, submit_toolchain, run_job) - build server killed before / after assignment, toolchain
   rejected, job unknown - the request is compiled locally and returns the local compiler's result *)
Theorem C13_route_handler_faults_fall_back :
  routes_ok Gen.C13Routes.routes = true ->
  forall (r : route) (c : N) (st : stage) (s : script) (f : fs),
  In (r, KHandler, c) Gen.C13Routes.routes -> client_stage r = Some st ->
  s_gen s = true -> s_dist s = true -> first_fault s = Some (st, class_of_status c) ->
  r_local_ran (dist_or_local true s f) = true
  /\ r_out (dist_or_local true s f) = retag DistError (r_out (local_only s f)).
Proof.
  intros OK r c st s f. exact (Proofs.DistRoutes.route_handler_faults_fall_back _ r c st s f OK).
Qed.
Print Assumptions C13_route_handler_faults_fall_back.

(* one compiler binary reached under several names through one toolchain cache: with a weak key that tells the
   names apart (the path as given), every job is run in a toolchain packaged for the very executable it runs *)
Theorem C13_alias_toolchains_match : forall (keyf : N -> N),
  (forall a b, keyf a = keyf b -> a = b) ->
  forall reqs s, tk_wf keyf s -> forallb (fun b => b) (tk_run keyf s reqs) = true.
Proof. exact Proofs.DistRoutes.tk_all_match. Qed.
Print Assumptions C13_alias_toolchains_match.

(* a key that identifies a symlink (1) with its target (0): the second name's job gets the first name's toolchain *)
Theorem C13_alias_canonical_key_refuted :
  tk_run (fun a => if N.eqb a 1 then 0%N else a) {| tk_map := [] |} [1%N; 0%N] = [true; false].
Proof. exact Proofs.DistRoutes.tk_canonical_key_refuted. Qed.
Print Assumptions C13_alias_canonical_key_refuted.

Example routes_nonvacuous :
  forallb (fun r => existsb (fun x => match x with (r', KHandler, _) => match client_stage r, client_stage r' with
                                                                        | Some StAlloc, Some StAlloc | Some StSubmit, Some StSubmit
                                                                        | Some StRun, Some StRun => true | _, _ => false end
                                           | _ => false end) Gen.C13Routes.routes)
          [RAllocJob; RSubmitToolchain; RRunJob] = true.
Proof. vm_compute. reflexivity. Qed.

(* ------------------------------------------------------------------ remote command line *)

(* -x <lang>[-cpp-output], compilation flag, input, -o, output, [-fdirectives-only] -fpreprocessed (gcc),
   then exactly the hashed arguments; all of it valid UTF-8; never for -v/--verbose or CUDA *)
Theorem C13_dist_args : forall (e : env) (p : parsed) (out : bytes) (c : dist_cmd),
  dist_command true e p out = Some c ->
  exists dl, dist_lang true e (p_lang p) = Some dl
    /\ d_args c = xlang dl ++ [p_cflag p; p_input p; bs "-o"; out] ++ pp_flags e p ++ hashed_args p
    /\ d_exe c = e_exe e /\ d_cwd c = e_cwd e /\ d_env c = e_vars e
    /\ has_verbose (local_args e p out) = false
    /\ language_eqb (p_lang p) LCuda = false
    /\ is_abs (e_cwd e) = true
    /\ all_utf8 (d_args c) = true.
Proof. exact Proofs.DistArgs.dist_args_shape. Qed.
Print Assumptions C13_dist_args.

(* none of the preprocessor-only, dependency or unhashed arguments reach the remote side *)
Theorem C13_dist_args_ignore_pp_dep :
  forall (e : env) (p : parsed) (out : bytes) (pre dep unh : list bytes) (c c' : dist_cmd),
  dist_command true e p out = Some c ->
  dist_command true e (Proofs.DistArgs.with_pp p pre dep unh) out = Some c' ->
  d_args c = d_args c'.
Proof. exact Proofs.DistArgs.dist_args_ignore_pp_dep. Qed.
Print Assumptions C13_dist_args_ignore_pp_dep.

(* the -x value is a language gcc / clang know, and announces preprocessed input unless it is a header *)
Theorem C13_dist_lang_known : forall (e : env) (l : language) (x : bytes),
  language_eqb l LCuda = false ->
  dist_lang true e l = Some (Some x) ->
  In x known_x_langs
  /\ (e_rio e = false -> Proofs.DistArgs.header_lang l = false ->
      Proofs.DistArgs.ends_with (bs "cpp-output") x = true).
Proof. exact Proofs.DistArgs.dist_lang_known_full. Qed.
Print Assumptions C13_dist_lang_known.

(* pinned commit: the hashed -arch arguments are on the local command line but not on the remote one *)
Theorem C13_dist_args_refuted_before_fix :
  exists c, dist_command false Proofs.DistArgs.objcxx_header_env Proofs.DistArgs.arch_parsed (bs "foo.o") = Some c
    /\ existsb (bytes_eqb (bs "arm64")) (hashed_args Proofs.DistArgs.arch_parsed) = true
    /\ existsb (bytes_eqb (bs "arm64"))
         (local_args Proofs.DistArgs.objcxx_header_env Proofs.DistArgs.arch_parsed (bs "foo.o")) = true
    /\ existsb (bytes_eqb (bs "arm64")) (d_args c) = false.
Proof. exact Proofs.DistArgs.dist_args_refuted_orig. Qed.
Print Assumptions C13_dist_args_refuted_before_fix.

(* pinned commit: -x objective-c++-header-cpp-output, which neither compiler recognises *)
Theorem C13_dist_lang_refuted_before_fix :
  dist_lang false Proofs.DistArgs.objcxx_header_env LObjCxxHeader
    = Some (Some (bs "objective-c++-header-cpp-output"))
  /\ Proofs.DistArgs.known_x (bs "objective-c++-header-cpp-output") = false.
Proof. exact Proofs.DistArgs.dist_lang_refuted_orig. Qed.
Print Assumptions C13_dist_lang_refuted_before_fix.

(* ------------------------------------------------------------------ non-vacuity *)

Import Proofs.DistFallback.   (* ok_script and the set_* script editors used by the examples *)

(* every stage has a script whose first fault is an "other" error there (hypotheses of C13_fallback_total) ... *)
Example stages_reachable :
  map first_fault
    [set_prep EOther ok_script; set_put EOther ok_script; set_alloc AllocFail ok_script;
     set_alloc (AllocErr EOther) ok_script; set_submit SubCannotCache ok_script; set_submit SubJobNotFound ok_script;
     set_run RunJobNotFound ok_script; set_run (RunComplete 0 [(0%N, WOk); (1%N, WCopy)]) ok_script;
     set_run (RunComplete 0 [(0%N, WLen)]) ok_script; set_run (RunComplete 0 [(0%N, WCreate)]) ok_script;
     set_rewrite EOther ok_script]
  = [Some (StPrep, EOther); Some (StPut, EOther); Some (StAlloc, EOther); Some (StAlloc, EOther);
     Some (StSubmit, EOther); Some (StSubmit, EOther); Some (StRun, EOther); Some (StWrite 1, EOther);
     Some (StWrite 0, EOther); Some (StWrite 0, EOther); Some (StRewrite, EOther)].
Proof. vm_compute. reflexivity. Qed.

(* ... the two documented classes at the first and the last stage ... *)
Example classes_reachable :
  map first_fault [set_put EHttp4xx ok_script; set_rewrite ETooLarge ok_script; set_run (RunErr EHttp4xx) ok_script]
  = [Some (StPut, EHttp4xx); Some (StRewrite, ETooLarge); Some (StRun, EHttp4xx)].
Proof. vm_compute. reflexivity. Qed.

(* ... the success path of C13_never_false_success, and a fallback meeting the hypotheses of C13_same_files_as_local *)
Example dist_success :
  client_sees (r_out (dist_or_local true ok_script [(0%N, CPre 2)])) = CcStatus (CsExit 0)
  /\ r_out (dist_or_local true ok_script [(0%N, CPre 2)]) = OOk DistOk 0%Z
  /\ first_fault ok_script = None.
Proof. vm_compute. auto. Qed.

Example fallback_same_files :
  let s := set_run (RunComplete 0 [(0%N, WOk); (1%N, WCopy)]) ok_script in
  first_fault s = Some (StWrite 1, EOther)
  /\ incl (map fst (run_outs s)) (local_writes s)
  /\ r_out (dist_or_local true s [(1%N, CPre 2)]) = OOk DistError 0%Z
  /\ attempted s = [0%N; 1%N].
Proof.
  cbv zeta. split; [vm_compute; reflexivity|]. split; [|vm_compute; auto].
  intros q H. vm_compute in H. vm_compute. tauto.
Qed.

Example dist_args_example :
  exists c, dist_command true
      {| e_gcc := true; e_rio := true; e_exe := bs "/usr/bin/gcc"; e_cwd := bs "/w"; e_vars := [(bs "LANG", bs "C")] |}
      {| p_input := bs "a.cpp"; p_dd := false; p_lang := LCxx; p_cflag := bs "-c"; p_out := Some (bs "a.o");
         p_pre := [bs "-DX"]; p_dep := [bs "-MD"]; p_unhashed := []; p_common := [bs "-O2"]; p_arch := [];
         p_suppress_rio := false |} (bs "a.o") = Some c
    /\ d_args c = [bs "-x"; bs "c++"; bs "-c"; bs "a.cpp"; bs "-o"; bs "a.o"; bs "-fdirectives-only"; bs "-fpreprocessed"; bs "-O2"].
Proof. eexists. vm_compute. auto. Qed.

(* a failing remote compile followed by the identical request, preprocessor cache on: both jobs get the full unit;
   then the same without a dist client: the second request takes the direct-mode shortcut (no preprocessor run) *)
Example history_example :
  let failing d := {| st_script := set_run (RunComplete 1 []) (set_dist d ok_script); st_variant := 0%N;
                      st_clean := false; st_pre := [(0%N, 2%N)] |} in
  map (fun o => (ho_sent o, ho_pprun o)) (hrun true h_init [failing true; failing true])
    = [(Some TuFull, true); (Some TuFull, true)]
  /\ map (fun o => (ho_sent o, ho_pprun o)) (hrun true h_init [failing false; failing false])
    = [(None, true); (None, false)].
Proof. vm_compute. auto. Qed.

Example toolchain_example :
  map (fun x => match snd x with Some r => Some (r_out r) | None => None end)
      (tc_run 1000 5000 (tc_init, []) [TcRequest true (LExit 0%Z [0%N]); TcRestart; TcRequest true (LExit 0%Z [0%N])])
    = [Some (OErr KTooLarge); None; Some (OErr KTooLarge)].
Proof. vm_compute. reflexivity. Qed.
