(* Properties/C18Locks.v — pinned statements for the "never stops serving" half of C18 that no sequential or
   scripted run can show: the request handlers cannot deadlock.
   `handler_paths` (Gen/C18Locks.v) are the mutex events of every SchedulerIncoming handler of Scheduler, read
   from src/bin/sccache-dist/main.rs on every run: acquisitions of `self.jobs` (0) and `self.servers` (1) in
   program order with their block scopes, and the calls through `requester` (do_assign_job) as Block. *)
From Coq Require Import List NArith Bool String.
From Sccache Require Import Model.LockOrder Gen.C18Consts Gen.C18Locks Model.Scheduler Proofs.LockOrder.
Import ListNotations.
Local Open Scope N_scope.

(* the side condition on the translated data: on every path of every handler (early exits included) a mutex is
   only taken while every mutex already held comes earlier in the global order jobs < servers, nothing is held
   across do_assign_job, and nothing is held at the end *)
Theorem C18_lock_order : lock_order_ok handler_paths = true.
Proof. vm_compute. reflexivity. Qed.
Print Assumptions C18_lock_order.

(* the handlers take exactly the locks the pieces of Model/Scheduler.v are assumed to run under, in that order:
   handle_alloc_job = begin / (unlocked do_assign_job) / failure closure / recording; the others = one section *)
Theorem C18_lock_pieces :
  map (fun h => (fst h, sections (snd h))) handler_main_paths =
  [("handle_alloc_job"%string,
      [piece_locks (MAllocBegin []); piece_locks (MAllocEndFail 0); piece_locks (MAllocEndOk 0 Ready)]);
   ("handle_heartbeat_server"%string, [piece_locks (MHeartbeat 0 0 0 false)]);
   ("handle_status"%string, [piece_locks MStatus]);
   ("handle_update_job_state"%string, [piece_locks (MUpdate 0 0 Ready)])] /\
  lock_names = [("jobs"%string, lock_jobs); ("servers"%string, lock_servers)].
Proof. vm_compute. split; reflexivity. Qed.
Print Assumptions C18_lock_pieces.

(* no deadlock: ANY number of concurrently running requests, each executing any of the handler paths, in ANY
   interleaving of their mutex events: as long as a request is unfinished some request can take its next step,
   and every step uses up one event - so every request is served to the end *)
Theorem C18_no_deadlock : forall (requests : list (list lev)) (cfg : list thread),
  (forall p, In p requests -> In p handler_paths) ->
  creach (start requests) cfg ->
  all_finished cfg = true \/ exists cfg', cstep cfg cfg' /\ (todo cfg' < todo cfg)%nat.
Proof.
  intros requests cfg Hsub R. apply (disciplined_handlers_never_deadlock requests cfg); [|exact R].
  unfold lock_order_ok. apply forallb_forall. intros p Hp.
  pose proof C18_lock_order as Ok. unfold lock_order_ok in Ok. rewrite forallb_forall in Ok. auto.
Qed.
Print Assumptions C18_no_deadlock.

(* the theorem behind it, for any set of paths and any number of locks *)
Theorem C18_lock_discipline_sound : forall (paths : list (list lev)) (cfg : list thread),
  lock_order_ok paths = true -> creach (start paths) cfg ->
  all_finished cfg = true \/ exists cfg', cstep cfg cfg' /\ (todo cfg' < todo cfg)%nat.
Proof. exact disciplined_handlers_never_deadlock. Qed.
Print Assumptions C18_lock_discipline_sound.

(* non-vacuity: the check is not trivially true - two handlers taking the two mutexes in opposite orders are
   rejected by it and do reach a configuration in which both are stuck for ever *)
Example C18_opposite_orders_rejected :
  lock_order_ok [[Acq 1; Acq 0; Rel 0; Rel 1]; [Acq 0; Acq 1; Rel 1; Rel 0]] = false /\
  lock_order_ok [[Acq 1; Rel 1; Block; Acq 1; Rel 1; Acq 1; Acq 0; Rel 0; Rel 1]] = false /\
  lock_order_ok [[Acq 1; Block; Rel 1]] = false /\ lock_order_ok [[Acq 1; Acq 1; Rel 1; Rel 1]] = false.
Proof. vm_compute. repeat split; reflexivity. Qed.

Example C18_opposite_orders_deadlock :
  let cfg := [([1], [Acq 0; Rel 0; Rel 1]); ([0], [Acq 1; Rel 1; Rel 0])] in
  creach (start [[Acq 1; Acq 0; Rel 0; Rel 1]; [Acq 0; Acq 1; Rel 1; Rel 0]]) cfg /\
  all_finished cfg = false /\ forallb (fun t => negb (enabled cfg t)) cfg = true.
Proof. exact opposite_orders_deadlock. Qed.
