(* Properties/Composition.v — pinned statements that COMPOSE the per-property models: a hypothesis that one
   property's theorems only NAME is discharged here by another property's theorems.

     C04 ⟵ C02   Proofs/ComposePpLocal.v, Proofs/ComposeC04.v   `pp_key_injective`, `env_main_subset_env_pp` and the global
                  injectivity of the digests of C04_mode_equivalence
     C09 ⟵ C02   Proofs/ComposeC09.v                            `consistent w` ("hash-key soundness") of C09_*
     C03 ⟵ C02   Proofs/ComposeC03.v                            `key_of` instantiated with C02's key
     C06 ⟵ C07   Proofs/ComposeStore.v                          the concurrent store inherits C07's invariant
     C20 ⟵ C11   Proofs/ComposeC20.v                            a client arriving during / after shutdown gets its result
     C09 ⟵ C07   Proofs/ComposeC09C07.v                         ReqSM's put-fault classes = LruPut's outcomes; "the faults
                                                                 have stopped" of C09_repopulates follows from C07
     C15 ⟵ C07   Proofs/ComposeC15.v                            C15_hits_served_always' premises about the directory from
                                                                 C07's invariant of the read-write store that left it
     C01 ⟵ C08 ⟵ C10   Proofs/ComposeHitBytes.v                 C10's "get_object wrote the complete stored member" from
                                                                 C08_roundtrip; the whole hit, request machine to files
   Witnesses for the non-vacuity examples: Proofs/ComposeEx.v (toyH: a concrete 64-hex-valued hash), Proofs/ComposeEx2.v.

   Throughout, H stands for util::hex ∘ BLAKE3; it is universally quantified, its range is 64 hex characters
   (`forall x, is_hex64 (H x) = true`, as in Properties/C02.v) and it is assumed collision-free ONLY on explicit
   pre-images in play — a hypothesis a real hash function can meet, unlike global injectivity. *)
From Coq Require Import List NArith Bool.
From Sccache Require Import Base.Sx Gen.C04Consts Model.PpPaths Model.TimeMacro Model.PpCache
     Proofs.TimeMacro Proofs.PpCache.
From Sccache Require Import Model.KeyEnc Proofs.KeyEnc Gen.C02HashSpec.
From Sccache Require Model.Stats Model.ReqSM Proofs.ReqSM Model.Lru Model.HitModel Proofs.HitModel
     Model.DiskCache Proofs.DiskCache Proofs.Lru.
From Sccache Require Import Proofs.ComposePpLocal Proofs.ComposeC04 Proofs.ComposeC09 Proofs.ComposeC03
     Proofs.ComposeStore Proofs.ComposeEx.
From Sccache Require Proofs.ComposeC20 Proofs.ComposeC09C07 Proofs.ComposeHitBytes Proofs.ComposeEx2 Proofs.ComposeC15.
Import ListNotations.
Local Open Scope N_scope.

(* ====================================================================== C04 ⟵ C02 *)

(* The two translators read the same source data: C04's copy of preprocessor_cache.rs CACHED_ENV_VARS is C02's
   allow_pp, and C04's translated time-macro patterns are the ones C02's model spells out. *)
Theorem Compose_C04_translations_agree :
  pp_cached_env_vars = allow_pp the_spec /\
  pat WDate = date_pat /\ pat WTime = time_pat /\ pat WTimestamp = stamp_pat.
Proof. exact (conj allowlists_agree patterns_agree). Qed.
Print Assumptions Compose_C04_translations_agree.

(* C04's soundness of the manifest lookup with collision-freeness RELATIVE to sets okB (file contents) and okT
   ((date, mtime) pairs, compared only between pairs of the same shape) that contain what the snapshots involved hold
   ([snap_ok]); C04_lookup_sound is the instance okB = okT = everything. *)
Theorem Compose_C04_lookup_sound_on :
  forall (D : Type) (Deqb : D -> D -> bool) (H : bytes -> D) (HT : option bytes -> option N -> D),
    (forall a b : D, Deqb a b = true -> a = b) ->
    forall (okB : bytes -> Prop) (okT : option bytes -> option N -> Prop),
    (forall a b, okB a -> okB b -> H a = H b -> a = b) ->
    (forall od om od' om', okT od om -> okT od' om' -> same_shape od om od' om' ->
                           HT od om = HT od' om' -> od = od' /\ om = om') ->
    forall (cfg : config) (ops : list rec_op) (fs1 : fsnap) (date1 : bytes) (k : PpCache.key),
      (forall op, In op ops -> snap_ok okB okT (ro_fs op) (ro_date op)) -> snap_ok okB okT fs1 date1 ->
      (file_stat_matches cfg = true -> use_ctime_for_stat cfg = true ->
       forall op, In op ops -> stat_trust (ro_fs op) fs1) ->
      lookup_result_digest D Deqb H HT cfg fs1 date1 (run_recs D H HT cfg ops) = Some k ->
      exists op, In op ops /\ ro_key op = k /\
        forall p, must_record cfg op p -> unchanged cfg (ro_fs op) (ro_date op) fs1 date1 p.
Proof. exact lookup_sound_on. Qed.
Print Assumptions Compose_C04_lookup_sound_on.

(* C04's `in_manifest` — with the manifest key [ppk H], the content digest H and the time digest [HTc H] = H ∘ time_enc
   — says exactly: C02's preprocessor-level key of the request, as it is in this snapshot, is mk.
   [creq_in q e fs itm today sde] is the C02 request (hashed request q, environment e, the input file's bytes and mtime
   read from fs, the date) if the input file is a regular file of fs. *)
Theorem Compose_C04_manifest_key_is_C02_pp_key :
  forall (H : bytes -> bytes) (cfg : config) (q : hreq) (e : env_t) (fs : fsnap) (today : N * N * N)
         (sde : option bytes) (mk : bytes),
    in_manifest bytes H (HTc H) hreq (allow_pp the_spec) bytes (ppk H) (hq_path q) cfg q e fs (date_enc today sde) mk
    <-> exists r, In r (creq_in q e fs (ignore_time_macros cfg) today sde) /\ KeyEnc.pp_key H the_spec r = Some mk.
Proof. exact in_manifest_C02. Qed.
Print Assumptions Compose_C04_manifest_key_is_C02_pp_key.

(* The request type the composition uses for C04's `Req` (hreq: digest, plusplus, language tag, arguments, extra hashes,
   input path) is exactly what C02 hashes of a request: for EVERY C02 request r with a known language, rebuilding it
   from its hashed view [req_of r] changes neither pre-image, hence neither key; and every Timestamp{seconds,
   nanoseconds < 10^9} is [mt_of] of its nanosecond count, C04's one-number mtime. *)
Theorem Compose_C04_hreq_view_faithful :
  (forall (H : bytes -> bytes) (r : creq) (mt : N),
      lang_known the_spec (lang r) = true -> mtime r = mt_of mt ->
      let r' := mk_creq (req_of r) (env r) (pp r) (input r) (ignore_time r) (date r) (sde r) mt in
      encode_c H the_spec r' = encode_c H the_spec r /\ encode_pp H the_spec r' = encode_pp H the_spec r /\
      gated the_spec r' = gated the_spec r /\ KeyEnc.key H the_spec r' = KeyEnc.key H the_spec r /\
      KeyEnc.pp_key H the_spec r' = KeyEnc.pp_key H the_spec r) /\
  (forall sec nsec, nsec < ns -> mt_of (sec * ns + nsec) = (sec, nsec)).
Proof. exact (conj hreq_view_faithful mt_of_surj). Qed.
Print Assumptions Compose_C04_hreq_view_faithful.

(* The hypothesis `pp_key_injective` of C04_mode_equivalence, at two requests, FROM C02_pp_encode_injective_canon:
   equal manifest keys give the same hashed request, the same allow-listed environment and the same input digest —
   under C02's wf_p of the two requests and collision-freeness of H on their three pairs of pre-images. *)
Theorem Compose_C04_pp_key_injective_at :
  forall (H : bytes -> bytes), (forall x, is_hex64 (H x) = true) ->
  forall (cfg : config) (q0 : hreq) (e0 : env_t) (q1 : hreq) (e1 : env_t) (b0 b1 : bytes)
         (today0 : N * N * N) (s0 : option bytes) (today1 : N * N * N) (s1 : option bytes) (mt0 mt1 : N)
         (d0 d1 : idigest bytes),
    let r0 := mk_creq q0 e0 [] b0 (ignore_time_macros cfg) today0 s0 mt0 in
    let r1 := mk_creq q1 e1 [] b1 (ignore_time_macros cfg) today1 s1 mt1 in
    wf_p the_spec r0 = true -> wf_p the_spec r1 = true ->
    (H (encode_pp H the_spec r0) = H (encode_pp H the_spec r1) -> encode_pp H the_spec r0 = encode_pp H the_spec r1) ->
    (H (input r0) = H (input r1) -> input r0 = input r1) ->
    (H (time_pre r0) = H (time_pre r1) -> time_pre r0 = time_pre r1) ->
    input_file_digest bytes H (HTc H) cfg b0 (date_enc today0 s0) mt0 = Some d0 ->
    input_file_digest bytes H (HTc H) cfg b1 (date_enc today1 s1) mt1 = Some d1 ->
    ppk H q0 (filter_env (allow_pp the_spec) e0) d0 = ppk H q1 (filter_env (allow_pp the_spec) e1) d1 ->
    q0 = q1 /\ filter_env (allow_pp the_spec) e0 = filter_env (allow_pp the_spec) e1 /\ d0 = d1.
Proof. exact ppk_injective_at. Qed.
Print Assumptions Compose_C04_pp_key_injective_at.

(* C04_mode_equivalence, closed: a direct-mode hit returns C02's result key of what the preprocessor gives NOW.
   Instantiation of Properties/C04.v: D := byte strings, Deqb := bytes_eqb, H := the one digest, HT := H ∘ time_enc,
   Req := hreq, env_pp / env_main := C02's two translated allow-lists, main_key := H ∘ encode_c, pp_key := H ∘ encode_pp.
   Remaining hypotheses:
     (a) H collision-free on the finite list [in_play ..]: the contents of the files of the snapshots, their
         (date, mtime) pre-images, and the preprocessor-level pre-images of the two requests in these snapshots;
     (b) pp_frame: the frame hypothesis on the preprocessor;  (c) no_new_shadowing_file;
     (d) C02's wf_p of the requests in play, and mtimes representable as Timestamp (seconds below 2^64);
     and, as in C04: ignore_time_macros off, stat_trust when file_stat_matches and use_ctime_for_stat are both on,
     the recordings are faithful, the request is in the manifest.
   Gone: pp_key_injective, env_main_subset_env_pp (Gen/C02HashSpec_ok.v the_spec_env_covers), injectivity of H and HT. *)
Theorem Compose_C04_mode_equivalence_closed :
  forall (H : bytes -> bytes), (forall x, is_hex64 (H x) = true) ->
  forall (ppo : hreq -> env_t -> fsnap -> bytes -> bytes)
         (reads probes : hreq -> env_t -> fsnap -> bytes -> list PpCache.path),
    (forall req env fs0 d0 fs1 d1,
        same_inputs hreq reads probes req env fs0 d0 fs1 d1 -> ppo req env fs1 d1 = ppo req env fs0 d0) ->
  forall (cfg : config) (q0 q1 : hreq) (e0 e1 : env_t) (cops : list cop) (fs1 : fsnap) (today1 : N * N * N)
         (sde1 : option bytes),
    forallb (wf_p the_spec) (reqs_in_play cfg q0 e0 q1 e1 cops fs1 today1 sde1) = true ->
    forallb fs_time_ok (map fst (snaps_in_play cops fs1 today1 sde1)) = true ->
    cf_on H (in_play H cfg q0 e0 q1 e1 cops fs1 today1 sde1) ->
  forall (mk k : bytes),
    let ops := map (rec_of (hq_path q0)) cops in
    let date1 := date_enc today1 sde1 in
    ignore_time_macros cfg = false ->
    (file_stat_matches cfg = true -> use_ctime_for_stat cfg = true ->
     forall op, In op ops -> stat_trust (ro_fs op) fs1) ->
    (forall op, In op ops ->
                faithful bytes H (HTc H) hreq (allow_pp the_spec) (allow_main the_spec) ppo reads (mkey H) bytes (ppk H)
                         (hq_path q0) cfg q0 e0 mk op) ->
    in_manifest bytes H (HTc H) hreq (allow_pp the_spec) bytes (ppk H) (hq_path q1) cfg q1 e1 fs1 date1 mk ->
    forall (no_new_shadowing_file :
              forall op p, In op ops ->
                           In p (probes q0 (filter_env (allow_pp the_spec) e0) (ro_fs op) (ro_date op)) ->
                           fs_get fs1 p = None),
    lookup_result_digest bytes bytes_eqb H (HTc H) cfg fs1 date1 (run_recs bytes H (HTc H) cfg ops) = Some k ->
    k = KeyEnc.key H the_spec
          (mk_creq q1 e1 (ppo q1 (filter_env (allow_pp the_spec) e1) fs1 date1) [] false (0, 0, 0) None 0).
Proof. exact mode_equivalence_C02. Qed.
Print Assumptions Compose_C04_mode_equivalence_closed.

(* ====================================================================== C09 ⟵ C02 *)

(* `consistent w` for the world built from C02 requests: keys = H ∘ encode_c / H ∘ encode_pp, the preprocessor a
   function of canon_p and the include-file state, the compiler a function of canon_c.  From C02_key_iff,
   C02_pp_key_iff and S16 (env_covers). *)
Theorem Compose_C09_consistent_from_C02 :
  forall (H : bytes -> bytes), (forall x, is_hex64 (H x) = true) ->
  forall (base : N -> creq) (man : N -> N) (ppf : canon_p_t -> N -> pp_result) (ccf : canon_c_t -> cc_result)
         (direct_mode : N -> bool) (lng : N -> Model.Stats.lang) (upd mok cab ppan cpan : N -> bool),
    (forall t, wf_c the_spec (req base man ppf t) = true) ->
    (forall t, wf_p the_spec (base t) = true) ->
    (forall t t', extra_pp_ok (req base man ppf t) (req base man ppf t') = true) ->
    (forall t t', H (encode_c H the_spec (req base man ppf t)) = H (encode_c H the_spec (req base man ppf t')) ->
                  encode_c H the_spec (req base man ppf t) = encode_c H the_spec (req base man ppf t')) ->
    (forall t t', H (encode_pp H the_spec (base t)) = H (encode_pp H the_spec (base t')) ->
                  encode_pp H the_spec (base t) = encode_pp H the_spec (base t')) ->
    (forall t t', H (input (base t)) = H (input (base t')) -> input (base t) = input (base t')) ->
    (forall t t', H (time_pre (base t)) = H (time_pre (base t')) -> time_pre (base t) = time_pre (base t')) ->
    Proofs.ReqSM.consistent (world_of H base man ppf ccf direct_mode lng upd mok cab ppan cpan).
Proof. exact consistent_from_C02. Qed.
Print Assumptions Compose_C09_consistent_from_C02.

(* C09_faults_transparent without `consistent`: [C02_world_ok H base man ppf] is the conjunction of the eight
   hypotheses above (Proofs/ComposeC09.v).  The world's panic flags (o_pp_panics / o_c_panics := ppan t / cpan t) are
   unconstrained; [calm f (w t)] — no storage call and none of sccache's own steps panics on the way — is the
   hypothesis C09_faults_transparent itself carries. *)
Theorem Compose_C09_faults_transparent_closed :
  forall (H : bytes -> bytes) (base : N -> creq) (man : N -> N) (ppf : canon_p_t -> N -> pp_result)
         (ccf : canon_c_t -> cc_result) (direct_mode : N -> bool) (lng : N -> Model.Stats.lang)
         (upd mok cab ppan cpan : N -> bool),
    C02_world_ok H base man ppf ->
    let w := world_of H base man ppf ccf direct_mode lng upd mok cab ppan cpan in
    forall (st : Model.ReqSM.cstate) (t : N) (f : Model.ReqSM.faults) (cl : Model.ReqSM.req_class)
           (cc : Model.ReqSM.cache_control),
      Proofs.ReqSM.Inv w st -> Proofs.ReqSM.sane (w t) -> Model.ReqSM.f_outdir_ok f = true ->
      Proofs.ReqSM.calm f (w t) ->
      Proofs.ReqSM.transparent (w t) (snd (fst (Model.ReqSM.request f cl cc (w t) st))).
Proof. exact faults_transparent_closed_b. Qed.
Print Assumptions Compose_C09_faults_transparent_closed.

(* C09_internal_fault_reported without `consistent`: without [calm] the request is still answered — with the
   compiler's own result, or with a reported fatal error, never with a wrong result *)
Theorem Compose_C09_internal_fault_reported_closed :
  forall (H : bytes -> bytes) (base : N -> creq) (man : N -> N) (ppf : canon_p_t -> N -> pp_result)
         (ccf : canon_c_t -> cc_result) (direct_mode : N -> bool) (lng : N -> Model.Stats.lang)
         (upd mok cab ppan cpan : N -> bool),
    C02_world_ok H base man ppf ->
    let w := world_of H base man ppf ccf direct_mode lng upd mok cab ppan cpan in
    forall (st : Model.ReqSM.cstate) (t : N) (f : Model.ReqSM.faults) (cl : Model.ReqSM.req_class)
           (cc : Model.ReqSM.cache_control),
      Proofs.ReqSM.Inv w st -> Proofs.ReqSM.sane (w t) -> Model.ReqSM.f_outdir_ok f = true ->
      Proofs.ReqSM.transparent (w t) (snd (fst (Model.ReqSM.request f cl cc (w t) st)))
      \/ Model.ReqSM.r_client (snd (fst (Model.ReqSM.request f cl cc (w t) st))) = Model.ReqSM.CFatal.
Proof. exact internal_fault_reported_closed_b. Qed.
Print Assumptions Compose_C09_internal_fault_reported_closed.

(* C09_history_transparent without `consistent`.  [history_ok] (Proofs/ReqSM.v) asks of every request of the history:
   f_outdir_ok f = true -> calm f (w t) -> transparent, and f_outdir_ok f = true -> transparent \/ CFatal. *)
Theorem Compose_C09_history_transparent_closed :
  forall (H : bytes -> bytes) (base : N -> creq) (man : N -> N) (ppf : canon_p_t -> N -> pp_result)
         (ccf : canon_c_t -> cc_result) (direct_mode : N -> bool) (lng : N -> Model.Stats.lang)
         (upd mok cab ppan cpan : N -> bool),
    C02_world_ok H base man ppf ->
    let w := world_of H base man ppf ccf direct_mode lng upd mok cab ppan cpan in
    forall ss : list Model.ReqSM.step,
      (forall t, Proofs.ReqSM.sane (w t)) -> Proofs.ReqSM.history_ok w Model.ReqSM.empty_cache ss.
Proof. exact history_transparent_closed_b. Qed.
Print Assumptions Compose_C09_history_transparent_closed.

(* C09_repopulates without `consistent` (with its [calm_oracle]): after the faults stop, a fault-free request re-populates and the next is a hit *)
Theorem Compose_C09_repopulates_closed :
  forall (H : bytes -> bytes) (base : N -> creq) (man : N -> N) (ppf : canon_p_t -> N -> pp_result)
         (ccf : canon_c_t -> cc_result) (direct_mode : N -> bool) (lng : N -> Model.Stats.lang)
         (upd mok cab ppan cpan : N -> bool),
    C02_world_ok H base man ppf ->
    let w := world_of H base man ppf ccf direct_mode lng upd mok cab ppan cpan in
    forall (st : Model.ReqSM.cstate) (t : N),
      Proofs.ReqSM.Inv w st -> Proofs.ReqSM.sane (w t) -> Proofs.ReqSM.calm_oracle (w t) ->
      Model.ReqSM.cs_ro st = false ->
      Model.ReqSM.o_pp_status (w t) = 0 -> Model.ReqSM.o_c_status (w t) = 0 -> Model.ReqSM.o_cacheable (w t) = true ->
      let '(st1, r1, _) := Model.ReqSM.request Model.ReqSM.no_faults Model.ReqSM.QCompile Model.ReqSM.CCDefault (w t) st in
      let '(st2, r2, _) := Model.ReqSM.request Model.ReqSM.no_faults Model.ReqSM.QCompile Model.ReqSM.CCDefault (w t) st1 in
      Model.ReqSM.kv_get (Model.ReqSM.o_key (w t)) (Model.ReqSM.cs_res st1)
      = Some (Model.ReqSM.RGood (Model.ReqSM.o_c_stdout (w t)) (Model.ReqSM.o_c_stderr (w t))
                                (Model.ReqSM.o_c_outputs (w t)))
      /\ Proofs.ReqSM.transparent (w t) r1 /\ Proofs.ReqSM.is_hit_of (w t) r2 /\ Proofs.ReqSM.transparent (w t) r2.
Proof. exact repopulates_closed_b. Qed.
Print Assumptions Compose_C09_repopulates_closed.

(* ====================================================================== C03 ⟵ C02 *)

(* C03's hand-written allow-list of hashed variables is C02's translated CACHED_ENV_VARS of c.rs *)
Theorem Compose_C03_allowlist_is_C02 : Model.HitModel.c_env_allow = allow_main the_spec.
Proof. exact c_env_allow_agrees. Qed.
Print Assumptions Compose_C03_allowlist_is_C02.

(* With key_of := C02's result key over the fingerprint's components ([key_of_C02], [creq_of_fp]): two C/C++ requests
   get the same cache key IFF they have the same fingerprint, and the same fingerprint means the same canon_c.
   "If": by construction.  "Only if": C02_key_iff, under C02's wf_c / extra_pp_ok of the two requests, collision-freeness
   of H on their two pre-images, and injectivity — at these two requests — of what HitModel's abstract numbers stand
   for (compiler identity ↦ digest, plusplus, language tag, extra hashes; input digests ↦ preprocessor output). *)
Theorem Compose_C03_key_of_is_C02_key :
  forall (H : bytes -> bytes) (comp_digest : N -> bytes) (comp_plusplus : N -> bool) (comp_lang : N -> bytes)
         (comp_extra : N -> list bytes) (pp_text : list N -> bytes)
         (rust_key : Model.HitModel.fingerprint -> Model.Lru.key) (r r' : Model.HitModel.request),
    Model.HitModel.rq_lang r = Model.HitModel.LangC -> Model.HitModel.rq_lang r' = Model.HitModel.LangC ->
    let c := creq_of_fp comp_digest comp_plusplus comp_lang comp_extra pp_text (Model.HitModel.fingerprint_of r) in
    let c' := creq_of_fp comp_digest comp_plusplus comp_lang comp_extra pp_text (Model.HitModel.fingerprint_of r') in
    wf_c the_spec c = true -> wf_c the_spec c' = true -> extra_pp_ok c c' = true ->
    (H (encode_c H the_spec c) = H (encode_c H the_spec c') -> encode_c H the_spec c = encode_c H the_spec c') ->
    (comp_digest (Model.HitModel.rq_compiler r) = comp_digest (Model.HitModel.rq_compiler r') ->
     comp_plusplus (Model.HitModel.rq_compiler r) = comp_plusplus (Model.HitModel.rq_compiler r') ->
     tag_of the_spec (comp_lang (Model.HitModel.rq_compiler r))
     = tag_of the_spec (comp_lang (Model.HitModel.rq_compiler r')) ->
     comp_extra (Model.HitModel.rq_compiler r) = comp_extra (Model.HitModel.rq_compiler r') ->
     Model.HitModel.rq_compiler r = Model.HitModel.rq_compiler r') ->
    (pp_text (Model.HitModel.rq_inputs r) = pp_text (Model.HitModel.rq_inputs r') ->
     Model.HitModel.rq_inputs r = Model.HitModel.rq_inputs r') ->
    (key_of_C02 H comp_digest comp_plusplus comp_lang comp_extra pp_text rust_key (Model.HitModel.fingerprint_of r)
     = key_of_C02 H comp_digest comp_plusplus comp_lang comp_extra pp_text rust_key (Model.HitModel.fingerprint_of r')
     <-> Model.HitModel.fingerprint_of r = Model.HitModel.fingerprint_of r')
    /\ (Model.HitModel.fingerprint_of r = Model.HitModel.fingerprint_of r' -> canon_c the_spec c = canon_c the_spec c').
Proof. exact key_of_is_C02_key. Qed.
Print Assumptions Compose_C03_key_of_is_C02_key.

(* C03_hit_after_store for this key function (C03's theorem holds for every key_of; this is the instance whose
   hash function is the real one) *)
Theorem Compose_C03_hit_after_store_C02_key :
  forall (H : bytes -> bytes) (comp_digest : N -> bytes) (comp_plusplus : N -> bool) (comp_lang : N -> bytes)
         (comp_extra : N -> list bytes) (pp_text : list N -> bytes)
         (rust_key : Model.HitModel.fingerprint -> Model.Lru.key),
    let kf := key_of_C02 H comp_digest comp_plusplus comp_lang comp_extra pp_text rust_key in
    forall (compile : Model.HitModel.request -> N -> Model.HitModel.cresult) (c0 : N) (h0 : list Model.HitModel.event)
           (r0 : Model.HitModel.request) (h : list Model.HitModel.event) (r1 : Model.HitModel.request)
           (w1 : Model.HitModel.world) (o0 : Model.HitModel.outcome) (w3 : Model.HitModel.world)
           (o1 : Model.HitModel.outcome),
      let w0 := Model.HitModel.run_events kf compile (Model.HitModel.empty_world c0) h0 in
      Model.HitModel.do_request kf compile w0 r0 = (w1, o0) -> Model.HitModel.oc_stored o0 = true ->
      Model.HitModel.unrelated kf r0 h = true ->
      let w2 := Model.HitModel.run_events kf compile w1 h in
      Model.HitModel.cached kf w2 r0 = true ->
      Model.HitModel.fingerprint_of r1 = Model.HitModel.fingerprint_of r0 ->
      map (fun o => (Model.HitModel.o_role o, Model.HitModel.o_optional o)) (Model.HitModel.rq_outputs r1)
      = map (fun o => (Model.HitModel.o_role o, Model.HitModel.o_optional o)) (Model.HitModel.rq_outputs r0) ->
      NoDup (map Model.HitModel.o_role (Model.HitModel.rq_outputs r0)) ->
      NoDup (map Model.HitModel.o_path (Model.HitModel.rq_outputs r1)) ->
      (Model.HitModel.pp_hit kf w2 r1 = true
       \/ Model.HitModel.cr_pre_ok (compile r1 (Model.HitModel.w_compiles w2)) = true) ->
      Model.HitModel.do_request kf compile w2 r1 = (w3, o1) ->
      Model.HitModel.oc_kind o1 = Model.HitModel.KHit /\ Model.HitModel.oc_compiled o1 = false /\
      Model.HitModel.w_compiles w3 = Model.HitModel.w_compiles w2 /\
      forall oa ob c, In oa (Model.HitModel.rq_outputs r0) -> In ob (Model.HitModel.rq_outputs r1) ->
        Model.HitModel.o_role oa = Model.HitModel.o_role ob ->
        Model.Lru.alookup (Model.HitModel.o_path oa) (Model.HitModel.w_ws w1) = Some c ->
        Model.Lru.alookup (Model.HitModel.o_path ob) (Model.HitModel.w_ws w3) = Some c.
Proof. exact hit_after_store_C02_key. Qed.
Print Assumptions Compose_C03_hit_after_store_C02_key.

(* ====================================================================== C06 ⟵ C07 *)

(* Every reachable state of the concurrent DiskCache model (any capacity, any acceptable start-up directory, any calls,
   any schedule) satisfies C07's invariant, listing order and disk agreement for its Lru component once the lazy init
   has run (before: the directory is one init accepts); C06's inode agreement; and what a crash would leave is again an
   acceptable start-up directory. *)
Theorem Compose_store_invariants :
  forall (c : N) (d : Model.DiskCache.disk) (ths : list Model.DiskCache.thread) (sched : list nat),
    Proofs.DiskCache.disk_ok d -> forallb Model.DiskCache.is_call ths = true ->
    let s := Model.DiskCache.ws (Model.DiskCache.exec (Model.DiskCache.start c d ths) sched) in
    let l := Model.DiskCache.lru s in
    (if Model.DiskCache.inited s
     then Proofs.Lru.inv l /\ Proofs.Lru.ksorted (Model.Lru.files l) /\ Proofs.Lru.disk_ok l
     else Proofs.Lru.dir_ok l) /\
    (Model.DiskCache.inited s = true ->
       Model.Lru.measure l = Proofs.Lru.sumsz (Model.Lru.index l) /\
       Model.Lru.measure l + Model.Lru.pending_size l <= Model.Lru.cap l /\
       NoDup (Proofs.Lru.keys (Model.Lru.index l)) /\
       Model.Lru.pending_size l = Proofs.Lru.sumres (Model.Lru.handles l) /\
       forall k sz, Model.Lru.alookup k (Model.Lru.index l) = Some sz
                    <-> exists mt, Model.Lru.alookup k (Model.Lru.files l) = Some (sz, mt)) /\
    (forall k sz mt, Model.Lru.alookup k (Model.Lru.files l) = Some (sz, mt) ->
       exists i v, Model.Lru.alookup k (Model.DiskCache.dir s) = Some i /\
                   Model.Lru.hlookup i (Model.DiskCache.inodes s) = Some v /\ Model.DiskCache.blen v = sz) /\
    (forall k i, In (k, i) (Model.DiskCache.dir s) -> Model.Lru.amem k (Model.Lru.files l) = true) /\
    Proofs.DiskCache.disk_ok (Model.DiskCache.persist s).
Proof. exact store_invariants. Qed.
Print Assumptions Compose_store_invariants.

(* ====================================================================== non-vacuity *)

(* C04 ⟵ C02: a concrete instance (toyH; an input file mentioning __TIMESTAMP__, a header mentioning __DATE__, one
   recording) on which EVERY hypothesis of Compose_C04_mode_equivalence_closed holds and the lookup is a hit; both
   requests in play have salted digests. *)
Example Compose_C04_example :
  (forall x, is_hex64 (toyH x) = true) /\
  (forall req env fs0 d0 fs1 d1,
      same_inputs hreq x_reads x_probes req env fs0 d0 fs1 d1 -> x_ppo req env fs1 d1 = x_ppo req env fs0 d0) /\
  forallb (wf_p the_spec) (reqs_in_play x_cfg x_q x_env x_q x_env [x_cop] x_fs x_today None) = true /\
  forallb fs_time_ok (map fst (snaps_in_play [x_cop] x_fs x_today None)) = true /\
  cf_on toyH (in_play toyH x_cfg x_q x_env x_q x_env [x_cop] x_fs x_today None) /\
  ignore_time_macros x_cfg = false /\
  (file_stat_matches x_cfg = true -> use_ctime_for_stat x_cfg = true ->
   forall op, In op x_ops -> stat_trust (ro_fs op) x_fs) /\
  (forall op, In op x_ops ->
              faithful bytes toyH (HTc toyH) hreq (allow_pp the_spec) (allow_main the_spec) x_ppo x_reads (mkey toyH)
                       bytes (ppk toyH) (hq_path x_q) x_cfg x_q x_env x_mk op) /\
  in_manifest bytes toyH (HTc toyH) hreq (allow_pp the_spec) bytes (ppk toyH) (hq_path x_q) x_cfg x_q x_env x_fs
              x_date x_mk /\
  (forall op p, In op x_ops ->
                In p (x_probes x_q (filter_env (allow_pp the_spec) x_env) (ro_fs op) (ro_date op)) ->
                fs_get x_fs p = None) /\
  lookup_result_digest bytes bytes_eqb toyH (HTc toyH) x_cfg x_fs x_date (run_recs bytes toyH (HTc toyH) x_cfg x_ops)
  = Some (co_key x_cop) /\
  length (reqs_in_play x_cfg x_q x_env x_q x_env [x_cop] x_fs x_today None) = 2%nat /\
  forallb salted (reqs_in_play x_cfg x_q x_env x_q x_env [x_cop] x_fs x_today None) = true.
Proof. exact x_instance. Qed.

(* C09 ⟵ C02: a world of three units (two differ in an argument, the third in the input file) meeting every hypothesis
   of Compose_C09_consistent_from_C02, with a sane compiler, no panic inside the server ([calm_oracle]) and three
   different result keys. *)
Example Compose_C09_example :
  C02_world_ok toyH C09Ex.y_base C09Ex.y_man C09Ex.y_ppf /\
  (forall t, Proofs.ReqSM.sane (C09Ex.y_world t)) /\ (forall t, Proofs.ReqSM.calm_oracle (C09Ex.y_world t)) /\
  Model.ReqSM.o_key (C09Ex.y_world 0) <> Model.ReqSM.o_key (C09Ex.y_world 1) /\
  Model.ReqSM.o_key (C09Ex.y_world 0) <> Model.ReqSM.o_key (C09Ex.y_world 2) /\
  Model.ReqSM.o_key (C09Ex.y_world 1) <> Model.ReqSM.o_key (C09Ex.y_world 2).
Proof.
  destruct C09Ex.y_instance as (A0 & A1 & A2 & A3 & A4 & A5 & A6 & A7 & A8 & A9 & A10).
  split; [exact (conj A0 (conj A1 (conj A2 (conj A3 (conj A4 (conj A5 (conj A6 A7)))))))|].
  split; [exact A8 | split; [exact A9 | exact A10]].
Qed.

(* C03 ⟵ C02: C03's own example requests meet every hypothesis of Compose_C03_key_of_is_C02_key (r0 and the unrelated
   request: different fingerprints, different C02 keys), and C03's example history replayed with C02's key as the hash
   function: stored, survives an unrelated request, the deletion of the output and a restart, then a hit. *)
Example Compose_C03_example :
  Model.HitModel.rq_lang Proofs.HitModel.C03Example.r0 = Model.HitModel.LangC /\
  Model.HitModel.rq_lang Proofs.HitModel.C03Example.rother = Model.HitModel.LangC /\
  wf_c the_spec (C03Ex.z_creq Proofs.HitModel.C03Example.r0) = true /\
  wf_c the_spec (C03Ex.z_creq Proofs.HitModel.C03Example.rother) = true /\
  extra_pp_ok (C03Ex.z_creq Proofs.HitModel.C03Example.r0) (C03Ex.z_creq Proofs.HitModel.C03Example.rother) = true /\
  (toyH (encode_c toyH the_spec (C03Ex.z_creq Proofs.HitModel.C03Example.r0))
   = toyH (encode_c toyH the_spec (C03Ex.z_creq Proofs.HitModel.C03Example.rother)) ->
   encode_c toyH the_spec (C03Ex.z_creq Proofs.HitModel.C03Example.r0)
   = encode_c toyH the_spec (C03Ex.z_creq Proofs.HitModel.C03Example.rother)) /\
  (C03Ex.z_digest (Model.HitModel.rq_compiler Proofs.HitModel.C03Example.r0)
   = C03Ex.z_digest (Model.HitModel.rq_compiler Proofs.HitModel.C03Example.rother) ->
   C03Ex.z_plusplus (Model.HitModel.rq_compiler Proofs.HitModel.C03Example.r0)
   = C03Ex.z_plusplus (Model.HitModel.rq_compiler Proofs.HitModel.C03Example.rother) ->
   tag_of the_spec (C03Ex.z_lang (Model.HitModel.rq_compiler Proofs.HitModel.C03Example.r0))
   = tag_of the_spec (C03Ex.z_lang (Model.HitModel.rq_compiler Proofs.HitModel.C03Example.rother)) ->
   C03Ex.z_extra (Model.HitModel.rq_compiler Proofs.HitModel.C03Example.r0)
   = C03Ex.z_extra (Model.HitModel.rq_compiler Proofs.HitModel.C03Example.rother) ->
   Model.HitModel.rq_compiler Proofs.HitModel.C03Example.r0
   = Model.HitModel.rq_compiler Proofs.HitModel.C03Example.rother) /\
  (C03Ex.z_pp (Model.HitModel.rq_inputs Proofs.HitModel.C03Example.r0)
   = C03Ex.z_pp (Model.HitModel.rq_inputs Proofs.HitModel.C03Example.rother) ->
   Model.HitModel.rq_inputs Proofs.HitModel.C03Example.r0 = Model.HitModel.rq_inputs Proofs.HitModel.C03Example.rother) /\
  Model.HitModel.fingerprint_of Proofs.HitModel.C03Example.r0
  <> Model.HitModel.fingerprint_of Proofs.HitModel.C03Example.rother /\
  C03Ex.z_key (Model.HitModel.fingerprint_of Proofs.HitModel.C03Example.r0)
  <> C03Ex.z_key (Model.HitModel.fingerprint_of Proofs.HitModel.C03Example.rother) /\
  Model.HitModel.oc_stored C03Ex.zo0 = true /\
  Model.HitModel.unrelated C03Ex.z_key Proofs.HitModel.C03Example.r0 Proofs.HitModel.C03Example.hist = true /\
  Model.HitModel.cached C03Ex.z_key C03Ex.zw2 Proofs.HitModel.C03Example.r0 = true /\
  Model.HitModel.fingerprint_of Proofs.HitModel.C03Example.r1
  = Model.HitModel.fingerprint_of Proofs.HitModel.C03Example.r0 /\
  Model.HitModel.oc_kind C03Ex.zo1 = Model.HitModel.KHit /\ Model.HitModel.oc_compiled C03Ex.zo1 = false /\
  Model.Lru.alookup Proofs.HitModel.C03Example.b_o (Model.HitModel.w_ws C03Ex.zw3) = Some 101.
Proof. exact C03Ex.z_instance. Qed.

(* C06 ⟵ C07: an (empty) start-up directory is acceptable, and after a put has run to completion the store is
   initialised — the branch of Compose_store_invariants that carries C07's invariant is reached. *)
Example Compose_store_example :
  Proofs.DiskCache.disk_ok store_ex_disk /\
  forallb Model.DiskCache.is_call store_ex_threads = true /\
  Model.DiskCache.inited
    (Model.DiskCache.ws (Model.DiskCache.exec (Model.DiskCache.start 100 store_ex_disk store_ex_threads)
                                              [0; 0; 0; 0; 1; 1]%nat)) = true.
Proof. exact store_ex_ok. Qed.

(* ====================================================================== C20 ⟵ C11 (beyond the cut connection) *)

(* A client that arrives after a stop request was polled — during the whole shutdown, while in-flight requests finish,
   and after termination — is refused (C20_late_client_cold_starts), cold-starts a fresh server that reports the
   requested address (C11_server_reports_requested_address) and, reaching its listener within the retries, gets the
   CompileFinished frame it is sent (C11_cold_start_delivers): the user sees the compile result, not an error. *)
Theorem Compose_C20_late_client_gets_result :
  forall (t cap : N) (evs : list ServerLife.levent) (c : N) (evs' : list ServerLife.levent) 
    (a : Client.saddr) (later : list Client.conn_attempt) (opq : N -> list N -> bool) 
    (ignore_io : bool) (f : Client.finished) (tail : list N) (e : Client.ending),
  let s := ServerLife.lexec (ServerLife.linit t cap) evs in
  ServerLife.lphase s = ServerLife.Serving ->
  ServerLife.has_conn c (ServerLife.lconns s) = true ->
  let s2 :=
    ServerLife.lexec (ServerLife.lstep (ServerLife.lstep s (ServerLife.LRequest c true)) ServerLife.LPoll) evs'
    in
  Client.connect_with_retry later = true ->
  Client.wf_finished f ->
  Client.blen (Client.encode_finished f) < 4294967296 ->
  Client.compile_process opq ignore_io (ServerExit.arrival s2) (Client.report_of_started_server a) later
    (Client.frame (Client.encode_compile_response Client.CompileStarted) ++
     Client.frame (Client.encode_finished f) ++ tail) e = Client.PCompile (Client.ReturnFinished f).
Proof. exact Proofs.ComposeC20.late_client_gets_result. Qed.
Print Assumptions Compose_C20_late_client_gets_result.

(* the same for ANY way the serving phase ended (idle expiry included): C20_not_serving_refuses + C11 *)
Theorem Compose_C20_not_serving_client_gets_result :
  forall (s : ServerLife.lst) (evs : list ServerLife.levent) (a : Client.saddr)
    (later : list Client.conn_attempt) (opq : N -> list N -> bool) (ignore_io : bool) 
    (f : Client.finished) (tail : list N) (e : Client.ending),
  ServerExit.connect_ok s = false ->
  Client.connect_with_retry later = true ->
  Client.wf_finished f ->
  Client.blen (Client.encode_finished f) < 4294967296 ->
  Client.compile_process opq ignore_io (ServerExit.arrival (ServerLife.lexec s evs))
    (Client.report_of_started_server a) later
    (Client.frame (Client.encode_compile_response Client.CompileStarted) ++
     Client.frame (Client.encode_finished f) ++ tail) e = Client.PCompile (Client.ReturnFinished f).
Proof. exact Proofs.ComposeC20.not_serving_client_gets_result. Qed.
Print Assumptions Compose_C20_not_serving_client_gets_result.

(* ====================================================================== C09 ⟵ C07 *)

(* The storage-fault classes of the request machine's result put (Model/ReqSM.v f_put) are the outcomes of the real
   store's put protocol (Model/LruPut.v put), [fault_class]: stored ↦ WNone, refused as too large ↦ WTooLarge, write
   failed / commit refused / other refusal ↦ WErr.  An entry larger than the whole cache is WTooLarge and leaves the
   store untouched (C07_too_large_refused); a failing write of an accepted entry is WErr; after ANY history of stores
   and lookups — failing writes included — from the open of ANY directory, a store that fits the configured size is
   WNone and indexed (C07_put_never_wedges); the class is never WReadOnly / WPanic. *)
Theorem Compose_C09_put_fault_classes :
  (forall (s : Lru.st) (k : Lru.key) (n : N) (wf : option N),
   Lru.cap s < n ->
   ComposeC09C07.fault_class (snd (LruPut.put s k n wf)) = Model.ReqSM.WTooLarge /\
   fst (LruPut.put s k n wf) = s) /\
  (forall (s : Lru.st) (k : Lru.key) (n m : N),
   snd (Lru.prepare_add s k n) = Lru.ROk ->
   ComposeC09C07.fault_class (snd (LruPut.put s k n (Some m))) = Model.ReqSM.WErr) /\
  (forall (s0 : Lru.st) (c : N) (ops : list LruPut.dop) (k : Lru.key) (n : N),
   n <= c ->
   ComposeC09C07.fault_class (snd (LruPut.put (LruPut.drun (Lru.reopen s0 c) ops) k n None)) =
   Model.ReqSM.WNone /\
   Lru.alookup k (Lru.index (fst (LruPut.put (LruPut.drun (Lru.reopen s0 c) ops) k n None))) = Some n) /\
  (forall (s : Lru.st) (k : Lru.key) (n : N) (wf : option N),
   ComposeC09C07.fault_class (snd (LruPut.put s k n wf)) <> Model.ReqSM.WReadOnly /\
   ComposeC09C07.fault_class (snd (LruPut.put s k n wf)) <> Model.ReqSM.WPanic).
Proof. exact Proofs.ComposeC09C07.put_fault_classes. Qed.
Print Assumptions Compose_C09_put_fault_classes.

(* C09_repopulates with its "the faults have stopped" premise discharged by C07 for the result store: after ANY store
   history, the fault assignment a fault-free compile of a unit whose packed entry fits the configured size sees
   ([store_faults], computed from LruPut.put on the reachable store state) IS no_faults; so the first request
   re-populates the cache and the second is a hit that runs no compiler. *)
Theorem Compose_C09_repopulates_after_any_store_history :
  forall (w : Model.ReqSM.world) (st : Model.ReqSM.cstate) (t : N) (s0 : Lru.st) 
    (c : N) (ops : list LruPut.dop) (k : Lru.key) (n : N),
  Proofs.ReqSM.consistent w ->
  Proofs.ReqSM.Inv w st ->
  Proofs.ReqSM.sane (w t) ->
  Proofs.ReqSM.calm_oracle (w t) ->
  Model.ReqSM.cs_ro st = false ->
  Model.ReqSM.o_pp_status (w t) = 0 ->
  Model.ReqSM.o_c_status (w t) = 0 ->
  Model.ReqSM.o_cacheable (w t) = true ->
  n <= c ->
  let f := ComposeC09C07.store_faults (LruPut.drun (Lru.reopen s0 c) ops) k n None in
  f = Model.ReqSM.no_faults /\
  (let
   '(st1, r1, _) := Model.ReqSM.request f Model.ReqSM.QCompile Model.ReqSM.CCDefault (w t) st in
    let
    '(_, r2, _) := Model.ReqSM.request f Model.ReqSM.QCompile Model.ReqSM.CCDefault (w t) st1 in
     Model.ReqSM.kv_get (Model.ReqSM.o_key (w t)) (Model.ReqSM.cs_res st1) =
     Some
       (Model.ReqSM.RGood (Model.ReqSM.o_c_stdout (w t)) (Model.ReqSM.o_c_stderr (w t))
          (Model.ReqSM.o_c_outputs (w t))) /\
     Proofs.ReqSM.transparent (w t) r1 /\
     Proofs.ReqSM.is_hit_of (w t) r2 /\ Proofs.ReqSM.transparent (w t) r2).
Proof. exact Proofs.ComposeC09C07.repopulates_after_any_store_history. Qed.
Print Assumptions Compose_C09_repopulates_after_any_store_history.

(* Whatever the real store answers to THIS request's put (too large, write error after any number of bytes, commit
   refused), the client gets the compiler's own result (C09_faults_transparent), and the store is not wedged by it
   (C07_put_never_wedges): nothing stays reserved and every later put that fits is accepted and indexed. *)
Theorem Compose_C09_store_fault_transparent_and_recovers :
  forall (w : Model.ReqSM.world) (st : Model.ReqSM.cstate) (t : N) (f0 : Model.ReqSM.faults)
    (cl : Model.ReqSM.req_class) (cc : Model.ReqSM.cache_control) (s0 : Lru.st) 
    (c : N) (ops : list LruPut.dop) (k : Lru.key) (n : N) (wf : option N),
  Proofs.ReqSM.consistent w ->
  Proofs.ReqSM.Inv w st ->
  Proofs.ReqSM.sane (w t) ->
  Model.ReqSM.f_outdir_ok f0 = true ->
  Proofs.ReqSM.calm f0 (w t) ->
  let s := LruPut.drun (Lru.reopen s0 c) ops in
  let f := ComposeC09C07.with_put f0 (ComposeC09C07.fault_class (snd (LruPut.put s k n wf))) in
  Proofs.ReqSM.transparent (w t) (snd (fst (Model.ReqSM.request f cl cc (w t) st))) /\
  (let s' := fst (LruPut.put s k n wf) in
   Lru.inv s' /\
   Lru.handles s' = [] /\
   Lru.pending_size s' = 0 /\
   (forall (k' : Lru.key) (n' : N),
    n' <= c ->
    snd (LruPut.put s' k' n' None) = LruPut.POk /\
    Lru.alookup k' (Lru.index (fst (LruPut.put s' k' n' None))) = Some n')).
Proof. exact Proofs.ComposeC09C07.store_fault_transparent_and_recovers. Qed.
Print Assumptions Compose_C09_store_fault_transparent_and_recovers.

(* ====================================================================== C01 ⟵ C08 ⟵ C10 *)

(* C10_hit_installs_stored_bytes NAMES the hypothesis "what get_object wrote is the complete stored member"; C08_roundtrip
   proves it for the real container.  [decodes file o]: the description o of one get_object call in Model/Extract.v is
   what Model/Zip.v's unpack computed for that member (decoded with that mode, the chunks — in any chunking — being
   exactly the content; or absent).  Then, for an entry packed from objs0 / stdout / stderr and an extraction that runs
   to Ok: unpack returns the stored stdout and stderr, and every regular output path holds the stored object's bytes
   and is given the stored permission bits. *)
Theorem Compose_C10_hit_installs_compiled_bytes :
  forall (compress : list N -> list N) (decompress : list N -> option (list N)),
  (forall x : list N, decompress (compress x) = Some x) ->
  forall (objs0 : list (list N * option N * list N)) (stdout stderr : list N) (reqs : list (list N * bool))
    (f0 : FsModel.fs) (objs : list Extract.obj) (readers : list FsModel.thread) (sched : list nat),
  Zip.objs_ok objs0 ->
  Zip.writable (Zip.cache_members compress objs0 stdout stderr) = true ->
  Zip.no_z64_locator (Zip.cache_write compress objs0 stdout stderr) = true ->
  map fst reqs = map Zip.obj_name objs0 ->
  match Zip.unpack decompress (Zip.cache_write compress objs0 stdout stderr) reqs with
  | Zip.UHit _ _ files => Forall2 ComposeHitBytes.decodes files objs
  | _ => False
  end ->
  FsModel.fs_okb f0 = true ->
  Extract.outputs_okb objs = true ->
  forallb (Extract.observerb f0) readers = true ->
  NoDup (map Extract.o_path objs) ->
  forall (l : Extract.local) (rs : list (Extract.local * list Extract.action)),
  snd (Extract.run sched f0 objs readers) = (l, []) :: rs ->
  Extract.l_dead l = false ->
  (exists files : list (option (option N * list N)),
     Zip.unpack decompress (Zip.cache_write compress objs0 stdout stderr) reqs = Zip.UHit stdout stderr files) /\
  Forall2
    (fun (o0 : list N * option N * list N) (o : Extract.obj) =>
     Extract.o_special o = false ->
     FsModel.content (fst (Extract.run sched f0 objs readers)) (Extract.o_path o) = Some (Zip.obj_content o0) /\
     Extract.o_dec o = Extract.DecOk (Some (Zip.perm_of (Zip.obj_mode o0)))) objs0 objs.
Proof. exact Proofs.ComposeHitBytes.hit_installs_compiled_bytes. Qed.
Print Assumptions Compose_C10_hit_installs_compiled_bytes.

(* The whole hit, three models chained: the request machine answers from the cache (C01_hit_returns_stored_entry: the
   entry stored under the request's key — stdout so, stderr se, objects outs; no compiler run); for the bytes of that
   entry as CacheWrite packs them, unpacking gives so and se (C08) and the extraction leaves, at every regular output
   path, exactly the content recorded at store time (C10). *)
Theorem Compose_C01_hit_end_to_end :
  forall (compress : list N -> list N) (decompress : list N -> option (list N)),
  (forall x : list N, decompress (compress x) = Some x) ->
  forall (f : ReqSM.faults) (cc : ReqSM.cache_control) (o : ReqSM.oracle) (st : ReqSM.cstate),
  ReqSM.r_outcome (snd (ReqSM.execute f cc o st)) = Some Stats.OHit ->
  exists (st1 : ReqSM.cstate) (pp : N) (k : ReqSM.key) (so se : ReqSM.bytes) (outs : ReqSM.outputs),
    ReqSM.generate_hash_key f cc o st = (st1, ReqSM.HKKey k, pp) /\
    ReqSM.kv_get k (ReqSM.cs_res st1) = Some (ReqSM.RGood so se outs) /\
    ReqSM.r_client (snd (ReqSM.execute f cc o st)) = ReqSM.CFinished 0 so se /\
    ReqSM.r_outputs (snd (ReqSM.execute f cc o st)) = outs /\
    ReqSM.r_cc_runs (snd (ReqSM.execute f cc o st)) = 0 /\
    (forall (mode_of : list N -> option N) (reqs : list (list N * bool)) (f0 : FsModel.fs)
       (objs : list Extract.obj) (readers : list FsModel.thread) (sched : list nat),
     let objs0 := map (fun nc : list N * list N => (fst nc, mode_of (fst nc), snd nc)) outs in
     Zip.objs_ok objs0 ->
     Zip.writable (Zip.cache_members compress objs0 so se) = true ->
     Zip.no_z64_locator (Zip.cache_write compress objs0 so se) = true ->
     map fst reqs = map Zip.obj_name objs0 ->
     match Zip.unpack decompress (Zip.cache_write compress objs0 so se) reqs with
     | Zip.UHit _ _ files => Forall2 ComposeHitBytes.decodes files objs
     | _ => False
     end ->
     FsModel.fs_okb f0 = true ->
     Extract.outputs_okb objs = true ->
     forallb (Extract.observerb f0) readers = true ->
     NoDup (map Extract.o_path objs) ->
     forall (l : Extract.local) (rs : list (Extract.local * list Extract.action)),
     snd (Extract.run sched f0 objs readers) = (l, []) :: rs ->
     Extract.l_dead l = false ->
     (exists files : list (option (option N * list N)),
        Zip.unpack decompress (Zip.cache_write compress objs0 so se) reqs = Zip.UHit so se files) /\
     Forall2
       (fun (nc : list N * list N) (ob : Extract.obj) =>
        Extract.o_special ob = false ->
        FsModel.content (fst (Extract.run sched f0 objs readers)) (Extract.o_path ob) = Some (snd nc)) outs objs).
Proof. exact Proofs.ComposeHitBytes.hit_end_to_end. Qed.
Print Assumptions Compose_C01_hit_end_to_end.

(* ====================================================================== non-vacuity (second group) *)

(* C20 ⟵ C11: connection 2 asks the server to stop while connection 1's compile is in flight; every hypothesis of
   Compose_C20_late_client_gets_result holds and the late arrival is refused *)
Example Compose_C20_example :
  ServerLife.lphase (ServerLife.lexec (ServerLife.linit 0 10000) ComposeEx2.C20Ex.evs) = ServerLife.Serving /\
  ServerLife.has_conn 2 (ServerLife.lconns (ServerLife.lexec (ServerLife.linit 0 10000) ComposeEx2.C20Ex.evs)) =
  true /\
  Client.connect_with_retry ComposeEx2.C20Ex.later = true /\
  Client.wf_finished ComposeEx2.C20Ex.fin /\
  Client.blen (Client.encode_finished ComposeEx2.C20Ex.fin) < 4294967296 /\
  ServerExit.arrival
    (ServerLife.lexec
       (ServerLife.lstep
          (ServerLife.lstep (ServerLife.lexec (ServerLife.linit 0 10000) ComposeEx2.C20Ex.evs)
             (ServerLife.LRequest 2 true)) ServerLife.LPoll) ComposeEx2.C20Ex.evs') = Client.ARefused.
Proof. exact Proofs.ComposeEx2.C20Ex.instance. Qed.

(* C09 ⟵ C07: C09's demo world and a store history with a write failing after 3 bytes, an entry larger than the cache
   and a good store: the hypotheses of the three theorems hold, the three classes occur, and after the history the
   request machine sees no_faults *)
Example Compose_C09C07_example :
  ReqSM.consistent ReqSM.demo_oracle /\
  ReqSM.Inv ReqSM.demo_oracle ReqSM.empty_cache /\
  ReqSM.sane (ReqSM.demo_oracle 3) /\
  ReqSM.calm_oracle (ReqSM.demo_oracle 3) /\
  ReqSM.cs_ro ReqSM.empty_cache = false /\
  ReqSM.o_pp_status (ReqSM.demo_oracle 3) = 0 /\
  ReqSM.o_c_status (ReqSM.demo_oracle 3) = 0 /\
  ReqSM.o_cacheable (ReqSM.demo_oracle 3) = true /\
  40 <= 100 /\
  ComposeC09C07.fault_class
    (snd (LruPut.put (Lru.reopen (Lru.empty 100) 100) ComposeEx2.C09C07Ex.ka 40 (Some 3))) = ReqSM.WErr /\
  ComposeC09C07.fault_class (snd (LruPut.put (Lru.reopen (Lru.empty 100) 100) ComposeEx2.C09C07Ex.kb 200 None)) =
  ReqSM.WTooLarge /\
  ComposeC09C07.store_faults (LruPut.drun (Lru.reopen (Lru.empty 100) 100) ComposeEx2.C09C07Ex.hist)
    ComposeEx2.C09C07Ex.ka 40 None = ReqSM.no_faults /\
  ReqSM.f_outdir_ok ReqSM.no_faults = true /\ ReqSM.calm ReqSM.no_faults (ReqSM.demo_oracle 3).
Proof. exact Proofs.ComposeEx2.C09C07Ex.instance. Qed.

(* C01 ⟵ C08 ⟵ C10: C08's example entry (obj 0o755, dwo 0o644) extracted in two writes / one write over an existing
   output: every hypothesis of Compose_C10_hit_installs_compiled_bytes holds and the outputs hold the stored bytes *)
Example Compose_hit_bytes_example :
  (forall x : list N, Zip.ex_decompress (Zip.ex_compress x) = Some x) /\
  Zip.objs_ok Zip.ex_objs /\
  Zip.writable (Zip.cache_members Zip.ex_compress Zip.ex_objs [] Zip.ex_stderr) = true /\
  Zip.no_z64_locator (Zip.cache_write Zip.ex_compress Zip.ex_objs [] Zip.ex_stderr) = true /\
  map fst Zip.ex_reqs = map Zip.obj_name Zip.ex_objs /\
  match
    Zip.unpack Zip.ex_decompress (Zip.cache_write Zip.ex_compress Zip.ex_objs [] Zip.ex_stderr) Zip.ex_reqs
  with
  | Zip.UHit _ _ files => Forall2 ComposeHitBytes.decodes files ComposeEx2.HitEx.objs
  | _ => False
  end /\
  FsModel.fs_okb ComposeEx2.HitEx.f0 = true /\
  Extract.outputs_okb ComposeEx2.HitEx.objs = true /\
  forallb (Extract.observerb ComposeEx2.HitEx.f0) [] = true /\
  NoDup (map Extract.o_path ComposeEx2.HitEx.objs) /\
  match snd (Extract.run ComposeEx2.HitEx.sched ComposeEx2.HitEx.f0 ComposeEx2.HitEx.objs []) with
  | [] => False
  | (l, []) :: _ => Extract.l_dead l = false
  | (l, _ :: _) :: _ => False
  end /\
  FsModel.content (fst (Extract.run ComposeEx2.HitEx.sched ComposeEx2.HitEx.f0 ComposeEx2.HitEx.objs []))
    ComposeEx2.HitEx.pa = Some [127; 69; 76; 70] /\
  FsModel.content (fst (Extract.run ComposeEx2.HitEx.sched ComposeEx2.HitEx.f0 ComposeEx2.HitEx.objs []))
    ComposeEx2.HitEx.pb = Some [1; 2].
Proof. exact Proofs.ComposeEx2.HitEx.instance. Qed.

(* ====================================================================== C15 ⟵ C07 (and C06) *)

(* A READ-ONLY server (any configured size c' >= the read-write size c) opened on the directory left by ANY history of
   the read-write store — DiskCache::put / put_preprocessor_cache_entry / get of Model/LruPut.v, with any number of
   failing writes, from the open of any acceptable directory:
     - C15_hits_served_always' premises hold for that directory: canonical listing (ksortedb) and total size within the
       configured size — from C07's [good], kept by every step of the put protocol (Proofs/ComposeC15.v good_drun) and
       the sizes-sum lemma (files_fit);
     - no store is in flight and the directory is exactly the index (every file is a complete, indexed entry of the
       indexed size: no temp or partial file exists);
     - the (path, size) listing stays literally the same list at every point of any read-only history, and every entry
       the read-write store had indexed is served by both stores (result store: hit; preprocessor store: found);
     - no history of read-only calls, whole requests and read-only restarts changes an entry or a directory (C15_frozen). *)
Theorem Compose_C15_ro_open_serves_rw_history :
  forall (s0 : Lru.st) (c : N) (hist : list LruPut.dop) (c' psz clk0 : N) (cs : list (Lru.key * N))
    (ds : Model.RoCache.dset) (ops : list Model.RoCache.op) (l : list Model.RoCache.item),
  Lru.dir_ok s0 ->
  c <= c' ->
  let s := LruPut.drun (Lru.reopen s0 c) hist in
  let d := Model.RoCache.start false c' psz (Lru.files s) cs ds clk0 in
  forallb (Proofs.RoCache.ro_op_fits (Model.RoCache.total_size (Lru.files s))) ops = true ->
  forallb Model.RoCache.ro_item l = true ->
  let d' := Model.RoCache.run d ops in
  Lru.handles s = [] /\
  Proofs.RoCache.ksortedb (Model.RoCache.fs d) = true /\
  Model.RoCache.total_size (Model.RoCache.fs d) <= Model.RoCache.dcap d /\
  (forall (k : Lru.key) (sz : N),
   Lru.alookup k (Lru.index s) = Some sz <-> (exists mt : N, Lru.alookup k (Lru.files s) = Some (sz, mt))) /\
  map Proofs.RoCache.proj (Model.RoCache.fs d') = map Proofs.RoCache.proj (Lru.files s) /\
  (forall (k : Lru.key) (sz : N),
   (Lru.alookup (Model.RoCache.main_path k) (Lru.index s) = Some sz ->
    Lru.is_temp (Model.RoCache.main_path k) = false ->
    Model.RoCache.min_entry <= sz -> snd (Model.RoCache.step d' (Model.RoCache.Get k)) = Model.RoCache.OHit) /\
   (Lru.alookup (Model.RoCache.pp_path k) (Lru.index s) = Some sz ->
    Lru.is_temp (Model.RoCache.pp_path k) = false ->
    snd (Model.RoCache.step d' (Model.RoCache.PpGet k)) = Model.RoCache.OFound)) /\
  (forall p : Lru.key, Model.RoCache.entry (Model.RoCache.run_items d l) p = Model.RoCache.entry d p) /\
  Model.RoCache.dirs (Model.RoCache.run_items d l) = Model.RoCache.dirs d.
Proof. exact Proofs.ComposeC15.ro_open_serves_rw_history. Qed.
Print Assumptions Compose_C15_ro_open_serves_rw_history.

(* The same for the Lru component of EVERY reachable state of the concurrent store of Model/DiskCache.v (C06: any calls,
   any schedule, any crash point — `files (lru w)` is literally `d_files (persist w)`, the entry files a crash at that
   state leaves), once the lazy init has run, through Compose_store_invariants.
   PARTIAL.  Full statement: "... and the temp files of the calls in flight at the crash, which Model/DiskTree.v leaves
   in the tree as ordinary files `<dir>/.sccachetmp<id>`, are never served and never deleted by the read-only server".
   Missing: Model/DiskCache.v keeps temp files in a name space of their own (`tmps`), so the directory handed to the
   read-only open here does not contain them; the statement over DiskTree's tree needs a lemma relating RoCache's
   `fmap` to DiskTree's tree listing (RoCache.open_ro does skip `is_temp` names — ro_init_add — and C15_frozen holds for
   ANY start directory, temp files included, so only the "served" half is open for such trees). *)
Theorem Compose_C15_ro_open_serves_concurrent_store_partial :
  forall (c : N) (dk : DiskCache.disk) (ths : list DiskCache.thread) (sched : list nat) 
    (c' psz clk0 : N) (cs : list (Lru.key * N)) (ds : Model.RoCache.dset) (ops : list Model.RoCache.op),
  DiskCache.disk_ok dk ->
  forallb DiskCache.is_call ths = true ->
  let w := DiskCache.ws (DiskCache.exec (DiskCache.start c dk ths) sched) in
  let s := DiskCache.lru w in
  DiskCache.inited w = true ->
  Lru.cap s <= c' ->
  let d := Model.RoCache.start false c' psz (Lru.files s) cs ds clk0 in
  forallb (Proofs.RoCache.ro_op_fits (Model.RoCache.total_size (Lru.files s))) ops = true ->
  let d' := Model.RoCache.run d ops in
  Proofs.RoCache.ksortedb (Model.RoCache.fs d) = true /\
  Model.RoCache.total_size (Model.RoCache.fs d) <= Model.RoCache.dcap d /\
  map Proofs.RoCache.proj (Model.RoCache.fs d') = map Proofs.RoCache.proj (Lru.files s) /\
  (forall (k : Lru.key) (sz : N),
   (Lru.alookup (Model.RoCache.main_path k) (Lru.index s) = Some sz ->
    Lru.is_temp (Model.RoCache.main_path k) = false ->
    Model.RoCache.min_entry <= sz -> snd (Model.RoCache.step d' (Model.RoCache.Get k)) = Model.RoCache.OHit) /\
   (Lru.alookup (Model.RoCache.pp_path k) (Lru.index s) = Some sz ->
    Lru.is_temp (Model.RoCache.pp_path k) = false ->
    snd (Model.RoCache.step d' (Model.RoCache.PpGet k)) = Model.RoCache.OFound)).
Proof. exact Proofs.ComposeC15.ro_open_serves_concurrent_store. Qed.
Print Assumptions Compose_C15_ro_open_serves_concurrent_store_partial.

(* C15 ⟵ C07: a read-write history with a failing write and its retry, a refused oversized entry, a second entry, a
   preprocessor entry (failed, then stored) and a lookup; then a read-only server of size 120 with a history containing
   refused stores and a read-only restart: the hypotheses hold, all three entries are indexed and served, an unknown
   key is a miss *)
Example Compose_C15_example :
  Lru.dir_ok (Lru.empty 100) /\
  100 <= 120 /\
  forallb (Proofs.RoCache.ro_op_fits (Model.RoCache.total_size (Lru.files ComposeEx2.C15Ex.s)))
    ComposeEx2.C15Ex.ro_ops = true /\
  forallb Model.RoCache.ro_item (map Model.RoCache.IOp ComposeEx2.C15Ex.ro_ops) = true /\
  Lru.alookup (Model.RoCache.main_path ComposeEx2.C15Ex.k1) (Lru.index ComposeEx2.C15Ex.s) = Some 40 /\
  Lru.alookup (Model.RoCache.main_path ComposeEx2.C15Ex.k2) (Lru.index ComposeEx2.C15Ex.s) = Some 30 /\
  Lru.alookup (Model.RoCache.pp_path ComposeEx2.C15Ex.k1) (Lru.index ComposeEx2.C15Ex.s) = Some 10 /\
  Lru.is_temp (Model.RoCache.main_path ComposeEx2.C15Ex.k1) = false /\
  Model.RoCache.min_entry <= 40 /\
  snd (Model.RoCache.step ComposeEx2.C15Ex.d' (Model.RoCache.Get ComposeEx2.C15Ex.k1)) =
  Model.RoCache.OHit /\
  snd (Model.RoCache.step ComposeEx2.C15Ex.d' (Model.RoCache.Get ComposeEx2.C15Ex.k2)) =
  Model.RoCache.OHit /\
  snd (Model.RoCache.step ComposeEx2.C15Ex.d' (Model.RoCache.PpGet ComposeEx2.C15Ex.k1)) =
  Model.RoCache.OFound /\
  snd (Model.RoCache.step ComposeEx2.C15Ex.d' (Model.RoCache.Get [120; 121])) =
  Model.RoCache.OMiss.
Proof. exact Proofs.ComposeEx2.C15Ex.instance. Qed.

