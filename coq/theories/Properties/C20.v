(* Properties/C20.v — pinned statements for property C20:
   "One server per address: cold starts converge, shutdown is graceful".

   Startup model: n clients (any n) start against an address with no server; `sched` is ANY
   interleaving of their steps, of the steps of the servers they spawn, and of start-up time-outs;
   `r` is the number of connect_with_retry delays (10 in the code).  Because the statements hold
   for every schedule they hold at every point of every run ("ever").
   Partial: the kernel's bind / unlink / flock semantics are the model's assumptions (Model/Startup.v
   header), daemonisation and storage-initialisation failures are not modelled. *)
From Coq Require Import List NArith Bool.
From Sccache Require Import Model.Client.
From Sccache Require Import Model.Startup.
From Sccache Require Import Model.ServerLife.
From Sccache Require Import Proofs.Startup.
From Sccache Require Import Proofs.ServerLife.
From Sccache Require Import Model.ServerExit.
From Sccache Require Import Proofs.ServerExit.
From Sccache Require Import Model.MultiAddr.
From Sccache Require Import Proofs.MultiAddr.
Import ListNotations.
Local Open Scope N_scope.

(* TCP port.  (1) at most one server listens; (2) the listening server is the one the address reaches;
   (3) a connected client is connected to that server — unless its server exited because the client
   that spawned it had timed out (then the request fails over, property C11); (4) when nothing can move
   any more, every server process still alive is that one serving server: no loser is left behind;
   (5) without start-up time-outs, all n clients end connected to one and the same running server and
   every other spawned server has exited without ever having been bound. *)
Theorem C20_tcp_singleton : forall (r : nat) (n : N) (sched : list ev),
  let s := exec (init Tcp r n false) sched in
  (forall i j, listening (sv s i) = true -> listening (sv s j) = true -> i = j)
  /\ (forall i, listening (sv s i) = true -> listener s = Some i)
  /\ (forall c j, cl s c = CDone j ->
        listener s = Some j \/ (sv s j = SExited true /\ cl s j = CFail FTimeout))
  /\ (quiescentb n s = true -> forall i, live (sv s i) = true -> sv s i = SRunning /\ listener s = Some i)
  /\ (quiescentb n s = true -> no_timeouts sched = true -> 0 < n ->
      exists h, (forall c, c < n -> cl s c = CDone h) /\ sv s h = SRunning /\ listener s = Some h
                /\ (forall j, j <> h -> sv s j = SNone \/ sv s j = SExited false)).
Proof. exact tcp_singleton. Qed.
Print Assumptions C20_tcp_singleton.

(* Abstract Unix socket (exclusive bind, name released at exit): the same statement. *)
Theorem C20_abstract_singleton : forall (r : nat) (n : N) (sched : list ev),
  let s := exec (init Abstract r n false) sched in
  (forall i j, listening (sv s i) = true -> listening (sv s j) = true -> i = j)
  /\ (forall i, listening (sv s i) = true -> listener s = Some i)
  /\ (forall c j, cl s c = CDone j ->
        listener s = Some j \/ (sv s j = SExited true /\ cl s j = CFail FTimeout))
  /\ (quiescentb n s = true -> forall i, live (sv s i) = true -> sv s i = SRunning /\ listener s = Some i)
  /\ (quiescentb n s = true -> no_timeouts sched = true -> 0 < n ->
      exists h, (forall c, c < n -> cl s c = CDone h) /\ sv s h = SRunning /\ listener s = Some h
                /\ (forall j, j <> h -> sv s j = SNone \/ sv s j = SExited false)).
Proof. exact abstract_singleton. Qed.
Print Assumptions C20_abstract_singleton.

(* The lock on <path>.lock is owned by the listener (net::LockedUnixListener, fix of finding C20-S21): it is held
   exactly while the server listens, which is what the model's `lock` field means — a server that has entered its
   shutdown phase (ServerLife.Draining) counts as exited here, and a fresh server may take the path over.
   Unix socket PATH with the lock (the code after the fix of finding S11), with or without a stale socket
   file lying around.  (1)-(4) as above for every schedule.  (5) needs, besides "no start-up time-out",
   that no client ran out of connect retries: a loser's client may poll while the lock holder has not yet
   bound (see C20_uds_retry_needs_timing); so (5) is stated for runs in which no client failed. *)
Theorem C20_uds_singleton : forall (r : nat) (n : N) (stale : bool) (sched : list ev),
  let s := exec (init (UdsPath true) r n stale) sched in
  (forall i j, listening (sv s i) = true -> listening (sv s j) = true -> i = j)
  /\ (forall i, listening (sv s i) = true -> listener s = Some i)
  /\ (forall c j, cl s c = CDone j ->
        listener s = Some j \/ (sv s j = SExited true /\ cl s j = CFail FTimeout))
  /\ (quiescentb n s = true -> forall i, live (sv s i) = true -> sv s i = SRunning /\ listener s = Some i)
  /\ (quiescentb n s = true -> (forall c f, cl s c <> CFail f) -> 0 < n ->
      exists h, (forall c, c < n -> cl s c = CDone h) /\ sv s h = SRunning /\ listener s = Some h
                /\ (forall j, j <> h -> sv s j = SNone \/ sv s j = SExited false)).
Proof. exact uds_singleton. Qed.
Print Assumptions C20_uds_singleton.

(* Finding S11 (confirmed on the real binary before the fix; the recorded trace is in corpus/C20/race.sx):
   WITHOUT the lock, unlink-then-bind lets two clients end up with two running servers, each connected to
   its own, only the later one reachable at the address. *)
Theorem C20_uds_unlocked_refuted : exists sched,
  let s := exec (init (UdsPath false) 10 2 false) sched in
  quiescentb 2 s = true /\ no_timeouts sched = true
  /\ sv s 0 = SRunning /\ sv s 1 = SRunning
  /\ cl s 0 = CDone 0 /\ cl s 1 = CDone 1 /\ listener s = Some 1.
Proof. exact uds_unlocked_refuted. Qed.
Print Assumptions C20_uds_unlocked_refuted.

(* Why (5) of C20_uds_singleton has the extra hypothesis: a schedule without any start-up time-out in which
   a client burns its 11 connect attempts between the winner's lock and the winner's bind. *)
Theorem C20_uds_retry_needs_timing : exists sched,
  no_timeouts sched = true /\
  cl (exec (init (UdsPath true) 10 2 false) sched) 1 = CFail FRetry.
Proof. exact uds_retry_needs_timing. Qed.
Print Assumptions C20_uds_retry_needs_timing.

(* No livelock, for every kind of address and every schedule: a run of n clients has at most n * (r + 10)
   steps that do anything (`effective` counts the steps whose outcome label is not "nothing happened"), and
   whatever can still move according to `quiescentb` does make such a step when scheduled.  So every fair
   run reaches the quiescent states the theorems above speak about. *)
Theorem C20_startup_terminates : forall (a : akind) (r : nat) (n : N) (stale : bool) (sched : list ev),
  (effective (init a r n stale) sched <= N.to_nat n * (r + 10))%nat
  /\ (forall s i, client_enabled s i = true -> ev_label s (EC i) <> 0)
  /\ (forall s i, server_enabled s i = true -> ev_label s (ES i) <> 0).
Proof.
  intros. split; [apply startup_terminates|]. split; intros s i; apply (enabled_effective s i).
Qed.
Print Assumptions C20_startup_terminates.

(* Life cycle model: T = idle timeout, cap = the shutdown-phase cap, evs = ANY sequence of clock ticks,
   connections, requests, completions, closes and polls.  `llast_recv` is the time of the last request
   RECEIVED while serving (0 = server start). *)

(* An idle shutdown never begins before last-received-request + T (and never when T = 0). *)
Theorem C20_idle_not_before : forall (t cap : N) (evs : list levent) (since : N),
  let s := lexec (linit t cap) evs in
  idle_since s = Some since -> t <> 0 /\ llast_recv s + t <= since.
Proof. exact idle_not_before. Qed.
Print Assumptions C20_idle_not_before.

(* ... and with prompt polling (the runtime polls as soon as a message is queued or the timer fires, and
   the clock does not run past a pending wake-up) it begins exactly then. *)
Theorem C20_idle_exact : forall (t cap : N) (evs : list levent) (since : N),
  let s := lexec (linit t cap) evs in
  prompt (linit t cap) evs = true ->
  idle_since s = Some since -> t <> 0 /\ since = llast_recv s + t.
Proof. exact idle_exact. Qed.
Print Assumptions C20_idle_exact.

(* A stop request on an open connection of a serving server puts it into the shutdown phase at the next
   poll, whatever else is queued; from then on (any further events evs') it never serves again; it
   terminates as soon as it is polled with no connection left or with the cap expired; and if it has
   terminated, either no connection was cut or the cap had fully elapsed (the clients of the cut
   connections see EOF: property C11). *)
Theorem C20_stop_waits : forall (t cap : N) (evs : list levent) (c : N) (evs' : list levent),
  let s := lexec (linit t cap) evs in
  lphase s = Serving -> has_conn c (lconns s) = true ->
  let s1 := lstep (lstep s (LRequest c true)) LPoll in
  lphase s1 = Draining (lnow s) RStop /\
  let s2 := lexec s1 evs' in
  match lphase s2 with
  | Serving => False
  | Draining since r =>
      since = lnow s /\ r = RStop /\
      ((lconns s2 = [] \/ since + cap <= lnow s2) ->
       exists cut, lphase (lstep s2 LWake) = Terminated since (lnow s2) r cut)
  | Terminated since fin r cut =>
      since = lnow s /\ r = RStop /\ (cut = [] \/ since + cap <= fin)
  end.
Proof. exact stop_waits. Qed.
Print Assumptions C20_stop_waits.

(* The idle clause counts REQUESTS, not connections: with prompt polling the server is never still serving later than
   last-received-request + T, whatever connections are open (a client that connects and stays silent does not re-arm
   anything: LAccept is not in the timer's alphabet); and once the idle shutdown phase has begun, connections that
   are still open delay the exit by at most the cap. *)
Theorem C20_silent_connection_does_not_keep_alive :
  forall (t cap : N) (evs : list levent),
  let s := lexec (linit t cap) evs in
  (prompt (linit t cap) evs = true -> t <> 0 -> lphase s = Serving -> lnow s <= llast_recv s + t)
  /\ (forall since, lphase s = Draining since RIdle -> since + lcap s <= lnow s ->
       exists cut, lphase (lstep s LWake) = Terminated since (lnow s) RIdle cut).
Proof.
  intros t cap evs s. split; [apply serving_bounded | intros since; apply idle_drain_ends].
Qed.
Print Assumptions C20_silent_connection_does_not_keep_alive.

(* ---------- clients at the seams: start-up report, arrival during shutdown, cut connections (Model/ServerExit.v) ---------- *)

(* The Startup model lets a waiting client proceed on the mailbox values StOk | StInUse.  In the code that is:
   for EVERY requested address `a` — TCP port, Unix socket path in any spelling (bytes, nothing assumed: symlinked
   directory, `..`, doubled separators), abstract name — the server that bound for `a` reports an address the
   client's string comparison accepts, so the client that spawned it proceeds; a client proceeds exactly on the
   reports that map into the model's alphabet; and a report of the address in ANOTHER spelling would make the
   spawner bail (exit 2) although its server runs. *)
Theorem C20_started_server_report_proceeds : forall (a : saddr) (rep : startup_report) (later : list conn_attempt),
  (status_of_report (report_of_started_server a) = Some StOk /\ spawner_proceeds a = true)
  /\ (connect_with_retry later = true ->
      (connect_or_start ARefused rep later = None <-> status_of_report rep <> None))
  /\ (connect_or_start ARefused (SOk false) later = Some EWrongAddr /\ status_of_report (SOk false) = None).
Proof.
  intros a rep later. split; [apply started_server_report_ok|]. split; [apply proceeds_iff_status|].
  apply other_spelling_bails.
Qed.
Print Assumptions C20_started_server_report_proceeds.

(* On a Unix socket PATH this relies on the lock being released with the listener (C20-S21, fixed by 13fa361): while
   the old process still runs, the fresh server gets the lock, unlinks the dead socket file and binds.
   After a stop request has been polled — during the whole shutdown phase, while in-flight requests finish, and
   after termination — the address is no longer served by this server: a client that arrives is REFUSED (it is
   not queued behind a listener nobody accepts from), no connection is ever added, and by the start-up table the
   late client cold-starts a fresh server for the same address (any spelling) and proceeds. *)
Theorem C20_late_client_cold_starts : forall (t cap : N) (evs : list levent) (c : N) (evs' : list levent)
                                             (a : saddr) (later : list conn_attempt),
  let s := lexec (linit t cap) evs in
  lphase s = Serving -> has_conn c (lconns s) = true ->
  let s1 := lstep (lstep s (LRequest c true)) LPoll in
  let s2 := lexec s1 evs' in
  arrival s2 = ARefused
  /\ (forall c', has_conn c' (lconns s2) = true -> has_conn c' (lconns s1) = true)
  /\ (connect_with_retry later = true ->
      connect_or_start (arrival s2) (report_of_started_server a) later = None).
Proof. exact late_client_cold_starts. Qed.
Print Assumptions C20_late_client_cold_starts.

(* The same for ANY way the serving phase ended (idle expiry included): once not serving, never connectable again. *)
Theorem C20_not_serving_refuses : forall (s : lst) (evs : list levent) (a : saddr) (later : list conn_attempt),
  connect_ok s = false ->
  arrival (lexec s evs) = ARefused /\
  (connect_with_retry later = true ->
   connect_or_start (arrival (lexec s evs)) (report_of_started_server a) later = None).
Proof. exact not_serving_refuses. Qed.
Print Assumptions C20_not_serving_refuses.

(* A connection with a request in flight that is cut at termination was cut no earlier than drain start + cap,
   and its client — which has the CompileStarted frame and ANY proper prefix of the CompileFinished frame, ending
   inside the 4-byte length header, right after it, or anywhere inside the payload — runs the compile locally
   and returns its status (with or without SCCACHE_IGNORE_SERVER_IO_ERROR). *)
Theorem C20_cut_connection_falls_back :
  forall (t cap : N) (evs : list levent) (since fin : N) (r : reason) (cut : list (N * bool)) (c : N)
         (opq : N -> list N -> bool) (ignore_io : bool) (f : finished) (k : nat) (local : N),
  lphase (lexec (linit t cap) evs) = Terminated since fin r cut ->
  In (c, true) cut ->
  blen (encode_finished f) < 4294967296 ->
  (k < length (frame (encode_finished f)))%nat ->
  since + cap <= fin
  /\ cut_client opq ignore_io f k = RunLocally LEofAfterAck
  /\ exit_code (cut_client opq ignore_io f k) local = local.
Proof. exact cut_connection_falls_back. Qed.
Print Assumptions C20_cut_connection_falls_back.

(* ---------- several addresses at once (Model/MultiAddr.v) ---------- *)

(* One server per ADDRESS, and addresses do not interfere: any set `l` of Unix-socket addresses in use at the same
   time, one start-up race per address, ONE lock table keyed by the lock-file name `lock_name p = p ++ ".lock"`.
   Whatever the common schedule, each address goes through exactly its own schedule run alone — so
   C20_uds_singleton (at most one server, nobody left behind, convergence) holds for every address separately. *)
Theorem C20_addresses_do_not_interfere :
  forall (r : nat) (n : N) (l : list path) (sched : list (path * ev)) (a : path),
  sts (mexec lock_name (winit (UdsPath true) r n l) sched) a = exec (init (UdsPath true) r n false) (proj a sched).
Proof. intros. apply independent_init. apply lock_name_injective_on. Qed.
Print Assumptions C20_addresses_do_not_interfere.

(* ... for ANY way of naming the lock file that gives different paths different files, and ".lock" appended does. *)
Theorem C20_lock_name_injective :
  (forall p q : path, lock_name p = lock_name q -> p = q)
  /\ (forall (ln : path -> path) (k : akind) (r : nat) (n : N) (l : list path) (sched : list (path * ev)) (a : path),
       (forall a b, In b l -> ln b = ln a -> b = a) ->
       sts (mexec ln (winit k r n l) sched) a = exec (init k r n false) (proj a sched)).
Proof. split; [exact lock_name_injective | intros; now apply independent_init]. Qed.
Print Assumptions C20_lock_name_injective.

(* A lock-file name that REPLACES the extension instead of appending gives /t/b.d and /t/b.r one lock file: while a
   server for the first is alive, the server cold-started for the second finds the lock taken, reports AddrInUse and
   exits, and its client burns its 11 connect attempts on a path nobody binds — with the appended name the same
   schedule lets the second address proceed. *)
Theorem C20_shared_lock_name_refuted :
  with_extension_lock addr_debug = with_extension_lock addr_release /\
  lock_name addr_debug <> lock_name addr_release /\
  let sched := [(addr_debug, EC 0); (addr_debug, EC 0); (addr_debug, ES 0); (addr_debug, ES 0); (addr_debug, ES 0);
                (addr_debug, ES 0); (addr_debug, EC 0); (addr_debug, EC 0);
                (addr_release, EC 0); (addr_release, EC 0); (addr_release, ES 0); (addr_release, ES 0);
                (addr_release, EC 0)] ++ repeat (addr_release, EC 0) 11 in
  let bad := mexec with_extension_lock (winit (UdsPath true) 10 1 [addr_debug; addr_release]) sched in
  let good := mexec lock_name (winit (UdsPath true) 10 1 [addr_debug; addr_release]) sched in
  cl (sts bad addr_debug) 0 = CDone 0 /\ cl (sts bad addr_release) 0 = CFail FRetry
  /\ sv (sts bad addr_release) 0 = SExited false
  /\ cl (sts good addr_debug) 0 = CDone 0 /\ sv (sts good addr_release) 0 = SUnlinked.
Proof. exact shared_lock_name_starves. Qed.
Print Assumptions C20_shared_lock_name_refuted.

(* How a cut connection ENDS decides the in-flight clause.  The server hands accepted sockets on untouched, so its
   exit releases them in an orderly way (end-of-file at the client): local fallback, for every cut point.  Had the
   socket been set to abort on close (zero linger), the same exit would reset the connection and the same client
   would fail with the sccache error (exit 2) unless SCCACHE_IGNORE_SERVER_IO_ERROR=1. *)
Theorem C20_exit_ends_connections_orderly :
  forall (opq : N -> list N -> bool) (ignore_io : bool) (f : finished) (k : nat) (local : N),
  blen (encode_finished f) < 4294967296 ->
  (k < length (frame (encode_finished f)))%nat ->
  close_ending accepted_abort_on_close = Eof
  /\ cut_client_ending opq ignore_io f k (close_ending accepted_abort_on_close) = RunLocally LEofAfterAck
  /\ exit_code (cut_client_ending opq ignore_io f k (close_ending accepted_abort_on_close)) local = local
  /\ cut_client_ending opq ignore_io f k (close_ending true)
     = (if ignore_io then RunLocally LIgnoredError else SccacheError EAfterAck).
Proof.
  intros opq ig f k local H1 H2. split; [reflexivity|].
  destruct (orderly_close_falls_back opq ig f k local H1 H2) as [A B].
  split; [exact A|]. split; [exact B|]. now apply reset_is_fatal.
Qed.
Print Assumptions C20_exit_ends_connections_orderly.

(* ---------- non-vacuity ---------- *)

(* a late request that takes longer than what is left of the running idle period: the timer is re-armed at RECEIPT
   (t = 4500), so the shutdown begins at 10500, not at the old deadline 6000 while the request is being worked on *)
Example C20_late_request_run :
  let evs := [LTick 4500; LAccept 1; LRequest 1 false; LPoll; LTick 1500; LPoll; LTick 2500; LFinish 1; LClose 1;
              LTick 2000; LPoll] in
  prompt (linit 6000 10000) evs = true
  /\ lphase (lexec (linit 6000 10000) evs) = Draining 10500 RIdle
  /\ lphase (lexec (linit 6000 10000) (firstn 10 evs)) = Serving.
Proof. vm_compute. repeat split; reflexivity. Qed.

(* a connection that is opened and stays silent: idle shutdown at T = 2000 all the same, exit at T + cap with that
   connection cut (it had no request in flight) *)
Example C20_silent_connection_run :
  let evs := [LAccept 1; LTick 2000; LPoll; LWake; LTick 9999; LWake; LTick 1; LWake] in
  prompt (linit 2000 10000) evs = true
  /\ lphase (lexec (linit 2000 10000) (firstn 6 evs)) = Draining 2000 RIdle
  /\ lphase (lexec (linit 2000 10000) evs) = Terminated 2000 12000 RIdle [(1, false)].
Proof. vm_compute. repeat split; reflexivity. Qed.

(* a client arriving while an in-flight compile finishes after a stop: refused, the connection set is unchanged *)
Example C20_late_client_run :
  let s := lexec (linit 0 10000) [LAccept 1; LRequest 1 false; LPoll; LTick 1000; LAccept 2; LRequest 2 true; LPoll;
                                  LFinish 2; LClose 2; LWake; LTick 500] in
  lphase s = Draining 1000 RStop /\ lconnect s 3 = (s, false) /\ arrival s = ARefused
  /\ spawner_proceeds (Client.UdsPath [47; 116; 47; 46; 46; 47; 116; 47; 115]) = true.
Proof. vm_compute. repeat split; reflexivity. Qed.


(* a complete TCP run of two racing clients: quiescent, no time-outs, both connected to server 0 *)
Example C20_tcp_run :
  let sched := [EC 0; EC 0; EC 1; EC 1; ES 0; ES 1; ES 0; ES 1; EC 0; EC 0; EC 1; EC 1] in
  let s := exec (init Tcp 10 2 false) sched in
  quiescentb 2 s = true /\ no_timeouts sched = true /\ cl s 0 = CDone 0 /\ cl s 1 = CDone 0
  /\ sv s 0 = SRunning /\ sv s 1 = SExited false.
Proof. vm_compute. repeat split; reflexivity. Qed.

(* the S11 schedule with the lock in place: server 1 loses, client 1 connects to server 0 *)
Example C20_uds_run :
  let sched := [EC 0; EC 0; EC 1; EC 1; ES 0; ES 0; ES 0; ES 1; ES 1; ES 0; EC 0; EC 0; EC 1; EC 1] in
  let s := exec (init (UdsPath true) 10 2 true) sched in
  quiescentb 2 s = true /\ cl s 0 = CDone 0 /\ cl s 1 = CDone 0
  /\ sv s 0 = SRunning /\ sv s 1 = SExited false /\ lock s = Some 0.
Proof. vm_compute. repeat split; reflexivity. Qed.

(* an idle shutdown that does happen, exactly at last request + T, under prompt polling *)
Example C20_idle_run :
  let evs := [LAccept 1; LTick 700; LRequest 1 false; LPoll; LFinish 1; LClose 1; LTick 2000; LPoll; LWake] in
  let s := lexec (linit 2000 10000) evs in
  prompt (linit 2000 10000) evs = true /\ idle_since s = Some 2700
  /\ lphase s = Terminated 2700 2700 RIdle [].
Proof. vm_compute. repeat split; reflexivity. Qed.

(* a stop with a request in flight beyond the cap: the connection is cut at since + cap, not before *)
Example C20_stop_run :
  let evs := [LAccept 1; LRequest 1 false; LPoll; LTick 1000; LAccept 2] in
  let s := lexec (linit 0 10000) evs in
  lphase s = Serving /\ has_conn 2 (lconns s) = true /\
  let s1 := lstep (lstep s (LRequest 2 true)) LPoll in
  lphase (lexec s1 [LFinish 2; LClose 2; LWake; LTick 9999; LWake]) = Draining 1000 RStop /\
  lphase (lexec s1 [LFinish 2; LClose 2; LWake; LTick 10000; LWake]) = Terminated 1000 11000 RStop [(1, true)].
Proof. vm_compute. repeat split; reflexivity. Qed.
