(* Properties/C07.v — pinned statements for property C07:
   "Disk cache stays within its size limit, evicts in LRU order, never wedges".
   Model: Model/Lru.v (LruDiskCache at the granularity of its public API).  Proofs: Proofs/Lru.v.

   Vocabulary (all defined in Proofs/Lru.v):
     inv s      = acct s /\ hwf s
       acct s   : measure = sum of indexed sizes, measure + pending_size <= cap,
                  index keys duplicate-free, pending_size = sum of h_reserved over the live handles
       hwf s    : handle ids are unique and below next_h
     dir_ok s   : the directory listing is canonical (strictly sorted by path), mtimes are distinct
                  and none is in the future (<= clock)
     good s     = inv s /\ listing sorted /\ disk_ok s
       disk_ok  : dagree (index = entry files, with sizes) /\ mt_le (mtimes <= clock)
                  /\ mt_inj (mtimes distinct) /\ ord (index order = strictly ascending mtime order)
     not_extdel : the op is not ExternalDelete
     notemp s   : no indexed key and no pending key is named like a cache temp file (".sccachetmp...")
     op_notemp  : the op does not name such a key *)
From Coq Require Import List NArith Bool.
From Sccache Require Import Base.Sx Model.Lru Model.LruPut Model.LruLazy Proofs.Lru Proofs.LruPut Proofs.LruLazy.
Import ListNotations.
Local Open Scope N_scope.

(* Accounting holds after EVERY op (ExternalDelete and Reopen included), for every op list, every capacity,
   starting from the open of ANY directory content — no hypothesis on [s] at all — or from any state
   satisfying the invariant; the third conjunct says it for every intermediate state of the run. *)
Theorem C07_accounting :
  (forall s c ops, let s' := run (reopen s c) ops in
     inv s' /\ measure s' = sumsz (index s') /\ measure s' + pending_size s' <= cap s' /\
     NoDup (map fst (index s')) /\ pending_size s' = sumres (handles s')) /\
  (forall s ops, inv s -> inv (run s ops)) /\
  (forall s ops, inv s -> Forall (fun x => inv (snd x)) (trace s ops)).
Proof. exact C07_accounting_proof. Qed.
Print Assumptions C07_accounting.

(* Without external interference: every indexed entry exists on disk with the recorded size and no other
   entry file exists — after the open of any well-formed directory and after every further op list
   (overwrites, evictions, failed writers, two-phase stores, reopen with another capacity). *)
Theorem C07_disk_agrees :
  (forall s c, dir_ok s -> good (reopen s c)) /\
  (forall s ops, good s -> Forall not_extdel ops ->
     good (run s ops) /\
     forall k sz, alookup k (index (run s ops)) = Some sz <->
                  exists mt, alookup k (files (run s ops)) = Some (sz, mt)).
Proof. exact C07_disk_agrees_proof. Qed.
Print Assumptions C07_disk_agrees.

(* One step (any op but Reopen), k = the op's own key (Commit: the handle's key; any k for key-less ops):
   apart from k, what is left of the index is a suffix of what was there — the evicted entries [pre] are a
   prefix in LRU order — and the files of the evicted keys are gone. *)
Theorem C07_lru_order :
  forall s o k, inv s -> op_key_ok s o k ->
    exists pre, aremove k (index s) = pre ++ aremove k (index (fst (step s o))) /\
      forall k', In k' (map fst pre) -> alookup k' (files (fst (step s o))) = None.
Proof. exact C07_lru_order_proof. Qed.
Print Assumptions C07_lru_order.

(* A lookup counts as use: Get of an indexed key whose file exists succeeds, moves the key to the
   most-recent end and stamps its file with an mtime above every other file's.  The bound needs
   "mtimes <= clock", which is preserved by EVERY op; under [good] both hypotheses are implied. *)
Theorem C07_get_is_use :
  (forall s k sz fsz mt,
     alookup k (index s) = Some sz -> alookup k (files s) = Some (fsz, mt) ->
     snd (step s (Get k)) = ORes ROk (Some k) /\
     index (fst (step s (Get k))) = aremove k (index s) ++ [(k, sz)] /\
     alookup k (files (fst (step s (Get k)))) = Some (fsz, clock s + 1) /\
     (forall k', k' <> k -> alookup k' (files (fst (step s (Get k)))) = alookup k' (files s)) /\
     (mt_le s -> forall k' sz' mt', k' <> k ->
        alookup k' (files (fst (step s (Get k)))) = Some (sz', mt') -> mt' < clock s + 1)) /\
  (forall s ops, inv s -> mt_le s -> mt_le (run s ops)) /\
  (forall s k sz, good s -> alookup k (index s) = Some sz ->
     mt_le s /\ exists mt, alookup k (files s) = Some (sz, mt)).
Proof. exact C07_get_is_use_proof. Qed.
Print Assumptions C07_get_is_use.

(* An entry larger than the whole cache is refused without disturbing anything (declared size), or —
   for insert_with, whose size is only known after writing — disturbing nothing but the key itself. *)
Theorem C07_too_large_refused :
  forall s k n, cap s < n ->
    step s (InsertBytes k n) = (s, ORes RTooLarge None) /\
    step s (InsertFile k n) = (s, ORes RTooLarge None) /\
    step s (PrepareAdd k n) = (s, ORes RTooLarge None) /\
    snd (step s (InsertWith k n false)) = ORes RTooLarge None /\
    index (fst (step s (InsertWith k n false))) = aremove k (index s) /\
    alookup k (files (fst (step s (InsertWith k n false)))) = None /\
    (forall k', k' <> k ->
       alookup k' (index (fst (step s (InsertWith k n false)))) = alookup k' (index s) /\
       alookup k' (files (fst (step s (InsertWith k n false)))) = alookup k' (files s)).
Proof. exact C07_too_large_refused_proof. Qed.
Print Assumptions C07_too_large_refused.

(* No op sequence makes the cache permanently unusable: whatever fits beside the live reservations is
   stored (and then indexed); once no store is in flight nothing is reserved, so after ANY history from
   ANY directory every entry up to the capacity can be stored.  (The model has no panic outcome; panics
   of the real code are caught by the differential leg.) *)
Theorem C07_never_wedges :
  (forall s k n, inv s -> pending_size s + n <= cap s ->
     snd (step s (InsertBytes k n)) = ORes ROk (Some k) /\
     alookup k (index (fst (step s (InsertBytes k n)))) = Some n /\
     snd (step s (PrepareAdd k n)) = ORes ROk None) /\
  (forall s, inv s -> handles s = [] -> pending_size s = 0) /\
  (forall s0 c ops k n, let s := run (reopen s0 c) ops in
     handles s = [] -> n <= cap s ->
     snd (step s (InsertBytes k n)) = ORes ROk (Some k) /\
     alookup k (index (fst (step s (InsertBytes k n)))) = Some n).
Proof. exact C07_never_wedges_proof. Qed.
Print Assumptions C07_never_wedges.

(* Recency survives a restart.  [good] contains the invariant "index order = strictly ascending mtime
   order of the entry files" (ord), established by the open of any well-formed directory and preserved by
   every op other than ExternalDelete; reopening with any capacity >= the current total reproduces the index
   exactly, in the same order.

   Full (unguarded) statement, REFUTED by the model:
     forall s0 ops c, good s0 -> Forall not_extdel ops -> measure (run s0 ops) <= c ->
       index (reopen (run s0 ops) c) = index (run s0 ops).
   Counterexample (C07_ex_temp_named_key_lost_on_restart below): [InsertBytes ".sccachetmpX" 5; Reopen 25] —
   init deletes every file whose name starts with TEMPFILE_PREFIX, so an entry stored under such a key is
   dropped by the restart.  Guard [notemp]/[op_notemp]: no op names a key whose file name starts with
   ".sccachetmp" (sccache's keys are hex digests, so the guard always holds there). *)
Theorem C07_recency_survives_restart :
  (forall s c, dir_ok s -> good (reopen s c) /\ notemp (reopen s c)) /\
  (forall s0 ops, good s0 -> notemp s0 -> Forall not_extdel ops -> Forall op_notemp ops ->
     good (run s0 ops) /\ notemp (run s0 ops) /\
     forall c, measure (run s0 ops) <= c -> index (reopen (run s0 ops) c) = index (run s0 ops)).
Proof. exact C07_recency_survives_restart_proof. Qed.
Print Assumptions C07_recency_survives_restart.

(* The caller protocol of the disk cache (Model/LruPut.v: DiskCache::put and put_preprocessor_cache_entry =
   reserve -> write -> commit | abandon, with a write-fault oracle): whatever the outcome — stored, refused,
   write failed after any number of bytes, commit refused — no reservation and no in-flight handle outlives
   the call, and the accounting invariant is kept.  (put_pp merely drops the entry when the write fails;
   that is harmless only because it reserves 0 bytes.) *)
Theorem C07_put_releases :
  (forall s k n fault, inv s ->
     let s' := fst (put s k n fault) in
     inv s' /\ handles s' = handles s /\ pending_size s' = pending_size s /\ cap s' = cap s) /\
  (forall s k n fault, inv s ->
     let s' := fst (put_pp s k n fault) in
     inv s' /\ handles s' = handles s /\ pending_size s' = pending_size s /\ cap s' = cap s).
Proof. exact C07_put_releases_proof. Qed.
Print Assumptions C07_put_releases.

(* Hence no history of stores and lookups through DiskCache — with any number of failing writes — makes it
   unusable: after every history from any directory nothing is reserved and every entry up to the capacity is
   stored (and indexed). *)
Theorem C07_put_never_wedges :
  forall s0 c ops, let s := drun (reopen s0 c) ops in
    inv s /\ handles s = [] /\ pending_size s = 0 /\ cap s = c /\
    forall k n, n <= cap s ->
      snd (put s k n None) = POk /\ alookup k (index (fst (put s k n None))) = Some n.
Proof. exact C07_put_never_wedges_proof. Qed.
Print Assumptions C07_put_never_wedges.

(* The disk cache is opened lazily by the first request (Model/LruLazy.v: LazyDiskCache = Uninit root | Init,
   with an open-fault oracle).  However many open attempts fail, and whatever happens in between, the state
   keeps belonging to the CONFIGURED root, capacity and directory ([lazy_ok]: still Uninit with exactly these,
   or Init on that root with the accounting invariant, nothing reserved, that capacity), and the next request
   whose open does not fail is served from there: an entry that fits is stored and indexed. *)
Theorem C07_lazy_open_recovers :
  forall root c dir ops, let l := lrun (LUninit root c dir) ops in
    lazy_root l = root /\ lazy_ok root c dir l /\
    forall k n, n <= c ->
      exists s', lstep l (LPut k n None false) = (LInit root s', LD (DP POk)) /\
                 alookup k (index s') = Some n.
Proof. exact C07_lazy_open_recovers_proof. Qed.
Print Assumptions C07_lazy_open_recovers.

(* ---------------- non-vacuity ---------------- *)

(* two requests whose open fails, then a store: it lands in the configured root and is served *)
Example C07_ex_lazy_open_retry :
  let a := [97; 47; 97; 47; 97] in let root := [114] in
  let l := lrun (LUninit root 100 (empty 100)) [LGet a true; LPut a 40 None true; LPut a 40 None false; LGet a true] in
  match l with LInit r s => r = root /\ index s = [(a, 40)] | LUninit _ _ _ => False end /\
  snd (lstep (LUninit root 100 (empty 100)) (LGet a true)) = LOpenErr.
Proof. vm_compute. repeat split. Qed.


(* three stores whose writes fail (after 0, 10 and 59 bytes) beside a stored entry: nothing stays reserved, the
   stored entry is still there, and an entry filling the rest of the cache is accepted *)
Example C07_ex_failed_puts_release :
  let a := [97; 47; 97; 47; 97] in let b := [98; 47; 98; 47; 98] in
  let s := drun (reopen (empty 100) 100)
             [DPut a 40 None; DPut b 60 (Some 0); DPut b 60 (Some 10); DPut b 60 (Some 59)] in
  index s = [(a, 40)] /\ pending_size s = 0 /\ handles s = [] /\
  snd (put s b 60 None) = POk /\ index (fst (put s b 60 None)) = [(a, 40); (b, 60)].
Proof. vm_compute. repeat split. Qed.


(* a run that fills the cache and then evicts two entries, oldest first, deleting their files *)
Example C07_ex_evicts_two_in_order :
  let a := [97] in let b := [98] in let c := [100; 47; 99] in let d := [101] in
  let s := run (reopen (empty 25) 25) [InsertBytes a 10; InsertBytes b 10; InsertBytes c 5] in
  let s' := fst (step s (InsertBytes d 15)) in
  index s = [(a, 10); (b, 10); (c, 5)] /\ measure s = 25 /\
  index s' = [(c, 5); (d, 15)] /\ files s' = [(c, (5, 3)); (d, (15, 4))] /\
  aremove d (index s) = [(a, 10); (b, 10)] ++ aremove d (index s').
Proof. vm_compute. repeat split. Qed.

(* [dir_ok] is satisfiable by a non-trivial directory: a stale temp file, an oversized file, mtimes not in
   path order; opening it with capacity 10 keeps only the entry that fits *)
Example C07_ex_dir_ok :
  let d0 := {| cap := 0; index := []; measure := 0; pending := []; pending_size := 0;
               files := [([46; 115; 99; 99; 97; 99; 104; 101; 116; 109; 112; 88], (1, 4));
                         ([97], (5, 3)); ([98], (7, 1)); ([100; 47; 99], (30, 2))];
               handles := []; next_h := 0; clock := 10 |} in
  dir_ok d0 /\ index (reopen d0 10) = [([97], 5)] /\ files (reopen d0 10) = [([97], (5, 3))] /\
  index (reopen d0 12) = [([98], 7); ([97], 5)].
Proof.
  split; [|vm_compute; repeat split].
  apply dir_ok_of_list.
  - simpl. intuition (subst; reflexivity).
  - repeat constructor; discriminate.
  - simpl. repeat constructor; simpl; intuition discriminate.
Qed.

(* the empty directory is fine too, so [good]/[notemp] states are reachable from [reopen (empty c) c];
   and the op-list guards hold for an ordinary history *)
Example C07_ex_guards :
  dir_ok (empty 25) /\
  let ops := [InsertBytes [97] 10; PrepareAdd [98] 10; WriteTmp 0 12; Commit 0; Get [97]; Reopen 25;
              InsertWith [100; 47; 99] 5 false; Remove [98]] in
  Forall not_extdel ops /\ Forall op_notemp ops /\
  index (run (reopen (empty 25) 25) ops) = [([97], 10); ([100; 47; 99], 5)].
Proof.
  split; [apply dir_ok_empty|]. split; [|split].
  - repeat constructor.
  - repeat (constructor; try reflexivity).
  - vm_compute. reflexivity.
Qed.

(* a reopen after Get: the looked-up key stays most recent across the restart *)
Example C07_ex_reopen_after_get :
  let s := run (reopen (empty 25) 25) [InsertBytes [97] 10; InsertBytes [98] 10; Get [97]] in
  index s = [([98], 10); ([97], 10)] /\ files s = [([97], (10, 3)); ([98], (10, 2))] /\
  index (reopen s 25) = index s.
Proof. vm_compute. repeat split. Qed.

(* the counterexample to the unguarded restart statement *)
Example C07_ex_temp_named_key_lost_on_restart :
  let t := [46; 115; 99; 99; 97; 99; 104; 101; 116; 109; 112; 88] in
  let s := run (reopen (empty 25) 25) [InsertBytes t 5] in
  index s = [(t, 5)] /\ index (reopen s 25) = [] /\ files (reopen s 25) = [].
Proof. vm_compute. repeat split. Qed.

(* reservations that together exceed the capacity, a commit larger than reserved: refused, nothing leaks,
   and the whole capacity is usable afterwards *)
Example C07_ex_not_wedged :
  let s := run (reopen (empty 25) 25)
             [PrepareAdd [97] 20; PrepareAdd [98] 20; WriteTmp 0 40; Commit 0] in
  pending_size s = 0 /\ handles s = [] /\
  snd (step s (InsertBytes [98] 25)) = ORes ROk (Some [98]).
Proof. vm_compute. repeat split. Qed.
