(* Properties/C01.v — pinned statements for C01 "wrapped C/C++ compiles are observably identical to direct compiles".
   PARTIAL by design: gcc/clang themselves are not modelled.  What is proved is sccache's side of the bargain:
   its argument classification loses nothing, hashes everything it does not explicitly exempt, and the tables it
   searches behave as the search assumes.  That the exemptions are RIGHT about the compilers, and the end-to-end
   transparency, is validated by the e2e leg against the real gcc 12 / clang 14 (lib/props/c01.py). *)
From Coq Require Import List NArith Bool.
From Coq Require String.
Import String.StringSyntax.
From Coq Require Import Sorting.Permutation.
From Sccache Require Import Base.Sx Model.ArgTypes Model.Args Gen.C01ArgTables Model.ArgsInst Proofs.Args Proofs.ArgTables.
From Sccache Require Model.Stats Model.ReqSM Proofs.ReqSM Proofs.ArgsReq.
Import ListNotations.
Local Open Scope string_scope.

(* The generated tables satisfy what the binary search needs, every row is found by its own spelling (a clang row of
   the same spelling wins in the merged search: -MF -MQ -MT -fprofile-use), and for every row that accepts a joined
   value ALL keys `spelling ++ delimiter ++ rest` reach that row — except the four families named in
   [family_exceptions], where a longer spelling competes.  (The comparator is not monotone: `-Wp,x` is the
   preprocessor option, `-Wpedantic` a flag, `-Wpx` unknown.) *)
Theorem C01_table_wf :
  sorted_strict gcc_args = true /\ sorted_strict clang_args = true /\
  (forall sel i, In i (rows sel) -> search the_tables sel (flag_str i) = Some (effective sel i)) /\
  (forall i, In i clang_args -> search1 clang_args (flag_str i) = Some i) /\
  (forall sel i ne p rest,
      In i (rows sel) -> family_prefix i = Some (ne, p) -> is_exception sel (flag_str i) = false ->
      (ne = true -> rest <> []) ->
      search the_tables sel (p ++ rest) = Some (effective sel i)).
Proof. exact table_wf. Qed.
Print Assumptions C01_table_wf.

(* For EVERY argument vector (any tables, any @-files) that parse_arguments accepts: each of the five lists of the
   result is exactly the normalised renderings of the arguments classified into it, in their original order, followed
   by the -Xclang arguments classified into it, followed by what sccache adds itself ([fixups]); every other argument
   is one of the dedicated kinds and is pinned by its own field: the single input, the last -c, the last -o (or the
   default), the last -x (or the extension).  Nothing else exists, so nothing is dropped silently.
   Stated exceptions, visible in [fixups]/[accounted]: -MT/-MQ without -MD/-MMD/-MP are not re-emitted (finding
   C01-S23, see C01_dep_target_without_md_dropped); earlier -o / -x / -c are overridden by later ones. *)
Theorem C01_no_argument_lost :
  forall (T : tables) (E : env) (argv : list bytes) (p : parsed),
  parse_arguments T E argv = ROk p ->
  exists al xl output,
    tokens_of T (sel_of E) (dd_of E) (e_files E) argv = (al, TEnd) /\
    tokens_of T SelMerged None (e_files E) (xvals al) = (xl, TEnd) /\
    accounted T E al xl p output.
Proof. exact no_argument_lost. Qed.
Print Assumptions C01_no_argument_lost.

(* The same on the re-synthesised command line (generate_compile_commands, local form): it holds every word of every
   listed argument in its normalised rendering, every -Xclang argument, the compilation flag, the output, and ends with
   the single input. *)
Theorem C01_command_complete :
  forall (T : tables) (E : env) (argv : list bytes) (p : parsed),
  parse_arguments T E argv = ROk p ->
  exists al xl output,
    tokens_of T (sel_of E) (dd_of E) (e_files E) argv = (al, TEnd) /\
    tokens_of T SelMerged None (e_files E) (xvals al) = (xl, TEnd) /\
    (forall a w, In a al -> is_list_dest (dest_of T a) = true -> In w (render_norm a) -> In w (compile_command T E p)) /\
    (forall a d w, In a xl -> x_dest_of T a = Some d -> is_list_dest d = true -> In w (x_words a) ->
                   In w (compile_command T E p)) /\
    In (p_cflag p) (compile_command T E p) /\ In output (compile_command T E p) /\
    last (compile_command T E p) [] = p_input p /\ inputs al = [p_input p].
Proof. exact command_complete. Qed.
Print Assumptions C01_command_complete.

(* The model's fuel never runs out: parse_arguments is a total function of the argument vector for any tables and any
   @-files, self-including ones too (the expansion counter of ExpandIncludeFile — the fix for the hang — bounds it). *)
Theorem C01_parse_total :
  forall (T : tables) (E : env) (argv : list bytes), parse_arguments T E argv <> RFuel.
Proof. exact parse_never_out_of_fuel. Qed.
Print Assumptions C01_parse_total.

(* ... and with the generated tables every argument is in a list or of a dedicated kind (never "unreachable") *)
Theorem C01_every_argument_placed :
  forall (E : env) (argv : list bytes) (p : parsed),
  parse_arguments the_tables E argv = ROk p ->
  forall al, tokens_of the_tables (sel_of E) (dd_of E) (e_files E) argv = (al, TEnd) ->
  Forall (fun a => is_list_dest (dest_of the_tables a) = true \/ dest_of the_tables a = DSkip) al.
Proof.
  intros E argv p H al Htok. unfold parse_arguments in H. fold (sel_of E) (dd_of E) in H. rewrite Htok in H.
  destruct (run_loop (main_step the_tables E) (init_vars, empty_lists) al) as [[v l]|w] eqn:Hloop; [|discriminate].
  eapply main_loop_all_placed; [|eassumption]. apply class_side_conditions.
Qed.
Print Assumptions C01_every_argument_placed.

(* multiset form: the five lists together hold exactly the words of the listed arguments *)
Theorem C01_listed_words_multiset :
  forall (T : tables) (al : list argument),
  Permutation (flat_map render_norm (filter (fun a => is_list_dest (dest_of T a)) al))
              (main_part T DPre al ++ main_part T DDep al ++ main_part T DUnhashed al
               ++ main_part T DCommon al ++ main_part T DArch al).
Proof. exact listed_words_permutation. Qed.
Print Assumptions C01_listed_words_multiset.

(* -MT/-MQ targets: all of them are on the command line whenever the dependency file is requested *)
Theorem C01_dep_targets_kept :
  forall T E al xl p output a,
  accounted T E al xl p output ->
  exists_c NeedDepTarget al = true -> In a al -> is_c DepTarget a = true ->
  In (flag_of a) (l_dep (p_lists p)) /\ In (a_value a) (l_dep (p_lists p)).
Proof. exact dep_targets_kept. Qed.
Print Assumptions C01_dep_targets_kept.

(* Every argument that is not preprocessor-only, dependency-only, declared unhashed or kept in a dedicated field is
   in common_args ++ arch_args, the list hash_key receives — for main-loop and -Xclang arguments alike. *)
Theorem C01_every_result_affecting_arg_is_hashed :
  forall (E : env) (argv : list bytes) (p : parsed),
  parse_arguments the_tables E argv = ROk p ->
  exists al xl,
    tokens_of the_tables (sel_of E) (dd_of E) (e_files E) argv = (al, TEnd) /\
    tokens_of the_tables SelMerged None (e_files E) (xvals al) = (xl, TEnd) /\
    Forall (main_hashed_or_exempt the_tables p) al /\
    Forall (x_hashed_or_exempt the_tables p) xl.
Proof.
  intros E argv p H. eapply every_result_affecting_arg_is_hashed; [|exact H]. apply class_side_conditions.
Qed.
Print Assumptions C01_every_result_affecting_arg_is_hashed.

(* ... where the exempt classes of the generated tables are: nothing declared unhashed; the preprocessor class within
   the reviewed list (plus the two named S19 rows); the dependency class within its reviewed list. *)
Theorem C01_class_side_conditions :
  unhashed_class = [] /\
  subset_b preproc_class (PreprocOnly ++ PreprocDebatable) = true /\
  subset_b dependency_class DependencyOnly = true /\
  unreachable_ok the_tables = true.
Proof. exact class_side_conditions. Qed.
Print Assumptions C01_class_side_conditions.

(* ... and c.rs generate_hash_key, transcribed by the translator, hands ALL of that to the key functions: nothing is
   filtered out of the argument vectors after parsing (reviewed list [DroppedFromKey], empty), the result key's vector
   holds the whole common and arch lists, the preprocessor-level key's also the preprocessor list, both hold the
   output path for profile / coverage builds, the preprocessor-level key's also the working directory (pushed when
   hash_working_directory = true, the documented default; with the option off finding-class S38 is accepted by the user), the environment reaches both key functions unabridged (or abridged to a
   superset of both allow-lists), and the reference time of the "include is too new" guard is taken before the
   preprocessor runs. *)
Theorem C01_hash_key_side_conditions :
  subset_b (dropped_preds main_key_args ++ dropped_preds pp_key_args) DroppedFromKey = true /\
  has_whole_list main_key_args DCommon = true /\ has_whole_list main_key_args DArch = true /\
  has_whole_list pp_key_args DPre = true /\ has_whole_list pp_key_args DArch = true /\
  has_whole_list pp_key_args DCommon = true /\
  existsb (fun c => match c with KProfileOutput => true | _ => false end) main_key_args = true /\
  existsb (fun c => match c with KProfileOutput => true | _ => false end) pp_key_args = true /\
  existsb (fun c => match c with KCwd => true | _ => false end) pp_key_args = true /\
  match env_prefilter with
  | None => true
  | Some l => subset_b (main_key_env ++ pp_key_env) l
  end = true /\
  subset_b main_key_env pp_key_env = true /\
  key_order = key_order_expected.
Proof. exact hash_key_side_conditions. Qed.
Print Assumptions C01_hash_key_side_conditions.

Theorem C01_hashed_args_reach_hash_key :
  forall (p : parsed) (po : option bytes), incl (hashed_args p) (key_words main_key_args p po).
Proof. exact hashed_args_reach_hash_key. Qed.
Print Assumptions C01_hashed_args_reach_hash_key.

(* Inputs that gcc / clang treat as ALREADY PREPROCESSED (.i .ii .mi .mii) or as assembler (.s .S .sx) have no language
   in Language::from_file_name (table transcribed by the translator): without an explicit -x such a request is never
   re-preprocessed by sccache, it is handed back to the client. *)
Theorem C01_preprocessed_suffixes_passthrough :
  forallb (fun e => match assoc e ext_lang_table with None => true | Some _ => false end) AlreadyPreprocessed = true.
Proof. exact preprocessed_suffixes_have_no_language. Qed.
Print Assumptions C01_preprocessed_suffixes_passthrough.

(* "Same environment": the preprocessor run and the compile are spawned with a cleared environment plus the CLIENT's
   variables (`.env_clear().envs(..)`, transcribed by the translator from preprocess_cmd and
   SingleCompileCommand::execute), so for every environment the server itself was started in the compiler sees exactly the
   client's.  (e2e: every server of the histories is started with variables the clients do not have - locale,
   SOURCE_DATE_EPOCH, CPATH, GCC_COLORS.) *)
Theorem C01_commands_run_in_client_env :
  forall server client : envmap,
    child_env preprocess_env_cleared server client = client /\
    child_env compile_env_cleared server client = client.
Proof. exact commands_run_in_client_env. Qed.
Print Assumptions C01_commands_run_in_client_env.

(* Open findings, as theorems about the current code (witnesses by computation). *)
Theorem C01_dep_target_without_md_dropped :
  exists argv p, parse_arguments the_tables gcc_env argv = ROk p /\ In (bs "-MT") argv /\
                 ~ In (bs "-MT") (compile_command the_tables gcc_env p).
Proof. exact dep_target_without_md_dropped. Qed.
Print Assumptions C01_dep_target_without_md_dropped.

Theorem C01_x_rs_dropped :
  exists argv p, parse_arguments the_tables gcc_env argv = ROk p /\ In (bs "rs") argv /\ p_language p = LRust /\
                 ~ In (bs "-x") (compile_command the_tables gcc_env p).
Proof. exact x_rs_dropped. Qed.
Print Assumptions C01_x_rs_dropped.

(* full statement: forall argv p, parse argv = ROk p -> parse (compile_command p) = ROk p' with the same request.
   Refuted on the current code by an option without its value (finding C01-S24). *)
Theorem C01_resynthesis_fixpoint_refuted :
  exists argv p, parse_arguments the_tables gcc_env argv = ROk p /\
                 is_ok (parse_arguments the_tables gcc_env (compile_command the_tables gcc_env p)) = false.
Proof. exact resynthesis_fixpoint_refuted. Qed.
Print Assumptions C01_resynthesis_fixpoint_refuted.

(* Partial form of the re-synthesis statement (the full one is refuted above): its per-argument core, for ALL values.
   For every row the search returns for its own spelling: a flag word, a `spelling value` pair, and the joined word
   `spelling[delimiter]value` are read back by the tokenizer as an argument of that row with exactly that value, and the
   words that follow are tokenised as if it had not been there.  (Joined rows without delimiter need a non-empty value
   — the empty case is finding C01-S24 — and the four families of [family_exceptions] are not claimed; none of them is
   rendered in joined form.)
   MISSING for the full statement: the fold over the whole re-synthesised command — that re-classifying the re-read
   arguments in their new order (preprocessor, dependency, unhashed, common, arch) reproduces the same lists, outputs
   and language.  That part is validated, not proved: the `parse` leg re-parses the re-synthesised command with the
   model AND the real parse_arguments on every generated vector and the monitor compares the two requests. *)
Theorem C01_resynthesis_fixpoint_partial :
  forall sel i, In i (rows sel) -> effective sel i = i -> first_is_at (flag_str i) = false ->
  forall dd fs left f rest,
  match i with
  | IFlag s c =>
      dd_passes dd s ->
      tokenize (S f) the_tables sel dd fs left (s :: rest) =
      (let '(l, e) := tokenize f the_tables sel dd fs left rest in (AFlag s c :: l, e))
  | ITake s vt d0 c =>
      (forall d v, sep_disp d0 = Some d -> first_is_at v = false -> dd_passes dd s ->
         tokenize (S f) the_tables sel dd fs left (s :: v :: rest) =
         (let '(l, e) := tokenize f the_tables sel dd fs left rest in (AWith s c v d :: l, e))) /\
      (forall dl d v, joined_disp d0 = Some (dl, d) -> is_exception sel s = false -> (dl = None -> v <> []) ->
         dd_passes dd (joined_word s dl v) ->
         tokenize (S f) the_tables sel dd fs left (joined_word s dl v :: rest) =
         (let '(l, e) := tokenize f the_tables sel dd fs left rest in (AWith s c v d :: l, e)))
  end.
Proof. exact rerender_retokenizes. Qed.
Print Assumptions C01_resynthesis_fixpoint_partial.

(* ---- request level (Model/ReqSM.v, the request state machine shared with C09/C14) ---- *)
Import Model.Stats Model.ReqSM Proofs.ReqSM.

(* whatever the storage does (every fault assignment), a request the server finishes gives the client exactly the
   direct run's exit status, stdout, stderr and output files; in particular a hit runs no compiler and replays what
   the direct run would produce.  Hypotheses: the two keys are sound ([consistent], the subject of C02/C04), the cache
   only holds what earlier requests stored ([Inv], an invariant of every history: C09_history_transparent), a compiler
   that exits 0 has written its outputs ([sane]), the output directory is writable, and - since Model/ReqSM.v models
   panics as fault values - no fault value or oracle step is a panic ([calm]; a panicking task is answered with
   "encountered fatal error", see C09_internal_fault_reported). *)
Theorem C01_hit_replays_stored :
  forall w st t f cc,
  consistent w -> Inv w st -> sane (w t) -> f_outdir_ok f = true -> calm f (w t) ->
  r_outcome (snd (execute f cc (w t) st)) = Some OHit ->
  r_cc_runs (snd (execute f cc (w t) st)) = 0%N /\
  exists s so se, r_client (snd (execute f cc (w t) st)) = CFinished s so se /\
                  (s, so, se, r_outputs (snd (execute f cc (w t) st))) = direct (w t).
Proof. exact Proofs.ArgsReq.hit_replays_stored. Qed.
Print Assumptions C01_hit_replays_stored.

(* Unconditionally (any faults, any oracle, no invariant needed): a request answered from the cache hands the client
   exactly the stdout, stderr and output files that the cache holds under the request's key, and runs no compiler.
   At the level of bytes the model of "store, then restore" is the identity (Model/EntryBytes.v); that the real zip / zstd
   path IS the identity for members of every size and compressibility class is what the differential leg `entry` and the
   e2e scenario `large_objects` check (the encoding itself is C08's subject). *)
Theorem C01_hit_returns_stored_entry :
  forall f cc o st,
  r_outcome (snd (execute f cc o st)) = Some OHit ->
  exists st1 pp k so se outs,
    generate_hash_key f cc o st = (st1, HKKey k, pp) /\
    kv_get k (cs_res st1) = Some (RGood so se outs) /\
    r_client (snd (execute f cc o st)) = CFinished 0%N so se /\
    r_outputs (snd (execute f cc o st)) = outs /\ r_cc_runs (snd (execute f cc o st)) = 0%N.
Proof. exact Proofs.ArgsReq.hit_returns_stored_entry. Qed.
Print Assumptions C01_hit_returns_stored_entry.

(* a failing build is handed to the client verbatim ([transparent], under [calm] as above: the ReqSM transparency theorem
   needs it since panics are fault values) and, calm or not, never stored *)
Theorem C01_failure_verbatim_never_stored :
  forall w st t f cl cc,
  consistent w -> Inv w st -> sane (w t) -> f_outdir_ok f = true ->
  (calm f (w t) -> transparent (w t) (snd (fst (request f cl cc (w t) st)))) /\
  (fst (fst (fst (direct (w t)))) <> 0%N -> cs_res (fst (fst (request f cl cc (w t) st))) = cs_res st).
Proof.
  intros w st t f cl cc HC HI HS HO. split.
  - intros HCalm. apply request_transparent; assumption.
  - intros Hd. apply failed_never_stored; assumption.
Qed.
Print Assumptions C01_failure_verbatim_never_stored.

(* not a compilation / cannot cache / unsupported compiler: nothing runs on the server, the cache is untouched, the
   client re-runs the original argument vector itself *)
Theorem C01_noncacheable_passthrough :
  forall f cl cc o st,
  cl <> QCompile ->
  fst (fst (request f cl cc o st)) = st /\
  (r_client (snd (fst (request f cl cc o st))) = CUnhandled \/ r_client (snd (fst (request f cl cc o st))) = CUnsupported) /\
  r_pp_runs (snd (fst (request f cl cc o st))) = 0%N /\ r_cc_runs (snd (fst (request f cl cc o st))) = 0%N /\
  r_outputs (snd (fst (request f cl cc o st))) = [].
Proof. exact Proofs.ArgsReq.noncacheable_passthrough. Qed.
Print Assumptions C01_noncacheable_passthrough.

(* non-vacuity *)
Example C01_ordinary_command :
  cmd_of gcc_env [bs "-c"; bs "foo.c"; bs "-DX=1"; bs "-I"; bs "inc"; bs "-MD"; bs "-Wall"; bs "-o"; bs "out.o"]
  = [bs "-x"; bs "c"; bs "-c"; bs "-o"; bs "out.o"; bs "-Iinc"; bs "-MD"; bs "-MT"; bs "out.o"; bs "-MF"; bs "out.d";
     bs "-DX=1"; bs "-Wall"; bs "foo.c"].
Proof. exact ordinary_parses. Qed.
