(* Properties/C18.v — pinned statements for C18: "Scheduler job bookkeeping stays consistent under every
   message interleaving".  `run true init ms` is the state of the scheduler (code with the fix: commit) after
   the message sequence ms — ANY list of the lock-delimited handler pieces of Model/Scheduler.v, no bound on
   its length, on the number of servers, jobs, or calls inside their unlocked window.  Time-outs excluded. *)
From Coq Require Import List NArith Bool.
From Sccache Require Import Base.Sx Gen.C18Consts Model.Scheduler Proofs.Scheduler.
Import ListNotations.
Local Open Scope N_scope.

(* the constants and the transition table read from the Rust source are the ones the property names *)
Theorem C18_consts_ok :
  transitions = [(Pending, Ready); (Ready, Started); (Started, Complete)] /\
  max_per_core_load = 2 /\ slack_add = 1 /\ slack_div = 8.
Proof. exact consts_ok. Qed.
Print Assumptions C18_consts_ok.

(* every live job belongs to exactly one registered server, whose jobs_assigned holds it *)
Theorem C18_attribution : forall (ms : list msg) (j sid : N) (stt : jstate),
  aget j (jobs (run true init ms)) = Some (sid, stt) ->
  (exists sv, aget sid (servers (run true init ms)) = Some sv /\ In j (sv_assigned sv)) /\
  (forall sid' sv', aget sid' (servers (run true init ms)) = Some sv' -> In j (sv_assigned sv') -> sid' = sid).
Proof. intros ms j sid stt. apply attribution_Inv, reachable_Inv. Qed.
Print Assumptions C18_attribution.

(* a server never has more jobs than cores + 1 + cores/8 (which is at most 2 per core): neither in its
   jobs_assigned (a duplicate-free set) nor counted over the live jobs attributed to it *)
Theorem C18_capacity : forall (ms : list msg) (sid : N) (sv : server),
  aget sid (servers (run true init ms)) = Some sv ->
  1 <= sv_cpus sv /\ NoDup (sv_assigned sv) /\
  len (sv_assigned sv) <= sv_cpus sv + 1 + sv_cpus sv / 8 /\
  len (live_on sid (run true init ms)) <= sv_cpus sv + 1 + sv_cpus sv / 8 /\
  sv_cpus sv + 1 + sv_cpus sv / 8 <= 2 * sv_cpus sv.
Proof. intros ms sid sv. apply capacity_Inv, reachable_Inv. Qed.
Print Assumptions C18_capacity.

(* a recorded job changes only along pending -> ready -> started -> complete and only by an update from its
   owner; it disappears only by completing on its owner or when its owner re-registers with a new nonce; it
   appears only when the assignment call that reserved it for that server returns successfully *)
Theorem C18_transitions : forall (ms : list msg) (m : msg) (j : N),
  match aget j (jobs (run true init ms)), aget j (jobs (fst (step true (run true init ms) m))) with
  | Some (sid, a), Some (sid', b) =>
      sid' = sid /\ (b = a \/ (m = MUpdate j sid b /\ next_state a = Some b))
  | Some (sid, a), None =>
      (m = MUpdate j sid Complete /\ a = Started) \/
      (exists n c tf, m = MHeartbeat sid n c tf /\ snd (step true (run true init ms) m) = OHb true)
  | None, Some (sid, b) => m = MAllocEndOk j b /\ aget j (inflight (run true init ms)) = Some sid
  | None, None => True
  end.
Proof. intros ms m j. apply transitions_Inv, reachable_Inv. Qed.
Print Assumptions C18_transitions.

(* an update is accepted exactly when it is the next step of the chain and comes from the owner;
   a refused update changes nothing *)
Theorem C18_update_result : forall (ms : list msg) (j sid : N) (b : jstate),
  (snd (step true (run true init ms) (MUpdate j sid b)) = OUpd UOk <->
     exists a, aget j (jobs (run true init ms)) = Some (sid, a) /\ next_state a = Some b) /\
  (snd (step true (run true init ms) (MUpdate j sid b)) <> OUpd UOk ->
     fst (step true (run true init ms) (MUpdate j sid b)) = run true init ms).
Proof. intros ms j sid b. apply update_result_Inv, reachable_Inv. Qed.
Print Assumptions C18_update_result.

(* status reports exactly the number of live jobs (each recorded once) and changes nothing *)
Theorem C18_in_progress : forall (ms : list msg),
  step true (run true init ms) MStatus =
    (run true init ms,
     OStatus (len (servers (run true init ms))) (sum_cpus (servers (run true init ms))) (len (jobs (run true init ms)))) /\
  NoDup (keys (jobs (run true init ms))).
Proof. intros ms. apply status_Inv_out, reachable_Inv. Qed.
Print Assumptions C18_in_progress.

(* no message sequence makes a handler panic, and no mutex is ever poisoned (the scheduler keeps serving) *)
Theorem C18_never_panics : forall (ms : list msg) (m : msg),
  snd (step true (run true init ms) m) <> OPanic /\
  pois_jobs (run true init ms) = false /\ pois_servers (run true init ms) = false.
Proof.
  intros ms m. pose proof (reachable_Inv ms) as I.
  split; [apply no_panic; exact I|]. split; [apply (inv_pj _ I) | apply (inv_ps _ I)].
Qed.
Print Assumptions C18_never_panics.

(* no reservation leaks: every id in a server's jobs_assigned is a live job of that server or belongs to a
   call of handle_alloc_job still inside its window for that server (so capacity is never used up by ghosts
   and the server keeps being offered work) *)
Theorem C18_no_leak : forall (ms : list msg) (sid : N) (sv : server) (j : N),
  aget sid (servers (run true init ms)) = Some sv -> In j (sv_assigned sv) ->
  (exists stt, aget j (jobs (run true init ms)) = Some (sid, stt)) \/
  aget j (inflight (run true init ms)) = Some sid.
Proof. intros ms sid sv j. apply noleak_Inv, reachable_Inv. Qed.
Print Assumptions C18_no_leak.

(* the code BEFORE the fixes (fx = false) violates attribution, never-panics and capacity: defect S8 *)
Theorem C18_unfixed_refuted :
  (let s := run false init s8_history in
     (exists sv, aget 0 (jobs s) = Some (0, Started) /\ aget 0 (servers s) = Some sv /\ sv_assigned sv = []) /\
     snd (step false s (MUpdate 0 0 Complete)) = OPanic /\
     (let s' := fst (step false s (MUpdate 0 0 Complete)) in
        snd (step false s' MStatus) = OPanic /\ snd (step false s' (MHeartbeat 0 2 1 false)) = OPanic /\
        snd (step false s' (MAllocBegin [])) = OPanic)) /\
  (let s := run false init s8_overload in
     exists sv, aget 0 (servers s) = Some sv /\ sv_cpus sv = 1 /\ len (live_on 0 s) = 5).
Proof. exact unfixed_refuted. Qed.
Print Assumptions C18_unfixed_refuted.

(* the code before the second fix leaked the reservation when the job token could not be created: defect S21 *)
Theorem C18_unfixed_leak_refuted :
  let s := run false init s21_history in
  (exists sv, aget 0 (servers s) = Some sv /\ sv_assigned sv = [0; 1]) /\ jobs s = [] /\ inflight s = [] /\
  snd (step false s (MAllocBegin [])) = OAllocNoCap 1.
Proof. exact unfixed_leak_refuted. Qed.
Print Assumptions C18_unfixed_leak_refuted.

(* non-vacuity *)
Example C18_fixed_on_s21 :
  let s := run true init s21_history in
  (exists sv, aget 0 (servers s) = Some sv /\ sv_assigned sv = []) /\
  snd (step true s (MAllocBegin [])) = OAllocTokErr.
Proof. exact fixed_s21. Qed.

Example C18_fixed_on_s8 :
  snd (step true (run true init [MHeartbeat 0 1 1 false; MAllocBegin []; MHeartbeat 0 2 1 false]) (MAllocEndOk 0 Ready))
    = OAllocGone 0 0 /\
  jobs (run true init s8_history) = [] /\ jobs (run true init s8_overload) = [].
Proof. exact fixed_s8. Qed.

Example C18_nonvacuous :
  let s := run true init [MHeartbeat 0 1 1 false; MAllocBegin []; MAllocEndOk 0 Ready; MAllocBegin []] in
  jobs s = [(0, (0, Ready))] /\ inflight s = [(1, 0)] /\
  (exists sv, aget 0 (servers s) = Some sv /\ len (sv_assigned sv) = capacity (sv_cpus sv)) /\
  snd (step true s (MAllocBegin [])) = OAllocNoCap 1.
Proof. exact nonvacuous. Qed.
