(* Properties/C03.v — pinned statements for property C03:
   "A repeated cacheable request is served from the cache, also after restart". *)
From Coq Require Import List NArith Bool Permutation.
From Sccache Require Import Base.Sx.
From Sccache Require Import Model.Lru.
From Sccache Require Import Model.HitModel.
From Sccache Require Import Proofs.Lru.
From Sccache Require Import Proofs.HitModel.
Import ListNotations.
Local Open Scope N_scope.

(* For every hash function key_of and every compiler oracle; for every history h0 that led to the current
   state (from an empty cache of any capacity c0); after a request r0 whose result was stored; for EVERY
   history h of requests on other cache paths, deletions of client files, server restarts and idle periods
   after which r0's entry is still in the cache ([cached]: the key is still indexed — eviction-freedom as an
   explicit, computable predicate): a request r1 with the same fingerprint (it may name other output paths and
   carry any unhashed arguments / variables), whose preprocessor step succeeds or is skipped, is answered
   CacheHit, runs no compiler, and every output recorded by r0's compile is restored under r1's path for that
   role — whether or not the file was deleted in between. *)
Theorem C03_hit_after_store :
  forall (key_of : fingerprint -> key) (compile : request -> N -> cresult)
         (c0 : N) (h0 : list event) (r0 : request) (h : list event) (r1 : request)
         (w1 : world) (o0 : outcome) (w3 : world) (o1 : outcome),
  let w0 := run_events key_of compile (empty_world c0) h0 in
  do_request key_of compile w0 r0 = (w1, o0) -> oc_stored o0 = true ->
  unrelated key_of r0 h = true ->
  let w2 := run_events key_of compile w1 h in
  cached key_of w2 r0 = true ->
  fingerprint_of r1 = fingerprint_of r0 ->
  map (fun o => (o_role o, o_optional o)) (rq_outputs r1) = map (fun o => (o_role o, o_optional o)) (rq_outputs r0) ->
  NoDup (map o_role (rq_outputs r0)) -> NoDup (map o_path (rq_outputs r1)) ->
  (pp_hit key_of w2 r1 = true \/ cr_pre_ok (compile r1 (w_compiles w2)) = true) ->
  do_request key_of compile w2 r1 = (w3, o1) ->
  oc_kind o1 = KHit /\ oc_compiled o1 = false /\ w_compiles w3 = w_compiles w2 /\
  forall oa ob c, In oa (rq_outputs r0) -> In ob (rq_outputs r1) -> o_role oa = o_role ob ->
    alookup (o_path oa) (w_ws w1) = Some c -> alookup (o_path ob) (w_ws w3) = Some c.
Proof. exact hit_after_store. Qed.
Print Assumptions C03_hit_after_store.

(* The same with eviction-freedom stated on sizes only: [fits] = along the history every request would fit
   beside what is indexed (measure + entry size <= capacity) and at every restart the entry files fit the
   capacity and none carries the temp-file prefix.  Then nothing is evicted, so r0's entry is still there. *)
Theorem C03_hit_after_store_within_capacity :
  forall (key_of : fingerprint -> key) (compile : request -> N -> cresult)
         (c0 : N) (h0 : list event) (r0 : request) (h : list event) (r1 : request)
         (w1 : world) (o0 : outcome) (w3 : world) (o1 : outcome),
  let w0 := run_events key_of compile (empty_world c0) h0 in
  do_request key_of compile w0 r0 = (w1, o0) -> oc_stored o0 = true ->
  unrelated key_of r0 h = true ->
  fits key_of compile w1 h = true ->
  let w2 := run_events key_of compile w1 h in
  fingerprint_of r1 = fingerprint_of r0 ->
  map (fun o => (o_role o, o_optional o)) (rq_outputs r1) = map (fun o => (o_role o, o_optional o)) (rq_outputs r0) ->
  NoDup (map o_role (rq_outputs r0)) -> NoDup (map o_path (rq_outputs r1)) ->
  (pp_hit key_of w2 r1 = true \/ cr_pre_ok (compile r1 (w_compiles w2)) = true) ->
  do_request key_of compile w2 r1 = (w3, o1) ->
  oc_kind o1 = KHit /\ oc_compiled o1 = false /\ w_compiles w3 = w_compiles w2 /\
  forall oa ob c, In oa (rq_outputs r0) -> In ob (rq_outputs r1) -> o_role oa = o_role ob ->
    alookup (o_path oa) (w_ws w1) = Some c -> alookup (o_path ob) (w_ws w3) = Some c.
Proof. exact hit_after_store_within_capacity. Qed.
Print Assumptions C03_hit_after_store_within_capacity.

(* Only the hashed components enter the fingerprint.  Two requests with the same compiler, the same hashed
   arguments in the same order, the same input digests and
     C/C++: the same allow-listed variables UP TO ORDER, and — only for objects instrumented for coverage /
            profiling ([profile_out]: the compiler embeds the .gcda/.gcno location derived from it) — the same
            absolute object path, and — only with -gsplit-dwarf ([split_out]: the object names its .dwo file) —
            the same .dwo path,
     rustc: the same --cfg values, --extern files, CARGO_ variables and env-deps UP TO ORDER, and the same cwd
   have the same fingerprint — whatever their output names, -L paths, unhashed arguments, other variables. *)
Theorem C03_key_ignores_unhashed :
  forall r r' : request,
  rq_lang r' = rq_lang r -> rq_compiler r' = rq_compiler r -> rq_inputs r' = rq_inputs r ->
  hashed_args (rq_args r') = hashed_args (rq_args r) ->
  match rq_lang r with
  | LangC =>
      profile_out r' = profile_out r /\ split_out r' = split_out r /\
      Permutation (filter (fun e => c_env_hashed (fst e)) (rq_env r'))
                  (filter (fun e => c_env_hashed (fst e)) (rq_env r))
  | LangRust =>
      Permutation (cfg_args (rq_args r')) (cfg_args (rq_args r)) /\
      Permutation (extern_args (rq_args r')) (extern_args (rq_args r)) /\
      Permutation (filter (fun e => rust_env_hashed (fst e)) (rq_env r'))
                  (filter (fun e => rust_env_hashed (fst e)) (rq_env r)) /\
      Permutation (rq_env_deps r') (rq_env_deps r) /\
      rq_cwd r' = rq_cwd r
  end ->
  fingerprint_of r' = fingerprint_of r.
Proof. exact key_ignores_unhashed. Qed.
Print Assumptions C03_key_ignores_unhashed.

(* ... in particular: another output name (every -o / --out-dir argument and every output path replaced), for
   every rustc request and every C/C++ request that is neither instrumented for coverage / profiling nor
   compiled with -gsplit-dwarf *)
Theorem C03_key_ignores_output :
  forall (r : request) (p : bytes) (outs : list output) (tag : N),
  rq_lang r = LangRust \/ (has_profile (rq_args r) = false /\ has_split (rq_args r) = false) ->
  fingerprint_of (retarget r p outs tag) = fingerprint_of r.
Proof. exact key_ignores_output. Qed.
Print Assumptions C03_key_ignores_output.

(* ... and any change of the environment that leaves the allow-listed bindings alone (other variables set,
   changed or removed; the whole environment reordered) *)
Theorem C03_key_ignores_env :
  forall (r : request) (env' : list (bytes * bytes)),
  Permutation (filter (fun e => env_hashed (rq_lang r) (fst e)) env')
              (filter (fun e => env_hashed (rq_lang r) (fst e)) (rq_env r)) ->
  fingerprint_of (with_env r env') = fingerprint_of r.
Proof. exact key_ignores_env. Qed.
Print Assumptions C03_key_ignores_env.

(* Restart, store level (LruDiskCache::new on the directory left by ANY state s, also one with stores in
   flight): if the entry files fit the capacity and none carries the temp-file prefix, every entry file is
   re-indexed (in mtime order), none is deleted, and the stores in flight — whose temp files are not entries
   — are gone. *)
Theorem C03_reopen_keeps_everything :
  forall (s : Lru.st) (c : N),
  NoDup (map fst (files s)) -> no_temp_names (files s) = true -> files_size (files s) <= c ->
  index (reopen s c) = map proj_entry (sort_mtime (files s)) /\
  files (reopen s c) = files s /\ handles (reopen s c) = [] /\
  (forall k, In k (map fst (files s)) -> In k (map fst (index (reopen s c)))).
Proof. exact reopen_keeps_everything. Qed.
Print Assumptions C03_reopen_keeps_everything.

(* Restart, for every reachable state of the cache: under the same guard, a server restart deletes nothing,
   changes no entry, re-indexes every entry file; every request that was cached stays cached. *)
Theorem C03_restart_preserves :
  forall (key_of : fingerprint -> key) (compile : request -> N -> cresult) (c0 : N) (h0 : list event),
  let w := run_events key_of compile (empty_world c0) h0 in
  no_temp_names (files (w_store w)) = true ->
  files_size (files (w_store w)) <= cap (w_store w) ->
  files (w_store (restart w)) = files (w_store w) /\
  w_content (restart w) = w_content w /\
  (forall k, In k (map fst (files (w_store w))) -> In k (map fst (index (w_store (restart w))))) /\
  (forall r, cached key_of w r = true -> cached key_of (restart w) r = true).
Proof. exact restart_preserves. Qed.
Print Assumptions C03_restart_preserves.

(* Restoring works on every mount layout: extract_objects stages each output in the DIRECTORY OF THAT OUTPUT
   (never in the server's temp directory), so the final rename never crosses a file system.  [restore_mounted mnt]
   is the restore that fails with EXDEV whenever staging and destination directory are on different mounts of an
   arbitrary assignment mnt of mounts to directories; it is the plain [restore] that [do_request] performs — hence
   C03_hit_after_store holds wherever the build tree, the cache and TMPDIR are mounted. *)
Theorem C03_restore_any_mount_layout :
  forall (mnt : bytes -> N) (e : entry) (outs : list output) (ws : list (key * N)),
  restore_mounted mnt e outs ws = restore e outs ws.
Proof. exact restore_any_mount_layout. Qed.
Print Assumptions C03_restore_any_mount_layout.

(* A damaged entry is replaced, not kept: in every reachable state, after the entry file of request r has been
   damaged (truncated; it stays indexed by the running server), the request is not answered as a hit; when it
   recompiles and the new entry fits the cache at all, the store SUCCEEDS — over the key that is still indexed —
   and leaves the key indexed with readable bytes.  From there C03_hit_after_store applies again: every further
   identical request is served from the cache. *)
Theorem C03_damaged_entry_replaced :
  forall (key_of : fingerprint -> key) (compile : request -> N -> cresult)
         (c0 : N) (h0 : list event) (r : request) (sz : N) (w1 : world) (o : outcome),
  let w := damage (run_events key_of compile (empty_world c0) h0) (req_path key_of r) sz in
  do_request key_of compile w r = (w1, o) ->
  oc_kind o <> KHit /\
  (forall rerr, oc_kind o = KMiss rerr -> cr_size (compile r (w_compiles w)) <= cap (w_store w) ->
     oc_stored o = true) /\
  (oc_stored o = true ->
     In (req_path key_of r) (map fst (index (w_store w1))) /\ alookup (req_path key_of r) (w_content w1) <> None).
Proof. exact damaged_entry_replaced. Qed.
Print Assumptions C03_damaged_entry_replaced.

(* The environment of the SERVER process never enters the key.  A crate names the variables it reads at compile
   time ([reads]); the values sccache hashes for them are observed by a run of rustc whose environment is the
   client's and nothing else ([spawn_env]), so the request as seen by a server started from srv and by one started
   from srv' — after a restart from another shell, or an on-demand start by whichever client came first — is the
   same request, with the same fingerprint.  (With C03_hit_after_store: an entry stored under one server is hit
   under every later one.) *)
Theorem C03_key_ignores_server_env :
  forall (srv srv' : list (bytes * bytes)) (reads : list bytes) (r : request),
  request_in srv reads r = request_in srv' reads r /\
  fingerprint_of (request_in srv reads r) = fingerprint_of (request_in srv' reads r).
Proof. intros; split; [apply request_ignores_server_env | apply key_ignores_server_env]. Qed.
Print Assumptions C03_key_ignores_server_env.

(* A request that arrives while the compiler cannot be probed (a transient failure: the server's temp directory
   is missing) is refused — and everything is left EXACTLY as it was: no negative answer is remembered for the
   compiler, cache and counters are untouched.  The histories of C03_hit_after_store
   range over such events too (they are not requests in the sense of [unrelated]): the identical request after the
   repair is a hit. *)
Theorem C03_failed_probe_leaves_no_trace :
  forall (key_of : fingerprint -> key) (compile : request -> N -> cresult) (w : world) (r : request),
  fst (step_event key_of compile w (EProbeFail r)) = w.
Proof. exact failed_probe_leaves_no_trace. Qed.
Print Assumptions C03_failed_probe_leaves_no_trace.

(* The answer promises the store: when [do_request] returns an outcome with oc_stored = true, the entry is
   ALREADY indexed and readable in the state it returns (DiskCache::put has committed before the response is
   produced) — so the identical request may follow at once, and a graceful stop finds nothing in flight
   ([quiet]: no handle, no reservation is pending between two requests). *)
Theorem C03_response_implies_stored :
  forall (key_of : fingerprint -> key) (compile : request -> N -> cresult)
         (c0 : N) (h0 : list event) (r : request) (w1 : world) (o : outcome),
  do_request key_of compile (run_events key_of compile (empty_world c0) h0) r = (w1, o) ->
  oc_stored o = true ->
  cached key_of w1 r = true /\ alookup (req_path key_of r) (w_content w1) <> None /\
  handles (w_store w1) = [] /\ pending_size (w_store w1) = 0.
Proof. exact response_implies_stored. Qed.
Print Assumptions C03_response_implies_stored.

(* ---------- non-vacuity ---------- *)
Import C03Example.

(* a concrete run meeting every hypothesis of C03_hit_after_store: store r0, then an unrelated request, the
   deletion of r0's output, a restart and an idle period; r1 = r0 with another -o and an extra variable FOO *)
Example C03_example_hit :
  oc_stored (o0 1000) = true /\ unrelated kof r0 hist = true /\ cached kof (w2 1000) r0 = true /\
  fingerprint_of r1 = fingerprint_of r0 /\ alookup a_o (w_ws (w2 1000)) = None /\
  oc_kind (o1 1000) = KHit /\ oc_compiled (o1 1000) = false /\
  alookup b_o (w_ws (w3 1000)) = Some 101 /\ w_compiles (w3 1000) = 2.
Proof. vm_compute. repeat split; reflexivity. Qed.

(* the eviction-freedom predicate is not vacuous: with room for one entry only, the unrelated request evicts
   r0's entry and the repeated request is a miss *)
Example C03_example_evicted :
  oc_stored (o0 700) = true /\ cached kof (w2 700) r0 = false /\ oc_kind (o1 700) = KMiss false /\
  fits kof oracle (w1 700) hist = false /\ fits kof oracle (w1 1000) hist = true.
Proof. vm_compute. repeat split; reflexivity. Qed.

(* the guard of C03_restart_preserves holds in that run, and the restart inside it lost nothing *)
Example C03_example_restart :
  no_temp_names (files (w_store (w2 1000))) = true /\
  (files_size (files (w_store (w2 1000))) <=? cap (w_store (w2 1000))) = true /\
  length (index (w_store (w2 1000))) = 2%nat.
Proof. vm_compute. repeat split; reflexivity. Qed.

(* the side condition of C03_key_ignores_output is needed: for an object instrumented for coverage the output
   name is part of the fingerprint (and for an ordinary object it is not) *)
Example C03_example_coverage_keyed_on_output :
  fingerprint_of (retarget rcov b_o [out obj_role b_o] 5) <> fingerprint_of rcov /\
  fingerprint_of (retarget r0 b_o [out [111] b_o] 5) = fingerprint_of r0.
Proof. split; [intros H; vm_compute in H; discriminate | vm_compute; reflexivity]. Qed.

(* a damaged entry: the next identical request is a miss with a read error that stores again, the one after a hit;
   and a mount assignment under which a restore staged anywhere else than beside the output would fail *)
Example C03_example_damage_heals :
  oc_kind (o_heal 1000) = KMiss true /\ oc_stored (o_heal 1000) = true /\ oc_kind (o_again 1000) = KHit /\
  oc_compiled (o_again 1000) = false.
Proof. vm_compute. repeat split; reflexivity. Qed.

Example C03_example_mounts :
  let mnt := fun d : bytes => match d with [] => 1 | _ => 2 end in
  restore_mounted mnt [([111], 5)] [out [111] [100; 47; 97]] [] = (true, [([100; 47; 97], 5)]) /\
  mnt (stage_dir (out [111] [100; 47; 97])) <> mnt [].
Proof. split; [vm_compute; reflexivity | vm_compute; discriminate]. Qed.

(* restart, the identical request refused because the compiler cannot be probed, its output deleted: the history is
   "unrelated" in the sense of C03_hit_after_store and the next identical request is a hit *)
Example C03_example_failed_probe :
  unrelated kof r0 [ERestart; EProbeFail r0; EDelete a_o] = true /\ cached kof (w_pf 1000) r0 = true /\
  oc_kind (o_pf 1000) = KHit /\ oc_compiled (o_pf 1000) = false.
Proof. vm_compute. repeat split; reflexivity. Qed.

(* the observation for a variable the client does not set is "unset" under every server environment, and differs
   from the one of a client that sets it *)
Example C03_example_server_env :
  rq_env_deps (r_tag [(tag_var, [110])]) = [(tag_var, [0])] /\
  fingerprint_of (r_tag [(tag_var, [110])]) = fingerprint_of (r_tag []) /\
  observed_env_deps [] [(tag_var, [110])] [tag_var] = [(tag_var, [1; 110])].
Proof. vm_compute. repeat split; reflexivity. Qed.
