(* Property C15 — read-only cache mode never adds, changes or removes entries.
   Pinned statements only; proofs are in Proofs/RoCache.v and Proofs/DiskConfig.v. *)
From Coq Require Import List NArith Bool.
From Sccache Require Import Base.Sx Model.Lru Model.RoCache Model.RoConc Model.DiskConfig Proofs.RoCache Proofs.RoConc Proofs.DiskConfig.
Import ListNotations.
Local Open Scope N_scope.

(* For ALL histories of storage calls and restarts in read-only mode (any size, also smaller than
   what is on disk; stale temp files; any interleaving of the two stores), starting from ANY state of
   a read-only DiskCache: the directory tree as a map path -> (size, content id) and the set of
   directories are unchanged.  UNGUARDED: holds for the code after the fix for S12. *)
Theorem C15_frozen : forall d ops,
  rw d = false -> forallb ro_op ops = true ->
  (forall p, entry (run d ops) p = entry d p) /\ dirs (run d ops) = dirs d.
Proof. exact frozen_ops. Qed.
Print Assumptions C15_frozen.

(* the same for histories of whole compile requests (hit, miss, compile failure, preprocessor failure,
   forced recache, preprocessor-cache mode on/off, manifest update on hit) mixed with single calls *)
Theorem C15_frozen_requests : forall d l,
  rw d = false -> forallb ro_item l = true ->
  (forall p, entry (run_items d l) p = entry d p) /\ dirs (run_items d l) = dirs d.
Proof. exact frozen_items. Qed.
Print Assumptions C15_frozen_requests.

(* put and put_preprocessor_cache_entry are refused and leave the whole state as it was (the stores
   are not even opened) *)
Theorem C15_writes_refused : forall d k n c,
  rw d = false ->
  (step d (Put k n c) = (d, ORefusedWrapper) \/ step d (Put k n c) = (d, ORefusedCache)) /\
  (step d (PpPut k) = (d, ORefusedWrapper) \/ step d (PpPut k) = (d, ORefusedCache)).
Proof. exact writes_refused. Qed.
Print Assumptions C15_writes_refused.

(* existing entries are served: on a freshly started read-only cache whose directory fits the
   configured size, the lookup of an entry that is there is a hit (result store and preprocessor
   store).  Guarded: a read-only cache LARGER than its configured size serves only the most recently
   used entries that fit (and deletes none, C15_frozen). *)
Theorem C15_hits_served : forall d k sz mt,
  rw d = false -> total_size (fs d) <= dcap d ->
  (main d = None -> alookup (main_path k) (fs d) = Some (sz, mt) -> is_temp (main_path k) = false ->
   min_entry <= sz -> snd (step d (Get k)) = OHit) /\
  (pp d = None -> alookup (pp_path k) (fs d) = Some (sz, mt) -> is_temp (pp_path k) = false ->
   snd (step d (PpGet k)) = OFound).
Proof.
  intros d k sz mt Hrw Hfit. split; intros; [eapply hit_served_main | eapply hit_served_pp]; eauto.
Qed.
Print Assumptions C15_hits_served.

(* ... and for ALL read-only histories (lookups, refused stores, restarts whose size still fits) of a
   freshly started cache over a canonical (sorted, as a directory walk yields it) directory that fits its
   size: the (path, size) listing stays LITERALLY the same list, and every entry that is there is served
   at every point of the history, by both stores *)
Theorem C15_hits_served_always : forall d ops,
  rw d = false -> main d = None -> pp d = None -> ksortedb (fs d) = true -> total_size (fs d) <= dcap d ->
  forallb (ro_op_fits (total_size (fs d))) ops = true ->
  let d' := run d ops in
  map proj (fs d') = map proj (fs d) /\
  forall k sz mt,
    (alookup (main_path k) (fs d) = Some (sz, mt) -> is_temp (main_path k) = false -> min_entry <= sz ->
     snd (step d' (Get k)) = OHit) /\
    (alookup (pp_path k) (fs d) = Some (sz, mt) -> is_temp (pp_path k) = false ->
     snd (step d' (PpGet k)) = OFound).
Proof. exact hits_served_always. Qed.
Print Assumptions C15_hits_served_always.

(* ... and under CONCURRENCY (Model/RoConc.v: every lookup on its own thread, each store behind its mutex,
   the first holder opens the store with a scan that takes any number of scheduler ticks): for ALL
   schedules, scan lengths and numbers of simultaneous lookups of both stores, a lookup that has returned
   answered "hit" / "found" if its entry is in the directory.  In particular a lookup that arrives while
   another request is still opening the read-only cache WAITS; it is never answered "miss". *)
Theorem C15_concurrent_lookups_served : forall d ops scan sched,
  rw d = false -> main d = None -> pp d = None -> ksortedb (fs d) = true -> total_size (fs d) <= dcap d ->
  forallb is_lookup ops = true ->
  let c := crun ops scan (cstart d (length ops)) sched in
  map proj (fs (cdc c)) = map proj (fs d) /\
  forall i r, result_of c i = Some r ->
    forall k sz mt,
      (nth_error ops i = Some (Get k) -> alookup (main_path k) (fs d) = Some (sz, mt) ->
       is_temp (main_path k) = false -> min_entry <= sz -> r = OHit) /\
      (nth_error ops i = Some (PpGet k) -> alookup (pp_path k) (fs d) = Some (sz, mt) ->
       is_temp (pp_path k) = false -> r = OFound).
Proof. exact concurrent_lookups_served. Qed.
Print Assumptions C15_concurrent_lookups_served.

(* ... and no lookup waits forever: for ALL configurations (scan length and LOG LEVEL — which nothing in the
   model consults: logging has no influence on locks, answers or the directory), all numbers of simultaneous
   operations and all schedules, in every reachable state the work left (phi) is at most threads * (scan + 2),
   no tick increases it, and unless every operation has returned some thread can take a step that decreases
   it.  No deadlock — in particular no thread ever waits for a mutex it holds itself — and under any fair
   schedule every lookup returns after at most threads * (scan + 2) effective ticks. *)
Theorem C15_lookups_never_deadlock : forall cfg d ops sched,
  let c := crun_cfg cfg ops (cstart d (length ops)) sched in
  (phi (cc_scan cfg) c <= length ops * (cc_scan cfg + 2))%nat /\
  (forall i, phi (cc_scan cfg) (tstep ops (cc_scan cfg) c i) <= phi (cc_scan cfg) c)%nat /\
  (all_done c = true \/
   exists i, (i < length ops)%nat /\ (phi (cc_scan cfg) (tstep ops (cc_scan cfg) c i) < phi (cc_scan cfg) c)%nat).
Proof. exact lookups_never_deadlock. Qed.
Print Assumptions C15_lookups_never_deadlock.

(* misses are compiled normally as far as the storage is concerned: after any read-only history of a
   freshly started server an entry that is not in the directory is a miss, and the store of the
   compiled result is refused without any effect *)
Theorem C15_miss_compiles : forall d ops k n c,
  rw d = false -> main d = None -> pp d = None -> forallb ro_op ops = true ->
  alookup (main_path k) (fs d) = None ->
  let d' := run d ops in
  snd (step d' (Get k)) = OMiss /\
  (step d' (Put k n c) = (d', ORefusedWrapper) \/ step d' (Put k n c) = (d', ORefusedCache)).
Proof. exact miss_compiles. Qed.
Print Assumptions C15_miss_compiles.

(* NOT frozen: a served lookup in read-only mode still rewrites the entry's mtime (set_file_times) —
   backup / rsync tools see the cache directory change *)
Theorem C15_mtime_touched : forall d k,
  rw d = false -> snd (step d (Get k)) = OHit ->
  let d' := fst (step d (Get k)) in
  clk d' = clk d + 1 /\ exists sz, alookup (main_path k) (fs d') = Some (sz, clk d + 1).
Proof. exact mtime_touched. Qed.
Print Assumptions C15_mtime_touched.

(* why read-only mode needs its own open (S12): the read-write open, which read-only mode used
   before the fix, deletes entries of a directory larger than the configured size *)
Theorem C15_rw_open_evicts :
  exists l c p, total_size l > c /\ alookup p l <> None /\
                alookup p (files (open_rw false c l 1000)) = None /\
                alookup p (files (open_ro false c l 1000)) = alookup p l.
Proof. exact rw_open_evicts. Qed.
Print Assumptions C15_rw_open_evicts.

(* configurations: the effective mode is read-only whenever the file or the environment says so and
   the environment does not explicitly say READ_WRITE (after the fix for S20) *)
Theorem C15_mode_effective : forall e f cfg,
  effective e f = Some cfg ->
  (file_mode f = ReadOnly \/ env_mode e = Some ReadOnly) ->
  env_mode e <> Some ReadWrite ->
  c_mode cfg = ReadOnly.
Proof. exact mode_effective. Qed.
Print Assumptions C15_mode_effective.

Theorem C15_env_overrides_own_key_only : forall e f,
  (effective e f = None <-> env_direct e = None) /\
  forall cfg, effective e f = Some cfg ->
    c_dir cfg = match e_dir e with Some d => Some d | None => c_dir (file_cfg f) end /\
    c_size cfg = match env_size e with Some n => n | None => c_size (file_cfg f) end /\
    c_mode cfg = match env_mode e with Some m => m | None => c_mode (file_cfg f) end /\
    pp_use (c_pp cfg) = match env_direct e with Some (Some b) => b | _ => pp_use (c_pp (file_cfg f)) end /\
    pp_stat (c_pp cfg) = pp_stat (c_pp (file_cfg f)) /\
    pp_ctime (c_pp cfg) = pp_ctime (c_pp (file_cfg f)) /\
    pp_ignore_time (c_pp cfg) = pp_ignore_time (c_pp (file_cfg f)) /\
    pp_skip_sys (c_pp cfg) = pp_skip_sys (c_pp (file_cfg f)) /\
    pp_hash_wd (c_pp cfg) = pp_hash_wd (c_pp (file_cfg f)).
Proof. exact env_overrides_own_key_only. Qed.
Print Assumptions C15_env_overrides_own_key_only.

(* configurations x histories *)
Theorem C15_configured_read_only_frozen : forall e f cfg psz l cs ds clk0 items,
  effective e f = Some cfg ->
  (file_mode f = ReadOnly \/ env_mode e = Some ReadOnly) ->
  env_mode e <> Some ReadWrite ->
  forallb ro_item items = true ->
  let d0 := server_cache cfg psz l cs ds clk0 in
  (forall p, entry (run_items d0 items) p = entry d0 p) /\ dirs (run_items d0 items) = dirs d0.
Proof. exact configured_read_only_frozen. Qed.
Print Assumptions C15_configured_read_only_frozen.

(* ---------- non-vacuity ---------- *)

(* S12's shape: read-only, three 30-byte entries + a stale temp file + a preprocessor entry, size 60 *)
Definition ex_dir : fmap :=
  [ ([46;115;99;99;97;99;104;101;116;109;112;79;76;68], (5, 4));                    (* .sccachetmpOLD *)
    ([97;47;98;47;97;98;99;100], (30, 1));                                           (* a/b/abcd *)
    ([99;47;100;47;99;100;101;102], (30, 2));                                        (* c/d/cdef *)
    ([101;47;102;47;101;102;48;49], (30, 3));                                        (* e/f/ef01 *)
    (pp_path [97;98;99;100], (10, 5)) ].
Definition ex_dc (c : N) : dc := start false c 17 ex_dir [] [] 1000.
Definition ex_ops : list op :=
  [Get [97;98;99;100]; PpGet [97;98;99;100]; Put [102;102;102;102] 30 7; PpPut [97;98;99;100];
   Get [101;102;48;49]; Restart false true 10].

Example ex_frozen_nontrivial :
  rw (ex_dc 60) = false /\ forallb ro_op ex_ops = true /\ total_size ex_dir > 60 /\
  map (fun e => (fst e, fst (snd e))) (fs (run (ex_dc 60) ex_ops)) = map (fun e => (fst e, fst (snd e))) ex_dir /\
  fs (run (ex_dc 60) ex_ops) <> ex_dir.          (* mtimes did move *)
Proof. vm_compute. repeat split; congruence. Qed.

Example ex_served_always_nonvacuous :
  ksortedb ex_dir = true /\ total_size ex_dir <= 200 /\
  forallb (ro_op_fits (total_size ex_dir)) (ex_ops ++ [Restart false true 105; Get [97;98;99;100]]) = false /\
  forallb (ro_op_fits (total_size ex_dir)) [Get [101;102;48;49]; Restart false true 105; PpGet [97;98;99;100]] = true.
Proof. vm_compute. repeat split; congruence. Qed.

(* three simultaneous lookups; thread 0 takes the result store and scans for 5 ticks while threads 1 and 2
   are scheduled again and again: 1 waits for the lock, 2 (other store) proceeds; in the end all are served *)
Definition ex_lookups : list op := [Get [97;98;99;100]; Get [101;102;48;49]; PpGet [97;98;99;100]].
Example ex_concurrent :
  let mid := crun ex_lookups 5 (cstart (ex_dc 200) 3) [0; 1; 1; 2; 1; 0; 1; 2]%nat in
  let fin := crun ex_lookups 5 mid (rounds 3 8) in
  lock_main mid = Some 0%nat /\ nth_error (pcs mid) 1 = Some PStart /\ result_of mid 1 = None /\
  map (result_of fin) [0; 1; 2]%nat = [Some OHit; Some OHit; Some OFound] /\
  lock_main fin = None /\ lock_pp fin = None.
Proof. vm_compute. repeat split; reflexivity. Qed.

Example ex_hit_when_it_fits :
  total_size ex_dir <= 200 /\ snd (step (ex_dc 200) (Get [97;98;99;100])) = OHit /\
  snd (step (ex_dc 200) (PpGet [97;98;99;100])) = OFound /\
  snd (step (ex_dc 60) (Get [97;98;99;100])) = OMiss.      (* does not fit: oldest entry not served *)
Proof. vm_compute. repeat split; congruence. Qed.

(* S20's shape: the file says READ_ONLY (and sets a preprocessor option), the environment only moves the directory *)
Example ex_config :
  let f := Some {| f_dir := Some [47;102]; f_size := Some 100; f_mode := Some ReadOnly;
                   f_pp := Some {| f_use := Some true; f_stat := None; f_ctime := None;
                                   f_ignore_time := Some true; f_skip_sys := None; f_hash_wd := None |} |} in
  let e := {| e_dir := Some [47;101]; e_size := None; e_direct := None; e_mode := None |} in
  exists cfg, effective e f = Some cfg /\ c_mode cfg = ReadOnly /\ c_dir cfg = Some [47;101] /\
              c_size cfg = 100 /\ pp_ignore_time (c_pp cfg) = true.
Proof. eexists. vm_compute. repeat split; reflexivity. Qed.
