(* Properties/C19.v — pinned statements for C19: build-server jobs cannot read or create files outside their
   private root (PARTIAL: the path arithmetic of the server, not bubblewrap itself).
   Model: Model/Paths.v (the code after the three fix: commits of verif/C19).  Proofs: Proofs/Paths.v. *)
From Coq Require Import List NArith Bool.
From Coq Require String.
Import String.StringSyntax.
From Sccache Require Import Base.Sx Model.Paths Proofs.Paths Model.C19Docker Proofs.C19Docker.
Import ListNotations.
Local Open Scope N_scope.

(* For ALL root / suffix strings and ALL symlinks below the root: whatever join_suffix returns resolves (from any
   starting directory, in the kernel's symlink-free reading) to the root followed by plain names, and none of
   those names, as a path below the root, is a symlink. *)
Theorem C19_join_suffix_confined :
  forall (lk : links) (root suffix p : bytes) (start : list name),
    join_suffix lk root suffix = Some p ->
    exists ns,
      resolve start (components p) = resolve start (components root) ++ ns
      /\ is_prefix (resolve start (components root)) (resolve start (components p)) = true
      /\ forallb plain_name ns = true
      /\ (forall k, (1 <= k <= length ns)%nat -> lk (firstn k ns) = None).
Proof. exact join_suffix_confined. Qed.
Print Assumptions C19_join_suffix_confined.

(* The same seen from the host: if the job root sits at the resolved host position R and hl are ALL symlinks of
   the host, then walking the names join_suffix appended, starting in R, follows no symlink (whatever the link
   budget) and ends at R ++ ns, i.e. below R. *)
Theorem C19_no_symlink_followed :
  forall (hl : links) (R : list name) (root suffix p : bytes) (b : nat),
    join_suffix (fun q => hl (R ++ q)) root suffix = Some p ->
    exists ns, components p = components root ++ map CNormal ns
               /\ walk hl b (map CNormal ns) (rev R) = Some (rev (R ++ ns)).
Proof. exact no_symlink_followed. Qed.
Print Assumptions C19_no_symlink_followed.

(* nothing is refused in a tree without symlinks: confinement is by normalisation, not by rejecting clients *)
Theorem C19_join_suffix_total_without_links :
  forall root suffix, exists p, join_suffix no_links root suffix = Some p.
Proof. exact join_suffix_no_links. Qed.
Print Assumptions C19_join_suffix_total_without_links.

(* Every path prepare_overlay_dirs / perform_build create or open for a job, for ALL server directories, ids,
   counters, cwd and output strings and ALL symlinks in the job root before (lk0) and after (lk1) the job ran: the unpacked toolchain is toolchains/<id>, the build directory
   builds/<id>-<n> with work/upper/target inside, and every directory created for cwd / outputs and every
   output opened is below builds/<id>-<n>/target and not below toolchains/. *)
Theorem C19_job_confined :
  forall lk0 lk1 dir id n cwd outs effs start e,
    job_paths lk0 lk1 dir id n cwd outs = JOk effs -> In e effs ->
    let r := resolve start (components dir) in
    let p := resolve start (components (effect_path e)) in
    let nm := build_name id n in
    valid_id id = true /\
    match e with
    | Mkdir _ => p = r ++ [s_toolchains; id] \/ p = r ++ [s_builds; nm] \/ p = r ++ [s_builds; nm; s_work]
                 \/ p = r ++ [s_builds; nm; s_upper] \/ p = r ++ [s_builds; nm; s_target]
    | MkdirAll _ | Open _ =>
        is_prefix (r ++ [s_builds; nm; s_target]) p = true /\ is_prefix (r ++ [s_toolchains]) p = false
    end.
Proof. exact job_confined. Qed.
Print Assumptions C19_job_confined.

(* the toolchain cache entry of a valid id is <cache root>/<c0>/<c1>/<id>, and computing it never panics *)
Theorem C19_cache_file_confined :
  forall root id, valid_id id = true ->
    exists b0 b1 rest p, id = b0 :: b1 :: rest /\ cache_file root id = Some p /\
      forall start, resolve start (components p) = resolve start (components root) ++ [[b0]; [b1]; id].
Proof. exact cache_file_spec. Qed.
Print Assumptions C19_cache_file_confined.

(* ids that are not plain lowercase-hex names are refused by every entry point, with no effect and no state
   change; accepted ids are plain names (no separator, not "." or "..") on which make_lru_key_path is total *)
Theorem C19_rejects_escapes :
  forall id, valid_id id = false ->
    (forall lk0 lk1 dir n cwd outs, job_paths lk0 lk1 dir id n cwd outs = JBadId)
    /\ (forall root, cache_file root id = None)
    /\ (forall s j, assign s j id = (s, AErr))
    /\ (forall b c n, prepare b id c n = (b, None)).
Proof. exact invalid_refused. Qed.
Print Assumptions C19_rejects_escapes.

Theorem C19_valid_ids_are_plain_names :
  forall id, valid_id id = true -> plain_name id = true /\ lru_key id <> None.
Proof. exact valid_id_plain. Qed.
Print Assumptions C19_valid_ids_are_plain_names.

(* the server state only ever holds valid ids, for ALL cache sizes and ALL request sequences (jobs run to the end,
   jobs started and left running, releases) *)
Theorem C19_server_ids_valid :
  forall ok c ops, Forall (fun x => srv_ok (snd x)) (do_ops (server1 ok c) 1 ops).
Proof. intros ok c ops. apply do_ops_ok. apply server1_ok. Qed.
Print Assumptions C19_server_ids_valid.

(* For ALL sequences of prepare / finish / evict on the builder: the live build directories are pairwise
   distinct ... *)
Theorem C19_jobs_disjoint : forall ops, NoDup (live (brun ops)).
Proof. exact brun_NoDup. Qed.
Print Assumptions C19_jobs_disjoint.

(* ... a successful prepare_overlay_dirs hands out a directory nobody else is using, named <id>-<k>, with k one
   more than the toolchain's previous count and 1 for a toolchain that has to be unpacked (again) - so the same
   name can come up while an older job still owns it ... *)
Theorem C19_prepare_fresh :
  forall b id ic n b' nm, prepare b id ic n = (b', Some nm) ->
    valid_id id = true
    /\ ~ In nm (live b)
    /\ live b' = nm :: live b
    /\ exists k, nm = build_name id k
                 /\ (forall c, blookup id (dirmap b) = Some c -> In id (unpacked b) -> k = c + 1)
                 /\ (blookup id (dirmap b) = None \/ ~ In id (unpacked b) -> k = 1).
Proof. exact prepare_spec. Qed.
Print Assumptions C19_prepare_fresh.

(* ... in which case THE GUARD (create_dir of an existing build directory fails) makes prepare_overlay_dirs refuse:
   disjointness rests on it, not on the counter ... *)
Theorem C19_prepare_guard :
  forall b id ic n b' o, prepare b id ic n = (b', o) ->
    forall k, In (build_name id k) (live b) ->
      (forall c, blookup id (dirmap b) = Some c -> In id (unpacked b) -> k = c + 1) ->
      (blookup id (dirmap b) = None \/ ~ In id (unpacked b) -> k = 1) ->
      o = None.
Proof. exact prepare_guard. Qed.
Print Assumptions C19_prepare_guard.

(* ... at the level of the server: a job whose compile gets started has a root no running job has *)
Theorem C19_started_job_root_fresh :
  forall s j r s' nm t1 t2, run_begin s j r = (s', BRunning nm t1 t2) ->
    (exists id k, valid_id id = true /\ nm = build_name id k)
    /\ ~ In nm (live (bld s)) /\ live (bld s') = nm :: live (bld s).
Proof. exact run_begin_fresh. Qed.
Print Assumptions C19_started_job_root_fresh.

(* ... names determine (id, counter) ... *)
Theorem C19_build_names_injective :
  forall id n id' n', valid_id id = true -> valid_id id' = true ->
    build_name id n = build_name id' n' -> id = id' /\ n = n'.
Proof. exact build_name_inj. Qed.
Print Assumptions C19_build_names_injective.

(* ... and two different build directories are not nested. *)
Theorem C19_build_roots_not_nested :
  forall r nm1 nm2 rest, nm1 <> nm2 ->
    is_prefix (r ++ [s_builds; nm1]) (r ++ [s_builds; nm2] ++ rest) = false.
Proof. exact build_roots_disjoint. Qed.
Print Assumptions C19_build_roots_not_nested.

(* Nothing the server does for a job after unpacking touches the unpacked toolchain (the overlay's lower layer;
   that overlayfs itself never writes to a lower layer is assumed). *)
Theorem C19_toolchain_readonly_by_construction :
  forall lk0 lk1 dir id n cwd outs effs start e,
    job_paths lk0 lk1 dir id n cwd outs = JOk effs -> In e effs ->
    match e with
    | Mkdir _ => True
    | MkdirAll p | Open p =>
        is_prefix (resolve start (components dir) ++ [s_toolchains]) (resolve start (components p)) = false
    end.
Proof. exact toolchain_untouched. Qed.
Print Assumptions C19_toolchain_readonly_by_construction.

(* In the server model (overlay assumption: each job starts from the unpacked toolchain plus its own inputs),
   what a job finds in its root and what is returned as its outputs is a function of its own request and its
   toolchain: no trace of any earlier or concurrent job, whatever the history s / s' of the server. *)
Theorem C19_job_view_independent_of_history :
  forall s j s' j' r id id' s1 rr tg sn outs s1' rr' tg' sn' outs',
    jlookup j (jobs s) = Some id -> jlookup j' (jobs s') = Some id' -> kind_of s id = kind_of s' id' ->
    run s j r = (s1, (rr, Some tg, sn, outs)) ->
    run s' j' r = (s1', (rr', Some tg', sn', outs')) ->
    rr = rr' /\ sn = sn' /\ outs = outs'.
Proof. exact run_view_independent. Qed.
Print Assumptions C19_job_view_independent_of_history.

(* The launcher (bubblewrap) is the one program the server starts ON THE HOST for a job.  For ALL client
   environments, targets, working directories and commands: the environment the launcher is started with is the
   server's, whatever the client sent ... *)
Theorem C19_launcher_env_independent :
  forall senv t c env exe args t' c' env' exe' args',
    l_env (spawn_launcher senv t c env exe args) = l_env (spawn_launcher senv t' c' env' exe' args') /\
    l_env (spawn_launcher senv t c env exe args) = senv.
Proof. exact launcher_env_independent. Qed.
Print Assumptions C19_launcher_env_independent.

(* ... and every client variable (those whose name holds '=' are dropped) reaches it as data behind `--setenv` *)
Theorem C19_client_env_only_after_setenv :
  forall t c env k v, In (k, v) (client_env env) ->
    exists pre post, bwrap_argv t c env = pre ++ [s_setenv; k; v] ++ post.
Proof. exact client_env_after_setenv. Qed.
Print Assumptions C19_client_env_only_after_setenv.

(* No overlay, no job: on a server whose build directory cannot carry an overlay (it lies on an overlay itself, as
   in a container), no job ever gets a root - for ALL states, job ids and requests. *)
Theorem C19_no_overlay_no_job :
  forall s j r, ovl_ok s = false -> forall s' nm t1 t2, run_begin s j r <> (s', BRunning nm t1 t2).
Proof. exact no_overlay_no_job. Qed.
Print Assumptions C19_no_overlay_no_job.

(* Docker builder: the container made from the toolchain image IS the unpacked toolchain later jobs get.  For ALL
   `docker diff` texts and ALL dockers (the second diff as any function of the paths removed): clean_container
   lets a container back into the pool only if every line of its diff is an addition (`A`) or is about /tmp -
   nothing changed, nothing deleted -, every path it removed is the path of such an `A` line, and the diff taken
   after the removals is empty or exactly "C /tmp". *)
Theorem C19_docker_pool_only_additions :
  forall diff docker rms,
    clean_container diff docker = (rms, true) ->
    Forall line_ok (match diff with [] => [] | _ => split_by NL diff end)
    /\ (forall p, In p rms -> exists l, In l (split_by NL diff) /\ split_first_space l = (s_A, Some p))
    /\ (diff = [] \/ docker rms = [] \/ docker rms = s_C_tmp).
Proof. exact clean_container_sound. Qed.
Print Assumptions C19_docker_pool_only_additions.

(* whether or not the container is kept, the only paths clean_container ever removes in it are paths of `A` lines *)
Theorem C19_docker_removes_added_only :
  forall diff docker rms ok,
    clean_container diff docker = (rms, ok) ->
    forall p, In p rms -> exists l, In l (split_by NL diff) /\ split_first_space l = (s_A, Some p).
Proof. exact clean_container_removes_added_only. Qed.
Print Assumptions C19_docker_removes_added_only.

(* std::path: Path::join on bytes is the component-level join *)
Theorem C19_components_join : forall p q, components (push p q) = join_c (components p) (components q).
Proof. exact components_push. Qed.
Print Assumptions C19_components_join.

(* ---------------------------------------------------------------- non-vacuity *)
Local Open Scope string_scope.

(* the old escape now stays inside *)
Example ex_dotdot : join_suffix no_links (bs "/t") (bs "/../../x") = Some (bs "/t/x").
Proof. vm_compute. reflexivity. Qed.

(* a symlink lnk -> ../../etc below the root is resolved inside the root *)
Definition ex_links : links := fun q => if names_eqb q [bs "lnk"] then Some (bs "../../etc") else None.
Example ex_link : join_suffix ex_links (bs "/t") (bs "lnk/passwd") = Some (bs "/t/etc/passwd").
Proof. vm_compute. reflexivity. Qed.

(* a symlink loop is given up on *)
Definition ex_loop : links := fun q => if names_eqb q [bs "a"] then Some (bs "a") else None.
Example ex_eloop : join_suffix ex_loop (bs "/t") (bs "a") = None.
Proof. vm_compute. reflexivity. Qed.

Example ex_job :
  job_paths no_links no_links (bs "/srv") (bs "ab") 7 (bs "/../../x") [bs "../../etc/passwd"] =
  JOk [ Mkdir (bs "/srv/toolchains/ab"); Mkdir (bs "/srv/builds/ab-7"); Mkdir (bs "/srv/builds/ab-7/work");
        Mkdir (bs "/srv/builds/ab-7/upper"); Mkdir (bs "/srv/builds/ab-7/target");
        MkdirAll (bs "/srv/builds/ab-7/target/x"); MkdirAll (bs "/srv/builds/ab-7/target/etc");
        Open (bs "/srv/builds/ab-7/target/etc/passwd") ].
Proof. vm_compute. reflexivity. Qed.

Example ex_bad_ids :
  map valid_id [bs ""; bs "a"; bs "../x"; bs "/etc/cron.d/x"; bs "AB12"; bs "ab"] = [false; false; false; false; false; true].
Proof. vm_compute. reflexivity. Qed.

(* the job that rewrites /bin/cc and leaves /bin/cc.orig beside it does not get its container back into the pool;
   an ordinary job's additions are removed (component-wise: /ab is not below /a) and it does *)
(* a path ending in a blank at the end of the listing is trimmed away: rm -rf of the mangled name removes nothing,
   and it is the second diff that keeps the container out of the pool *)
Example ex_docker_trailing_blank :
  clean_lines [bs "A /zzz "] = ([bs "/zzz"], false, [bs "A /zzz "]).
Proof. vm_compute. reflexivity. Qed.
Example ex_docker_tampered :
  clean_lines [bs "C /bin"; bs "C /bin/cc"; bs "A /bin/cc.orig"]
  = ([], false, [bs "C /bin"; bs "C /bin/cc"; bs "A /bin/cc.orig"]).
Proof. vm_compute. reflexivity. Qed.
Example ex_docker_ordinary :
  clean_lines [bs "A /a"; bs "A /a/b"; bs "A /ab"; bs "C /tmp"; bs "A /tmp/x"]
  = ([bs "/a"; bs "/ab"; bs "/tmp/x"], true, [bs "C /tmp"]).
Proof. vm_compute. reflexivity. Qed.

Example ex_prepare :
  snd (prepare builder0 (bs "ab") true 1) = Some (bs "ab-1").
Proof. vm_compute. reflexivity. Qed.

(* the interleaving behind the guard: job 1 of toolchain ab is running; the builder forgets ab (its archive was
   evicted and another toolchain's job pruned the map); ab comes back and a new job of it is refused, the running
   job keeps its directory *)
Example ex_counter_restarts :
  let b1 := fst (prepare builder0 (bs "ab") true 1) in
  let b2 := fst (prepare b1 (bs "cd") true 1) in
  (live b1, map fst (dirmap b2), prepare b2 (bs "ab") true 1)
  = ([bs "ab-1"], [bs "cd"],
     ({| dirmap := [(bs "ab", 1)]; unpacked := [bs "ab"]; live := [bs "cd-1"; bs "ab-1"] |}, None)).
Proof. vm_compute. reflexivity. Qed.
