(* Properties/C02.v — pinned statements for property C02:
   "C/C++ cache key covers every result-affecting component, without aliasing".

   [the_spec] is regenerated from the sources on every run (Gen/C02HashSpec.v); [H] stands for util::hex . BLAKE3.
   [encode_c H the_spec r] / [encode_pp H the_spec r] are the byte strings fed to BLAKE3 by hash_key /
   preprocessor_cache_entry_hash_key (Model/KeyEnc.v; tied to the real functions by the differential legs). *)
From Coq Require Import List NArith Bool.
From Sccache Require Import Base.Sx Model.KeyEnc Proofs.KeyEnc Proofs.KeyEncSpec Gen.C02HashSpec Gen.C02HashSpec_ok.
Import ListNotations.
Local Open Scope N_scope.

(* ------------------------------------------------------------------ the result key (hash_key) *)

(* Equal pre-images => equal components.  Well-formedness is boolean: 64-hex digests, no NUL in arguments /
   allow-listed values / preprocessor output, lengths < 2^56, known language, pp_ok; extra_pp_ok settles the one
   boundary that carries no delimiter (same number of extra hashes, or no output starting with 64 hex digits). *)
Theorem C02_encode_injective :
  forall (H : bytes -> bytes) (r1 r2 : creq),
    wf_c the_spec r1 = true -> wf_c the_spec r2 = true -> extra_pp_ok r1 r2 = true ->
    encode_c H the_spec r1 = encode_c H the_spec r2 ->
    canon_c the_spec r1 = canon_c the_spec r2.
Proof. exact (fun H r1 r2 => encode_c_inj H the_spec r1 r2 the_spec_good). Qed.
Print Assumptions C02_encode_injective.

(* The same without extra_pp_ok: everything is determined except that trailing extra hashes may trade places with
   the beginning of the preprocessor output. *)
Theorem C02_encode_injective_gen :
  forall (H : bytes -> bytes) (r1 r2 : creq),
    wf_c the_spec r1 = true -> wf_c the_spec r2 = true ->
    encode_c H the_spec r1 = encode_c H the_spec r2 ->
    digest r1 = digest r2 /\ plusplus r1 = plusplus r2 /\
    tag_of the_spec (lang r1) = tag_of the_spec (lang r2) /\
    args r1 = args r2 /\ fenv (allow_main the_spec) r1 = fenv (allow_main the_spec) r2 /\
    exists hs, Forall (fun h => is_hex64 h = true) hs /\
               ((extra r1 = extra r2 ++ hs /\ pp r2 = concat hs ++ pp r1) \/
                (extra r2 = extra r1 ++ hs /\ pp r1 = concat hs ++ pp r2)).
Proof. exact (fun H r1 r2 => encode_c_inj_gen H the_spec r1 r2 the_spec_good). Qed.
Print Assumptions C02_encode_injective_gen.

(* Languages: equal tags => equal languages, up to the driver-bound alias Cuda/CudaFE (Model/KeyEnc.v). *)
Theorem C02_lang_injective :
  forall l1 l2 : bytes,
    lang_known the_spec l1 = true -> lang_known the_spec l2 = true ->
    tag_of the_spec l1 = tag_of the_spec l2 -> l1 = l2 \/ alias_exempt l1 l2 = true.
Proof. exact (fun l1 l2 => lang_injective the_spec l1 l2 the_spec_tags_ok). Qed.
Print Assumptions C02_lang_injective.

Theorem C02_single_change :
  forall (H : bytes -> bytes) (r1 r2 : creq),
    wf_c the_spec r1 = true -> wf_c the_spec r2 = true -> one_differs_c the_spec r1 r2 ->
    encode_c H the_spec r1 <> encode_c H the_spec r2.
Proof. exact (fun H r1 r2 => single_change_c H the_spec r1 r2 the_spec_good). Qed.
Print Assumptions C02_single_change.

Theorem C02_boundary_shift :
  forall (H : bytes -> bytes) (r : creq) (pre : list bytes) (a b s : bytes) (post : list bytes),
    s <> [] ->
    wf_c the_spec (set_args r (pre ++ [a ++ s; b] ++ post)) = true ->
    wf_c the_spec (set_args r (pre ++ [a; s ++ b] ++ post)) = true ->
    encode_c H the_spec (set_args r (pre ++ [a ++ s; b] ++ post))
    <> encode_c H the_spec (set_args r (pre ++ [a; s ++ b] ++ post)).
Proof. exact (fun H r pre a b s post => boundary_shift_c H the_spec r pre a b s post the_spec_good). Qed.
Print Assumptions C02_boundary_shift.

Theorem C02_split_merge :
  forall (H : bytes -> bytes) (r : creq) (pre : list bytes) (a b : bytes) (post : list bytes),
    wf_c the_spec (set_args r (pre ++ [a ++ b] ++ post)) = true ->
    wf_c the_spec (set_args r (pre ++ [a; b] ++ post)) = true ->
    encode_c H the_spec (set_args r (pre ++ [a ++ b] ++ post))
    <> encode_c H the_spec (set_args r (pre ++ [a; b] ++ post)).
Proof. exact (fun H r pre a b post => split_merge_c H the_spec r pre a b post the_spec_good). Qed.
Print Assumptions C02_split_merge.

Theorem C02_name_value_shift :
  forall (H : bytes -> bytes) (r : creq) (pre post : list (bytes * bytes)) (k1 v1 k2 v2 : bytes),
    k1 ++ v1 = k2 ++ v2 -> k1 <> k2 ->
    allowed (allow_main the_spec) k1 = true \/ allowed (allow_main the_spec) k2 = true ->
    wf_c the_spec (set_env r (pre ++ [(k1, v1)] ++ post)) = true ->
    wf_c the_spec (set_env r (pre ++ [(k2, v2)] ++ post)) = true ->
    encode_c H the_spec (set_env r (pre ++ [(k1, v1)] ++ post))
    <> encode_c H the_spec (set_env r (pre ++ [(k2, v2)] ++ post)).
Proof. exact (fun H r pre post k1 v1 k2 v2 => name_value_shift_c H the_spec r pre post k1 v1 k2 v2 the_spec_good). Qed.
Print Assumptions C02_name_value_shift.

Theorem C02_list_move :
  forall (H : bytes -> bytes) (r : creq),
    (forall h, wf_c the_spec (set_args r (args r ++ [h])) = true ->
               wf_c the_spec (set_extra r (h :: extra r)) = true ->
               encode_c H the_spec (set_args r (args r ++ [h])) <> encode_c H the_spec (set_extra r (h :: extra r))) /\
    (forall pre post k v,
        env r = pre ++ [(k, v)] ++ post ->
        wf_c the_spec r = true ->
        wf_c the_spec (set_args (set_env r (pre ++ post)) (args r ++ [k ++ [61] ++ v])) = true ->
        encode_c H the_spec r
        <> encode_c H the_spec (set_args (set_env r (pre ++ post)) (args r ++ [k ++ [61] ++ v]))).
Proof. exact (fun H r => list_move_c H the_spec r the_spec_good). Qed.
Print Assumptions C02_list_move.

(* The C-vs-C++ driver mode at its SOURCE (compiler.rs detect_c_compiler, translated into the_script_ids /
   the_drivers): a detected kind yields plusplus() = true exactly when its id ends in "++", and every "++" id the
   detection script can print is handled ... *)
Theorem C02_driver_mode_table :
  (forall k b, driver_pp the_drivers k = Some b -> b = ends_pp k) /\
  (forall i, In i the_script_ids -> ends_pp i = true -> driver_pp the_drivers i = Some true).
Proof. exact (drivers_ok_spec the_script_ids the_drivers the_drivers_ok). Qed.
Print Assumptions C02_driver_mode_table.

(* ... hence the C and the C++ driver of one binary (same digest, same version, same everything else) never share
   a pre-image. *)
Theorem C02_driver_mode_separates :
  forall (H : bytes -> bytes) (r : creq) (k1 k2 : bytes) (b1 b2 : bool),
    driver_pp the_drivers k1 = Some b1 -> driver_pp the_drivers k2 = Some b2 ->
    ends_pp k1 = true -> ends_pp k2 = false ->
    wf_c the_spec (set_plusplus r b1) = true -> wf_c the_spec (set_plusplus r b2) = true ->
    encode_c H the_spec (set_plusplus r b1) <> encode_c H the_spec (set_plusplus r b2).
Proof.
  exact (fun H r k1 k2 b1 b2 =>
           driver_mode_separates H the_spec the_script_ids the_drivers r k1 k2 b1 b2 the_spec_good the_drivers_ok).
Qed.
Print Assumptions C02_driver_mode_separates.

(* generate_hash_key hands the key functions an environment that still contains every variable of both allow-lists *)
Theorem C02_env_reaches_keys : prefilter_ok the_env_prefilter the_spec = true.
Proof. exact the_prefilter_ok. Qed.
Print Assumptions C02_env_reaches_keys.

(* "the ordered list of hashed arguments": generate_hash_key builds the hashed argument list as a plain concatenation
   of the parsed request's lists (the_flow_c, translated), so two requests that differ only in the ORDER or the
   MULTIPLICITY of their -arch arguments have different pre-images. *)
Theorem C02_arch_list_covered :
  forall (H : bytes -> bytes) (r : creq) (p1 p2 : parsed),
    pa_common p1 = pa_common p2 -> pa_profile p1 = pa_profile p2 ->
    wf_c the_spec (set_args r (hashed_args the_flow_c p1)) = true ->
    wf_c the_spec (set_args r (hashed_args the_flow_c p2)) = true ->
    encode_c H the_spec (set_args r (hashed_args the_flow_c p1))
    = encode_c H the_spec (set_args r (hashed_args the_flow_c p2)) ->
    pa_arch p1 = pa_arch p2.
Proof. exact (fun H r p1 p2 => arch_list_covered_c H the_spec the_flow_c r p1 p2 the_spec_good the_flow_c_ok). Qed.
Print Assumptions C02_arch_list_covered.

(* "the digests of extra hashed files", as an ORDERED list: util::hash_all (translated: the_extra_order) puts the digest
   of the i-th file at position i, so two requests whose extra files differ as lists of contents - also by a mere
   permutation - have different pre-images. *)
Theorem C02_extra_files_ordered :
  forall (H : bytes -> bytes) (r : creq) (c1 c2 : list bytes),
    length c1 = length c2 ->
    (forall a b, In a c1 -> In b c2 -> H a = H b -> a = b) ->
    wf_c the_spec (set_extra r (extra_digests the_extra_order H c1)) = true ->
    wf_c the_spec (set_extra r (extra_digests the_extra_order H c2)) = true ->
    encode_c H the_spec (set_extra r (extra_digests the_extra_order H c1))
    = encode_c H the_spec (set_extra r (extra_digests the_extra_order H c2)) ->
    c1 = c2.
Proof. exact (fun H r c1 c2 => extra_files_ordered_c H the_spec the_extra_order r c1 c2 the_spec_good the_extra_order_ok). Qed.
Print Assumptions C02_extra_files_ordered.

(* The file-content digests inside the pre-images (compiler binary, extra hashed files, input file): the digest of a
   reader is H of ALL its bytes, whatever the sizes of the pieces the reads deliver (short reads of FIFOs, network
   and FUSE file systems included); the_reader_loop is the translated loop of Digest::reader_sync_with. *)
Theorem C02_reader_digest_pieces :
  forall (H : bytes -> bytes) (ps1 ps2 : list bytes),
    forallb nonempty ps1 = true -> forallb nonempty ps2 = true -> concat ps1 = concat ps2 ->
    reader_digest the_reader_loop H ps1 = H (concat ps1) /\
    reader_digest the_reader_loop H ps1 = reader_digest the_reader_loop H ps2.
Proof. exact (fun H ps1 ps2 => reader_digest_pieces the_reader_loop H ps1 ps2 the_reader_loop_ok). Qed.
Print Assumptions C02_reader_digest_pieces.

(* BLAKE3's collision-freeness is a hypothesis on exactly the two encodings compared. *)
Theorem C02_key_iff :
  forall (H : bytes -> bytes) (r1 r2 : creq),
    wf_c the_spec r1 = true -> wf_c the_spec r2 = true -> extra_pp_ok r1 r2 = true ->
    (H (encode_c H the_spec r1) = H (encode_c H the_spec r2) -> encode_c H the_spec r1 = encode_c H the_spec r2) ->
    (key H the_spec r1 = key H the_spec r2 <-> canon_c the_spec r1 = canon_c the_spec r2).
Proof. exact (fun H r1 r2 => key_iff H the_spec r1 r2 the_spec_good). Qed.
Print Assumptions C02_key_iff.

(* ------------------------------------------------------------------ the preprocessor-level key *)

(* well-formedness (wf_p) additionally asks: absolute NUL-free path that neither extends the language tag into another
   tag nor ends in 64 hex digits and "-"; year/month/day/nanoseconds < 2^32, seconds < 2^64.
   [salted r] = the file mentions __DATE__ or __TIMESTAMP__ and time macros are not ignored; then the digest component
   is  H(contents) "-" H(time_pre r)  with  time_pre r  made of the date, SOURCE_DATE_EPOCH and the mtime. *)
Theorem C02_pp_encode_injective :
  forall (H : bytes -> bytes), (forall x, is_hex64 (H x) = true) ->
  forall r1 r2 : creq,
    wf_p the_spec r1 = true -> wf_p the_spec r2 = true ->
    encode_pp H the_spec r1 = encode_pp H the_spec r2 ->
    digest r1 = digest r2 /\ plusplus r1 = plusplus r2 /\
    tag_of the_spec (lang r1) = tag_of the_spec (lang r2) /\
    args r1 = args r2 /\ extra r1 = extra r2 /\ fenv (allow_pp the_spec) r1 = fenv (allow_pp the_spec) r2 /\
    path r1 = path r2 /\ salted r1 = salted r2 /\ H (input r1) = H (input r2) /\
    (salted r1 = true -> H (time_pre r1) = H (time_pre r2)).
Proof. exact (fun H Hh r1 r2 => encode_pp_inj H Hh the_spec r1 r2 the_spec_good). Qed.
Print Assumptions C02_pp_encode_injective.

(* ... and with collision-freeness of H on the two file contents and the two inner time pre-images: all nine
   components, i.e. also the file contents and what the key sees of date / SOURCE_DATE_EPOCH / mtime. *)
Theorem C02_pp_encode_injective_canon :
  forall (H : bytes -> bytes), (forall x, is_hex64 (H x) = true) ->
  forall r1 r2 : creq,
    wf_p the_spec r1 = true -> wf_p the_spec r2 = true ->
    (H (input r1) = H (input r2) -> input r1 = input r2) ->
    (H (time_pre r1) = H (time_pre r2) -> time_pre r1 = time_pre r2) ->
    encode_pp H the_spec r1 = encode_pp H the_spec r2 ->
    canon_p the_spec r1 = canon_p the_spec r2.
Proof. exact (fun H Hh r1 r2 => pp_components H Hh the_spec r1 r2 the_spec_good). Qed.
Print Assumptions C02_pp_encode_injective_canon.

(* the inner time pre-image determines the date, SOURCE_DATE_EPOCH and the mtime it was made of *)
Theorem C02_pp_time_salt_injective :
  forall r1 r2 : creq,
    input r1 = input r2 -> time_ok r1 = true -> time_ok r2 = true -> time_pre r1 = time_pre r2 ->
    (has_date r1 = true -> date r1 = date r2 /\ sde_bytes r1 = sde_bytes r2) /\
    (has_stamp r1 = true -> mtime r1 = mtime r2).
Proof. exact time_pre_inj. Qed.
Print Assumptions C02_pp_time_salt_injective.

Theorem C02_pp_single_change :
  forall (H : bytes -> bytes), (forall x, is_hex64 (H x) = true) ->
  forall r1 r2 : creq,
    wf_p the_spec r1 = true -> wf_p the_spec r2 = true ->
    (H (input r1) = H (input r2) -> input r1 = input r2) ->
    (H (time_pre r1) = H (time_pre r2) -> time_pre r1 = time_pre r2) ->
    one_differs_p the_spec r1 r2 ->
    encode_pp H the_spec r1 <> encode_pp H the_spec r2.
Proof. exact (fun H Hh r1 r2 => single_change_p H Hh the_spec r1 r2 the_spec_good). Qed.
Print Assumptions C02_pp_single_change.

Theorem C02_pp_arch_list_covered :
  forall (H : bytes -> bytes), (forall x, is_hex64 (H x) = true) ->
  forall (r : creq) (p1 p2 : parsed),
    pa_pre p1 = pa_pre p2 -> pa_common p1 = pa_common p2 -> pa_profile p1 = pa_profile p2 -> pa_cwd p1 = pa_cwd p2 ->
    wf_p the_spec (set_args r (hashed_args the_flow_p p1)) = true ->
    wf_p the_spec (set_args r (hashed_args the_flow_p p2)) = true ->
    encode_pp H the_spec (set_args r (hashed_args the_flow_p p1))
    = encode_pp H the_spec (set_args r (hashed_args the_flow_p p2)) ->
    pa_arch p1 = pa_arch p2.
Proof.
  exact (fun H Hh r p1 p2 => arch_list_covered_p H Hh the_spec the_flow_p r p1 p2 the_spec_good the_flow_p_ok).
Qed.
Print Assumptions C02_pp_arch_list_covered.

(* "the input path": the preprocessor-level key gets cwd joined with the path as GIVEN (the_input_path_mode), so two
   spellings that differ as byte strings - e.g. a symbolic link and its target - have different pre-images. *)
Theorem C02_pp_input_path_as_given :
  forall (H : bytes -> bytes), (forall x, is_hex64 (H x) = true) ->
  forall (r : creq) (cwd i1 i2 : bytes),
    wf_p the_spec (set_path r (input_path_of the_input_path_mode cwd i1)) = true ->
    wf_p the_spec (set_path r (input_path_of the_input_path_mode cwd i2)) = true ->
    encode_pp H the_spec (set_path r (input_path_of the_input_path_mode cwd i1))
    = encode_pp H the_spec (set_path r (input_path_of the_input_path_mode cwd i2)) ->
    input_path_of AsGiven cwd i1 = input_path_of AsGiven cwd i2.
Proof.
  exact (fun H Hh r cwd i1 i2 =>
           input_path_as_given H Hh the_spec the_input_path_mode r cwd i1 i2 the_spec_good the_input_path_mode_ok).
Qed.
Print Assumptions C02_pp_input_path_as_given.

Theorem C02_pp_boundary_shift :
  forall (H : bytes -> bytes), (forall x, is_hex64 (H x) = true) ->
  forall (r : creq) (pre : list bytes) (a b s : bytes) (post : list bytes),
    s <> [] ->
    wf_p the_spec (set_args r (pre ++ [a ++ s; b] ++ post)) = true ->
    wf_p the_spec (set_args r (pre ++ [a; s ++ b] ++ post)) = true ->
    encode_pp H the_spec (set_args r (pre ++ [a ++ s; b] ++ post))
    <> encode_pp H the_spec (set_args r (pre ++ [a; s ++ b] ++ post)).
Proof. exact (fun H Hh r pre a b s post => boundary_shift_p H Hh the_spec r pre a b s post the_spec_good). Qed.
Print Assumptions C02_pp_boundary_shift.

Theorem C02_pp_name_value_shift :
  forall (H : bytes -> bytes), (forall x, is_hex64 (H x) = true) ->
  forall (r : creq) (pre post : list (bytes * bytes)) (k1 v1 k2 v2 : bytes),
    k1 ++ v1 = k2 ++ v2 -> k1 <> k2 ->
    allowed (allow_pp the_spec) k1 = true \/ allowed (allow_pp the_spec) k2 = true ->
    wf_p the_spec (set_env r (pre ++ [(k1, v1)] ++ post)) = true ->
    wf_p the_spec (set_env r (pre ++ [(k2, v2)] ++ post)) = true ->
    encode_pp H the_spec (set_env r (pre ++ [(k1, v1)] ++ post))
    <> encode_pp H the_spec (set_env r (pre ++ [(k2, v2)] ++ post)).
Proof.
  exact (fun H Hh r pre post k1 v1 k2 v2 => name_value_shift_p H Hh the_spec r pre post k1 v1 k2 v2 the_spec_good).
Qed.
Print Assumptions C02_pp_name_value_shift.

Theorem C02_pp_list_move :
  forall (H : bytes -> bytes), (forall x, is_hex64 (H x) = true) ->
  forall r : creq,
    (forall h, wf_p the_spec (set_args r (args r ++ [h])) = true ->
               wf_p the_spec (set_extra r (h :: extra r)) = true ->
               encode_pp H the_spec (set_args r (args r ++ [h])) <> encode_pp H the_spec (set_extra r (h :: extra r))) /\
    (forall c rest, input r = c :: rest ->
               wf_p the_spec r = true -> wf_p the_spec (set_input (set_path r (path r ++ [c])) rest) = true ->
               encode_pp H the_spec r <> encode_pp H the_spec (set_input (set_path r (path r ++ [c])) rest)).
Proof. exact (fun H Hh r => list_move_p H Hh the_spec r the_spec_good). Qed.
Print Assumptions C02_pp_list_move.

Theorem C02_pp_key_iff :
  forall (H : bytes -> bytes), (forall x, is_hex64 (H x) = true) ->
  forall r1 r2 : creq,
    wf_p the_spec r1 = true -> wf_p the_spec r2 = true ->
    gated the_spec r1 = false -> gated the_spec r2 = false ->
    (H (encode_pp H the_spec r1) = H (encode_pp H the_spec r2) -> encode_pp H the_spec r1 = encode_pp H the_spec r2) ->
    (H (input r1) = H (input r2) -> input r1 = input r2) ->
    (H (time_pre r1) = H (time_pre r2) -> time_pre r1 = time_pre r2) ->
    (pp_key H the_spec r1 = pp_key H the_spec r2 <-> canon_p the_spec r1 = canon_p the_spec r2).
Proof. exact (fun H Hh r1 r2 => pp_key_iff H Hh the_spec r1 r2 the_spec_good). Qed.
Print Assumptions C02_pp_key_iff.

(* S16: two requests with one preprocessor-level pre-image agree on every variable the result key looks at, so a
   direct-mode hit cannot hand back a result key computed under a different (hashed) environment. *)
Theorem C02_pp_env_covers_main :
  forall (H : bytes -> bytes), (forall x, is_hex64 (H x) = true) ->
  forall r1 r2 : creq,
    wf_p the_spec r1 = true -> wf_p the_spec r2 = true ->
    encode_pp H the_spec r1 = encode_pp H the_spec r2 ->
    fenv (allow_main the_spec) r1 = fenv (allow_main the_spec) r2.
Proof. exact (fun H Hh r1 r2 => pp_env_covers_main H Hh the_spec r1 r2 the_spec_good the_spec_env_covers). Qed.
Print Assumptions C02_pp_env_covers_main.

(* The variables counted as result-affecting at the pinned commit are (still) on the allow-lists; together with
   C02_single_change / C02_pp_single_change: changing the value of any of them changes the pre-image. *)
Theorem C02_required_vars_hashed :
  (forall k, In k required_main -> allowed (allow_main the_spec) k = true) /\
  (forall k, In k required_pp -> allowed (allow_pp the_spec) k = true).
Proof. exact (required_allowed the_spec the_spec_required). Qed.
Print Assumptions C02_required_vars_hashed.

(* ------------------------------------------------------------------ recorded refutations *)

(* S10b: without pp_ok's "no tag extension" the statement is false (language c, output "++int x;" vs c++, "int x;"). *)
Theorem C02_lang_pp_boundary_refuted :
  exists r1 r2,
    common_ok the_spec r1 = true /\ common_ok the_spec r2 = true /\
    env_ok (allow_main the_spec) r1 = true /\ env_ok (allow_main the_spec) r2 = true /\
    nonul (pp r1) = true /\ nonul (pp r2) = true /\ extra_pp_ok r1 r2 = true /\
    canon_c the_spec r1 <> canon_c the_spec r2 /\
    forall H, encode_c H the_spec r1 = encode_c H the_spec r2.
Proof. exact lang_pp_boundary_refuted. Qed.
Print Assumptions C02_lang_pp_boundary_refuted.

(* S10c: without extra_pp_ok the statement is false even for well-formed requests. *)
Theorem C02_extra_pp_boundary_refuted :
  exists r1 r2,
    wf_c the_spec r1 = true /\ wf_c the_spec r2 = true /\
    canon_c the_spec r1 <> canon_c the_spec r2 /\
    forall H, encode_c H the_spec r1 = encode_c H the_spec r2.
Proof. exact extra_pp_boundary_refuted. Qed.
Print Assumptions C02_extra_pp_boundary_refuted.

(* S10d: without path_ok's "no tag extension" the pp-level statement is false
   (language c, input /c++/x.h  vs  GenericHeader "c/c++", input /x.h). *)
Theorem C02_pp_lang_path_boundary_refuted :
  exists r1 r2,
    common_ok the_spec r1 = true /\ common_ok the_spec r2 = true /\
    env_ok (allow_pp the_spec) r1 = true /\ env_ok (allow_pp the_spec) r2 = true /\
    abs_path (path r1) = true /\ abs_path (path r2) = true /\ nonul (path r1) = true /\ nonul (path r2) = true /\
    path_tail_ok (path r1) = true /\ path_tail_ok (path r2) = true /\ time_ok r1 = true /\ time_ok r2 = true /\
    canon_p the_spec r1 <> canon_p the_spec r2 /\
    forall H, encode_pp H the_spec r1 = encode_pp H the_spec r2.
Proof. exact pp_lang_path_boundary_refuted. Qed.
Print Assumptions C02_pp_lang_path_boundary_refuted.

(* without path_tail_ok the pp-level statement is false: for every H there is a path ending in  <64 hex>"-"  ... *)
Theorem C02_pp_path_tail_refuted :
  forall H : bytes -> bytes, (forall x, is_hex64 (H x) = true) ->
  exists r1 r2,
    common_ok the_spec r1 = true /\ env_ok (allow_pp the_spec) r1 = true /\ abs_path (path r1) = true /\
    nonul (path r1) = true /\ no_tag_ext_path the_spec (lang r1) (path r1) = true /\ time_ok r1 = true /\
    wf_p the_spec r2 = true /\
    input r1 <> input r2 /\
    encode_pp H the_spec r1 = encode_pp H the_spec r2.
Proof. exact pp_path_tail_refuted. Qed.
Print Assumptions C02_pp_path_tail_refuted.

(* S10a, repaired: the tag table as it was (ObjectiveCxxHeader => "objc++") fails tags_ok and aliases two languages. *)
Theorem C02_old_tags_refuted :
  tags_ok old_tags_spec = false /\
  exists r1 r2,
    wf_c old_tags_spec r1 = true /\ wf_c old_tags_spec r2 = true /\
    lang r1 <> lang r2 /\ alias_exempt (lang r1) (lang r2) = false /\
    forall H, encode_c H old_tags_spec r1 = encode_c H old_tags_spec r2.
Proof. exact old_tags_refuted. Qed.
Print Assumptions C02_old_tags_refuted.

(* S16, repaired: the preprocessor-level allow-list as it was fails env_covers and hides CCC_OVERRIDE_OPTIONS. *)
Theorem C02_old_env_cover_refuted :
  env_covers old_allow_pp_spec = false /\
  exists r1 r2,
    wf_p old_allow_pp_spec r1 = true /\ wf_p old_allow_pp_spec r2 = true /\
    fenv (allow_main old_allow_pp_spec) r1 <> fenv (allow_main old_allow_pp_spec) r2 /\
    forall H, encode_pp H old_allow_pp_spec r1 = encode_pp H old_allow_pp_spec r2.
Proof. exact old_env_cover_refuted. Qed.
Print Assumptions C02_old_env_cover_refuted.

(* ------------------------------------------------------------------ non-vacuity *)
Example C02_ex_wf : wf_c the_spec ex_req = true /\ wf_p the_spec ex_req = true /\ extra_pp_ok ex_req ex_req = true.
Proof. vm_compute; repeat split; reflexivity. Qed.
Example C02_ex_arch_order :
  let p1 := {| pa_pre := []; pa_arch := [[45; 97]; [120]; [45; 97]; [121]]; pa_common := [[45; 79]]; pa_profile := None; pa_cwd := None |} in
  let p2 := {| pa_pre := []; pa_arch := [[45; 97]; [121]; [45; 97]; [120]]; pa_common := [[45; 79]]; pa_profile := None; pa_cwd := None |} in
  hashed_args the_flow_c p1 <> hashed_args the_flow_c p2 /\ wf_c the_spec (set_args ex_req (hashed_args the_flow_c p1)) = true.
Proof. vm_compute. split; [intro E; discriminate E | reflexivity]. Qed.
Example C02_ex_drivers :
  driver_pp the_drivers [97; 112; 112; 108; 101; 45; 99; 108; 97; 110; 103; 43; 43] = Some true     (* apple-clang++ *)
  /\ driver_pp the_drivers [97; 112; 112; 108; 101; 45; 99; 108; 97; 110; 103] = Some false.        (* apple-clang *)
Proof. vm_compute; split; reflexivity. Qed.
Example C02_ex_spec : spec_good the_spec /\ env_covers the_spec = true.
Proof. exact (conj the_spec_good the_spec_env_covers). Qed.
