(* placeholder until the proofs land *)
From Sccache Require Import Model.KeyEnc Gen.C02HashSpec.
