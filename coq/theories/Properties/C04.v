(* placeholder until the proofs land *)
