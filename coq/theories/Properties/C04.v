(* Properties/C04.v — pinned statements for C04: preprocessor-cache (direct) mode never returns a result for
   changed inputs.  Models: Model/TimeMacro.v, Model/PpCache.v (the code after the fix: commits of verif/C04). *)
From Coq Require Import List NArith Bool.
From Coq Require String.
Import String.StringSyntax.
From Sccache Require Import Base.Sx Gen.C04Consts Model.PpPaths Model.TimeMacro Model.PpCache Model.LineMarker
     Model.PpTimeline Proofs.TimeMacro Proofs.PpCache Proofs.LineMarker Proofs.PpTimeline Run.C04.
Import ListNotations.
Local Open Scope N_scope.

(* If a lookup in file system fs1 (date date1) accepts a result of a manifest built by ANY sequence of recordings
   (fresh or accumulated, any file systems / start instants / dates / include lists), then that result was
   recorded by one of them, and every include that recording had to remember (regular file announced by the
   preprocessor output, not the input file, not <built-in>-like, not a skipped system header) is a regular file in
   fs1 with the SAME BYTES, and - unless ignore_time_macros - the date (resp. the file's mtime) is the same when the
   file mentions __DATE__ (resp. __TIMESTAMP__), and it does not mention __TIME__.  All 32 option combinations;
   `stat_trust` ("equal (size, mtime, ctime) implies equal bytes") is needed, and assumed, only when
   file_stat_matches and use_ctime_for_stat are both on.  BLAKE3 = injective H / HT. *)
Theorem C04_lookup_sound :
  forall (D : Type) (Deqb : D -> D -> bool) (H : bytes -> D) (HT : option bytes -> option N -> D),
    (forall a b : D, Deqb a b = true -> a = b) ->
    (forall a b : bytes, H a = H b -> a = b) ->
    (forall od om od' om', HT od om = HT od' om' -> od = od' /\ om = om') ->
    forall (cfg : config) (ops : list rec_op) (fs1 : fsnap) (date1 : bytes) (k : key),
      (file_stat_matches cfg = true -> use_ctime_for_stat cfg = true ->
       forall op, In op ops -> stat_trust (ro_fs op) fs1) ->
      lookup_result_digest D Deqb H HT cfg fs1 date1 (run_recs D H HT cfg ops) = Some k ->
      exists op, In op ops /\ ro_key op = k /\
        forall p, must_record cfg op p -> unchanged cfg (ro_fs op) (ro_date op) fs1 date1 p.
Proof. exact lookup_sound. Qed.
Print Assumptions C04_lookup_sound.

(* The INPUT file's part of the manifest key (preprocessor_cache_entry_hash_key): two requests that reach the same
   manifest have the same input bytes and, unless ignore_time_macros, the same __DATE__ / __TIMESTAMP__ expansions;
   an input mentioning __TIME__ never gets a manifest key. *)
Theorem C04_input_digest_sound :
  forall (D : Type) (H : bytes -> D) (HT : option bytes -> option N -> D),
    (forall a b : bytes, H a = H b -> a = b) ->
    (forall od om od' om', HT od om = HT od' om' -> od = od' /\ om = om') ->
    forall (cfg : config) b0 d0 m0 b1 d1 m1 x,
      input_file_digest D H HT cfg b0 d0 m0 = Some x ->
      input_file_digest D H HT cfg b1 d1 m1 = Some x ->
      b1 = b0 /\
      (ignore_time_macros cfg = false -> mentions WDate b0 -> d1 = d0) /\
      (ignore_time_macros cfg = false -> mentions WTimestamp b0 -> m1 = m0) /\
      (ignore_time_macros cfg = false -> ~ mentions WTime b0).
Proof. exact input_digest_sound. Qed.
Print Assumptions C04_input_digest_sound.

(* The components of the manifest key compared by the `ppkey` correspondence leg: equal model keys have the same
   argument LIST (not concatenation), extra hashes, allow-listed variables and input digest. *)
Theorem C04_pp_key_parts_sound :
  forall (D : Type) (Deqb : D -> D -> bool), (forall a b : D, Deqb a b = true -> a = b) ->
  forall a b : pp_key_parts D,
    pp_key_eqb D Deqb a b = true ->
    pk_plusplus D a = pk_plusplus D b /\ pk_args D a = pk_args D b /\ pk_extra D a = pk_extra D b /\
    pk_env D a = pk_env D b /\ pk_input D a = pk_input D b.
Proof. exact pp_key_eqb_sound. Qed.
Print Assumptions C04_pp_key_parts_sound.

(* add_result stores a result with ALL the include files it was handed (same paths, same digests, in order), or -
   when one of them can no longer be stat'ed - stores nothing new: a header that was read is never silently dropped
   from the manifest. *)
Theorem C04_add_result_all_or_nothing :
  forall (D : Type) (e : entry D) (fs : fsnap) (start : N) (k : key) (files : list (idigest D * path)),
    (exists incs,
        rs_find D k (results D (add_result D e fs start k files)) = Some incs /\
        map (ie_path D) incs = map snd files /\ map (ie_digest D) incs = map fst files /\
        (forall f, In f files -> fs_get fs (snd f) <> None))
    \/
    ((exists f, In f files /\ fs_get fs (snd f) = None) /\
     forall k' v, In (k', v) (results D (add_result D e fs start k files)) -> In (k', v) (results D e)).
Proof. exact add_result_all_or_nothing. Qed.
Print Assumptions C04_add_result_all_or_nothing.

(* C04_lookup_sound with the WINDOW of generate_hash_key: the include recorder runs in file system `ro_fs op`, and
   add_result stats the files later, in a file system in which, in between, any files may have been REMOVED or
   REWRITTEN - a file that is not the one the recorder saw was written at or after the start instant (win_ok: mtime or
   ctime >= start; C04_record_instant_sound is about why) - add_result then stores no time stamps for it.
   The conclusion is the same: every include the recorder had to remember is unchanged at an accepted lookup. *)
Theorem C04_lookup_sound_window :
  forall (D : Type) (Deqb : D -> D -> bool) (H : bytes -> D) (HT : option bytes -> option N -> D),
    (forall a b : D, Deqb a b = true -> a = b) ->
    (forall a b : bytes, H a = H b -> a = b) ->
    (forall od om od' om', HT od om = HT od' om' -> od = od' /\ om = om') ->
    forall (cfg : config) (ops : list (rec_op * fsnap)) (fs1 : fsnap) (date1 : bytes) (k : key),
      Forall (fun o => win_ok (ro_start (fst o)) (snd o) (ro_fs (fst o))) ops ->
      (file_stat_matches cfg = true -> use_ctime_for_stat cfg = true ->
       forall op, In op (map fst ops) -> stat_trust (ro_fs op) fs1) ->
      lookup_result_digest D Deqb H HT cfg fs1 date1 (run_recs_w D H HT cfg ops) = Some k ->
      exists op, In op (map fst ops) /\ ro_key op = k /\
        forall p, must_record cfg op p -> unchanged cfg (ro_fs op) (ro_date op) fs1 date1 p.
Proof. exact lookup_sound_w. Qed.
Print Assumptions C04_lookup_sound_window.

(* add_result stores no mtime / ctime for a file written at or after the compile start (should_cache_time): a file
   rewritten after it was hashed can therefore never be accepted by the (size, mtime, ctime) shortcut. *)
Theorem C04_no_stat_for_new_files :
  forall (D : Type) (fs : fsnap) (start : N) (f : idigest D * path) (ie : include_entry D) (nd : node),
    mk_include D fs start f = Some ie -> fs_get fs (snd f) = Some nd ->
    (start <= n_mtime nd \/ start <= n_ctime nd) ->
    ie_mtime D ie = None /\ ie_ctime D ie = None.
Proof. exact mk_include_no_stat_for_new. Qed.
Print Assumptions C04_no_stat_for_new_files.

(* `Timestamp::from(SystemTime)` (seconds = FLOOR of the signed distance from the epoch, nanoseconds in [0, 10^9)) is
   injective, also before 1970: the mtime that the digest of a __TIMESTAMP__ header and the stat shortcut see
   distinguishes any two instants. *)
Theorem C04_timestamp_injective : forall x y : N, ts_of x = ts_of y -> x = y.
Proof. exact ts_of_injective. Qed.
Print Assumptions C04_timestamp_injective.

(* hash_working_directory: the argument list generate_hash_key hands to the preprocessor-cache key ends with the
   working directory, so two requests from different directories never have the same list - whatever the spelling
   (relative / absolute) of the input path.  Source side condition: Proofs/PpTimeline.v prelude_cwd_guard_ok (the push
   of the working directory is guarded by hash_working_directory and nothing else). *)
Theorem C04_cwd_in_pp_key :
  forall (cfg : config) pre1 arch1 common1 prof1 cwd1 pre2 arch2 common2 prof2 cwd2,
    hash_working_directory cfg = true ->
    prelude_pp_args cfg pre1 arch1 common1 prof1 cwd1 = prelude_pp_args cfg pre2 arch2 common2 prof2 cwd2 ->
    cwd1 = cwd2.
Proof. exact pp_args_cwd. Qed.
Print Assumptions C04_cwd_in_pp_key.

(* Recording is given up (and the stored manifest left untouched) exactly when one of the includes the recorder
   has to look at is missing, not a regular file or directory, has mtime >= start or ctime >= start, or
   (unless ignore_time_macros) mentions __TIME__ — in particular a header with mtime < start and ctime < start
   does not disable it: both sides of the instant. *)
Theorem C04_record_sound :
  forall (D : Type) (H : bytes -> D) (HT : option bytes -> option N -> D) (cfg : config) (e : entry D) (op : rec_op),
    (snd (apply_rec D H HT cfg e op) = RecDisabled <->
     exists p sys, In (p, sys) (ro_incs op) /\ filters cfg (ro_input op) p sys /\
                   bad_include cfg (ro_fs op) (ro_start op) p) /\
    (snd (apply_rec D H HT cfg e op) <> RecOk -> fst (apply_rec D H HT cfg e op) = e).
Proof. exact record_sound. Qed.
Print Assumptions C04_record_sound.

(* WHERE the compile start instant is taken.  A run of the slow path is any time-stamped trace (time stamps never
   decrease) whose program actions are, in the SOURCE ORDER transcribed from generate_hash_key (Gen `prelude_order`):
   take the instant, the preprocessor reads its files one by one, record the includes - interleaved ANYWHERE with
   writes / deletions of any files by the environment (a write sets the ctime to its time stamp, the mtime is
   arbitrary).  If the recording succeeds, then every recorded include p has the digest of exactly the bytes the
   preprocessor got each time it read p: a header modified at any instant >= the moment the preprocessor started is
   never recorded with a digest newer than what the preprocessor saw.  The key fact "the instant is taken before the
   preprocessor starts" is the side condition Proofs/PpTimeline.v `prelude_order_ok : prelude_order = [0; 1; 2]`
   on the translated source order - it stops checking when the instant is taken later. *)
Theorem C04_record_instant_sound :
  forall (D : Type) (H : bytes -> D) (HT : option bytes -> option N -> D) (cfg : config) (date : bytes)
         (input : path) (incs : list (path * bool)) (reads : list path) (fs0 : fsnap) (tr : trace),
    times_sorted 0 tr = true ->
    code_of tr = code_actions prelude_order reads ->
    forall included, t_out D (trun D H HT cfg date input incs fs0 tr) = Some (Some included) ->
    forall p d, In (p, d) included ->
    exists nd,
      n_kind nd = KFile /\
      include_file_digest D HT (H (n_bytes nd)) (rec_flags cfg (n_bytes nd)) date (Some (n_mtime nd)) = Some d /\
      forall q ob, In (q, ob) (t_seen D (trun D H HT cfg date input incs fs0 tr)) ->
                   canon_path q = canon_path p -> ob = Some (n_bytes nd).
Proof. exact record_instant_sound. Qed.
Print Assumptions C04_record_instant_sound.

(* The time-macro scan, for ALL ways of splitting the bytes into reads (any list of chunks): a flag is set
   if and only if the pattern occurs in the file. *)
Theorem C04_scan_exact :
  forall (chunks : list bytes) (w : which),
    flag w (scan_chunks chunks) = true <-> occurs (pat w) (concat chunks).
Proof. exact scan_exact. Qed.
Print Assumptions C04_scan_exact.

Theorem C04_scan_no_false_negative :
  forall (chunks : list bytes) (w : which),
    occurs (pat w) (concat chunks) -> flag w (scan_chunks chunks) = true.
Proof. intros chunks w Ho. apply scan_exact. exact Ho. Qed.
Print Assumptions C04_scan_no_false_negative.

Theorem C04_scan_chunk_independent :
  forall c1 c2 : list bytes, concat c1 = concat c2 -> flags_of (scan_chunks c1) = flags_of (scan_chunks c2).
Proof. exact scan_chunk_independent. Qed.
Print Assumptions C04_scan_chunk_independent.

(* the digest of a file read in chunks, for any incremental hash (update law of BLAKE3) *)
Theorem C04_digest_chunk_independent :
  forall (Hst : Type) (upd : Hst -> bytes -> Hst),
    (forall h a b, upd (upd h a) b = upd h (a ++ b)) -> (forall h, upd h [] = h) ->
    forall h0 c1 c2, concat c1 = concat c2 -> digest_chunks Hst upd h0 c1 = digest_chunks Hst upd h0 c2.
Proof. exact digest_chunk_independent. Qed.
Print Assumptions C04_digest_chunk_independent.

(* A direct-mode hit returns exactly the key the slow path would compute now.  The preprocessor `pp`, the files
   it reads / probes, the main key function and the manifest (pp-level) key function `pp_key` are abstract;
   `pp_frame` is the frame of the preprocessor.  Named side conditions:
     pp_key_injective       the manifest key is injective in (hashed arguments / request, allow-listed environment,
                            input digest): a request whose include-path-affecting arguments or environment changed
                            never reaches the manifest of the old request.  Discharged for the real encoding by
                            Properties/C02.v `C02_pp_encode_injective` (+ collision-freeness of BLAKE3); checked on the
                            real function by the `ppkey` leg (boundary-shift / split / merge pairs) and end to end.
     env_main_subset_env_pp (S16), no_new_shadowing_file (documented caveat). *)
Theorem C04_mode_equivalence :
  forall (D : Type) (Deqb : D -> D -> bool) (H : bytes -> D) (HT : option bytes -> option N -> D),
    (forall a b : D, Deqb a b = true -> a = b) ->
    (forall a b : bytes, H a = H b -> a = b) ->
    (forall od om od' om', HT od om = HT od' om' -> od = od' /\ om = om') ->
    forall (Req : Type) (env_pp env_main : list bytes) (pp : Req -> env_t -> fsnap -> bytes -> bytes)
           (reads probes : Req -> env_t -> fsnap -> bytes -> list path) (main_key : Req -> env_t -> bytes -> key),
      (forall req env fs0 d0 fs1 d1,
          same_inputs Req reads probes req env fs0 d0 fs1 d1 -> pp req env fs1 d1 = pp req env fs0 d0) ->
      forall (K : Type) (pp_key : Req -> env_t -> idigest D -> K),
      forall (pp_key_injective :
                forall r e d r' e' d', pp_key r e d = pp_key r' e' d' -> r = r' /\ e = e' /\ d = d'),
      forall (input_path : path) (cfg : config) (req0 req1 : Req) (env0 env1 : env_t) (mk : K)
             (ops : list rec_op) (fs1 : fsnap) (date1 : bytes) (k : key),
        forall (env_main_subset_env_pp : forall n, In n env_main -> In n env_pp),
          ignore_time_macros cfg = false ->
          (file_stat_matches cfg = true -> use_ctime_for_stat cfg = true ->
           forall op, In op ops -> stat_trust (ro_fs op) fs1) ->
          (forall op, In op ops ->
                      faithful D H HT Req env_pp env_main pp reads main_key K pp_key input_path cfg req0 env0 mk op) ->
          in_manifest D H HT Req env_pp K pp_key input_path cfg req1 env1 fs1 date1 mk ->
          forall (no_new_shadowing_file :
                    forall op p, In op ops -> In p (probes req0 (filter_env env_pp env0) (ro_fs op) (ro_date op)) ->
                                 fs_get fs1 p = None),
            lookup_result_digest D Deqb H HT cfg fs1 date1 (run_recs D H HT cfg ops) = Some k ->
            k = main_key req1 (filter_env env_main env1) (pp req1 (filter_env env_pp env1) fs1 date1).
Proof. exact mode_equivalence. Qed.
Print Assumptions C04_mode_equivalence.

(* The line-marker scan (process_preprocessed_file / process_preprocessor_line): for every preprocessor output that
   is a sequence of lines `# <digits> "<path>"<flags>` and body lines (wf_line: digits not starting with 3 - the
   GCC-6 special cases -, path non-empty without quote/newline, flags digits and spaces; body lines do not start
   with '#' or '_' and do not contain ".incbin"), the scan hands exactly the announced paths, in order, to the
   include recorder of Model/PpCache.v (path normalised, made absolute; system = flag 3; <...> names skipped),
   leaves the text unchanged, and gives up iff the recorder does. *)
Theorem C04_markers_complete :
  forall (D : Type) (H : bytes -> D) (HT : option bytes -> option N -> D) (cfg : config) (fs : fsnap) (start : N)
         (date : bytes) (input : path) (cwd : bytes) (ls : list line),
    forallb wf_line ls = true ->
    process_preprocessed_file D H HT cfg fs start date input cwd (render_lines ls) =
    match remember_all D H HT cfg fs start date input [] (incs_of cwd ls) with
    | Some inc => LmOk D inc (render_lines ls)
    | None => LmDisabled D
    end.
Proof. exact markers_complete_recorder. Qed.
Print Assumptions C04_markers_complete.

(* Which announced paths are NOT remembered because they are "the input file": only a path that resolves (relative
   paths joined to the working directory) to the input path itself.  A regular file whose marker path merely looks
   like the input (x.c, announced as "sub/../x.c", when the input is sub/x.c) is recorded. *)
Theorem C04_marker_recorded :
  forall (D : Type) (H : bytes -> D) (HT : option bytes -> option N -> D) (cfg : config) (fs : fsnap) (start : N)
         (date : bytes) (input : path) (cwd : bytes) (p fl : bytes) (inc inc' : list (path * idigest D)) (nd : node),
    marker_step D H HT cfg fs start date input cwd p fl inc = Some inc' ->
    is_angle (normalized_include_path p) = false ->
    is_angle (resolve cwd (normalized_include_path p)) = false ->
    (existsb (fun c => N.eqb c 51) fl && skip_system_headers cfg) = false ->
    bytes_eqb (resolve cwd (normalized_include_path p)) input = false ->
    fs_get fs (resolve cwd (normalized_include_path p)) = Some nd -> n_kind nd = KFile ->
    inc_mem D (resolve cwd (normalized_include_path p)) inc' = true.
Proof. exact marker_recorded. Qed.
Print Assumptions C04_marker_recorded.

(* ---------------- non-vacuity ---------------- *)
Local Open Scope string_scope.

(* the hypotheses on the digests are satisfiable *)
Definition Dx := (bytes + option bytes * option N)%type.
Example C04_digest_hypotheses_inhabited :
  (forall a b : bytes, @inl bytes (option bytes * option N) a = inl b -> a = b) /\
  (forall od om od' om', @inr bytes (option bytes * option N) (od, om) = inr (od', om') -> od = od' /\ om = om').
Proof. split; [intros a b He; inversion He; reflexivity | intros od om od' om' He; inversion He; split; reflexivity]. Qed.

Definition hdr (b : bytes) (m c : N) : node :=
  {| n_kind := KFile; n_size := N.of_nat (length b); n_mtime := m; n_ctime := c; n_bytes := b |}.
Definition cfg_default : config := cfg_of 9.     (* use_ctime_for_stat, hash_working_directory *)
Definition cfg_itm : config := cfg_of 13.         (* + ignore_time_macros *)
Definition fs_a : fsnap := [(bs "a.h", hdr (bs "AAAA") 90 90); (bs "b.h", hdr (bs "BBBB") 90 90)].
Definition fs_b : fsnap := [(bs "a.h", hdr (bs "AAAA") 90 90); (bs "b.h", hdr (bs "CCCC") 90 150)].
Definition op_ab : rec_op :=
  {| ro_fresh := true; ro_fs := fs_a; ro_start := 100; ro_date := []; ro_input := bs "input.c"; ro_key := bs "k1";
     ro_incs := [(bs "a.h", false); (bs "b.h", false)] |}.

(* an unchanged tree is a hit ... *)
Example C04_hit_when_unchanged :
  lookup_result_digest Dg bytes_eqb Hx HTx cfg_default fs_a [] (run_recs Dg Hx HTx cfg_default [op_ab]) = Some (bs "k1").
Proof. vm_compute. reflexivity. Qed.

(* ... the S3 witness (ignore_time_macros, same-size edit of the SECOND header) is a miss on the fixed code *)
Example C04_S3_witness_misses :
  lookup_result_digest Dg bytes_eqb Hx HTx cfg_itm fs_b [] (run_recs Dg Hx HTx cfg_itm [op_ab]) = None.
Proof. vm_compute. reflexivity. Qed.

(* ... and so is the S4 witness (a header mentioning __DATE__, same-size edit; or the date changes) *)
Definition fs_d0 : fsnap := [(bs "a.h", hdr (bs "//__DATE__ A") 90 90)].
Definition fs_d1 : fsnap := [(bs "a.h", hdr (bs "//__DATE__ B") 90 150)].
Definition op_d : rec_op :=
  {| ro_fresh := true; ro_fs := fs_d0; ro_start := 100; ro_date := bs "day1"; ro_input := bs "input.c";
     ro_key := bs "k1"; ro_incs := [(bs "a.h", false)] |}.
Example C04_S4_witness_misses :
  lookup_result_digest Dg bytes_eqb Hx HTx cfg_default fs_d1 (bs "day1") (run_recs Dg Hx HTx cfg_default [op_d]) = None
  /\ lookup_result_digest Dg bytes_eqb Hx HTx cfg_default fs_d0 (bs "day2") (run_recs Dg Hx HTx cfg_default [op_d]) = None
  /\ lookup_result_digest Dg bytes_eqb Hx HTx cfg_default fs_d0 (bs "day1") (run_recs Dg Hx HTx cfg_default [op_d]) = Some (bs "k1").
Proof. vm_compute. repeat split; reflexivity. Qed.

(* both sides of the instant: mtime = start disables recording, mtime = start - 1 does not *)
Example C04_record_both_sides :
  snd (apply_rec Dg Hx HTx cfg_default (entry_new Dg)
         {| ro_fresh := true; ro_fs := [(bs "a.h", hdr (bs "A") 100 90)]; ro_start := 100; ro_date := [];
            ro_input := bs "input.c"; ro_key := bs "k"; ro_incs := [(bs "a.h", false)] |}) = RecDisabled
  /\ snd (apply_rec Dg Hx HTx cfg_default (entry_new Dg)
         {| ro_fresh := true; ro_fs := [(bs "a.h", hdr (bs "A") 99 99)]; ro_start := 100; ro_date := [];
            ro_input := bs "input.c"; ro_key := bs "k"; ro_incs := [(bs "a.h", false)] |}) = RecOk.
Proof. vm_compute. split; reflexivity. Qed.

(* the S17 witness: reads "0123456789abcdef__TI", "x", "ME__" no longer report __TIME__; "…__TI","M","E__" do *)
Example C04_S17_witness :
  f_time (scan_chunks [bs "0123456789abcdef__TI"; bs "x"; bs "ME__"]) = false /\
  f_time (scan_chunks [bs "0123456789abcdef__TI"; bs "M"; bs "E__"]) = true.
Proof. vm_compute. split; reflexivity. Qed.

(* a gcc-like output is well-formed, and the scan records the two headers it announces (leading `..` kept) *)
Definition out_lines : list line :=
  [ LMarker (bs "0") (bs "input.c") [];
    LMarker (bs "0") (bs "<built-in>") [];
    LMarker (bs "1") (bs "/usr/include/stdc-predef.h") (bs " 1 3 4");
    LMarker (bs "1") (bs "a.h") (bs " 1");
    LBody (bs "int a = 1.5;");
    LMarker (bs "2") (bs "input.c") (bs " 2");
    LMarker (bs "1") (bs "../inc/c.h") (bs " 1");
    LBody (bs "int c;");
    LBody [] ].
Definition out_fs : fsnap :=
  [ (bs "/w/input.c", hdr (bs "I") 90 90); (bs "/w/a.h", hdr (bs "A") 90 90); (bs "/inc/c.h", hdr (bs "C") 90 90);
    (bs "/w/inc/c.h", hdr (bs "decoy") 90 90); (bs "/usr/include/stdc-predef.h", hdr (bs "P") 90 90) ].
Example C04_markers_example :
  forallb wf_line out_lines = true /\
  match process_preprocessed_file Dg Hx HTx (cfg_of 11) out_fs 100 [] (bs "/w/input.c") (bs "/w") (render_lines out_lines) with
  | LmOk _ inc _ => map fst inc = [bs "/w/a.h"; bs "/w/../inc/c.h"]
  | _ => False
  end.
Proof. vm_compute. split; reflexivity. Qed.

(* the start instant: with the source order [take; preprocess; record] a header saved after the preprocessor read it
   makes the recording give up; were the instant taken after the preprocessor (order [preprocess; take; record]) the
   NEW bytes would be recorded although the preprocessor saw the OLD ones - the hypothesis is necessary *)
Definition tl_fs : fsnap := [(bs "/w/a.h", hdr (bs "OLD") 90 90)].
Definition tl_incs : list (path * bool) := [(bs "/w/a.h", false)].
Definition tl_good : trace :=
  [(100, ECode CTake); (110, ECode (CRead (bs "/w/a.h"))); (120, EEnv (WFile (bs "/w/a.h") (bs "NEW") 120));
   (130, ECode CRecord)].
Definition tl_late : trace :=
  [(110, ECode (CRead (bs "/w/a.h"))); (120, EEnv (WFile (bs "/w/a.h") (bs "NEW") 120)); (125, ECode CTake);
   (130, ECode CRecord)].
Example C04_instant_example :
  code_of tl_good = code_actions prelude_order [bs "/w/a.h"] /\
  t_out Dg (trun Dg Hx HTx cfg_default [] (bs "/w/input.c") tl_incs tl_fs tl_good) = Some None /\
  code_of tl_late = code_actions [1; 0; 2] [bs "/w/a.h"] /\
  t_out Dg (trun Dg Hx HTx cfg_default [] (bs "/w/input.c") tl_incs tl_fs tl_late)
    = Some (Some [(bs "/w/a.h", Plain (bs "NEW"))]) /\
  t_seen Dg (trun Dg Hx HTx cfg_default [] (bs "/w/input.c") tl_incs tl_fs tl_late) = [(bs "/w/a.h", Some (bs "OLD"))].
Proof. vm_compute. repeat split; reflexivity. Qed.

(* a header that vanished between the include recorder and add_result: nothing is recorded (and so nothing is hit
   after it comes back with other contents) *)
Definition fs_gone : fsnap := [(bs "a.h", hdr (bs "AAAA") 90 90)].
Example C04_vanished_header_example :
  results Dg (fst (apply_rec_w Dg Hx HTx cfg_default (entry_new Dg) op_ab fs_gone)) = [] /\
  lookup_result_digest Dg bytes_eqb Hx HTx cfg_default fs_b []
     (fst (apply_rec_w Dg Hx HTx cfg_default (entry_new Dg) op_ab fs_gone)) = None.
Proof. vm_compute. split; reflexivity. Qed.

(* the wrapper idiom: input arch/foo.c includes "../foo.c"; /w/foo.c is recorded although "foo.c" is a suffix of the
   input path *)
Example C04_suffix_path_example :
  match process_preprocessed_file Dg Hx HTx (cfg_of 9)
          [(bs "/w/arch/foo.c", hdr (bs "I") 90 90); (bs "/w/foo.c", hdr (bs "F") 90 90); (bs "/w/arch/tune.h", hdr (bs "T") 90 90)]
          100 [] (bs "/w/arch/foo.c") (bs "/w")
          (render_lines [LMarker (bs "1") (bs "arch/foo.c") []; LMarker (bs "1") (bs "arch/tune.h") (bs " 1");
                         LMarker (bs "1") (bs "arch/../foo.c") (bs " 1"); LBody (bs "int value = 10 + 1;");
                         LMarker (bs "2") (bs "arch/foo.c") (bs " 2"); LBody []]) with
  | LmOk _ inc _ => map fst inc = [bs "/w/arch/tune.h"; bs "/w/foo.c"]
  | _ => False
  end.
Proof. vm_compute. reflexivity. Qed.

(* a header rewritten (same size, old mtime) after the recorder hashed it: no time stamps are stored, and with
   file_stat_matches + use_ctime_for_stat the lookup still compares contents and misses *)
Definition fs_rewritten : fsnap := [(bs "a.h", hdr (bs "AAAA") 90 90); (bs "b.h", hdr (bs "CCCC") 90 103)].
Example C04_rewritten_in_window_example :
  lookup_result_digest Dg bytes_eqb Hx HTx (cfg_of 25) fs_rewritten []
     (fst (apply_rec_w Dg Hx HTx (cfg_of 25) (entry_new Dg) op_ab fs_rewritten)) = None /\
  lookup_result_digest Dg bytes_eqb Hx HTx (cfg_of 25) fs_a []
     (fst (apply_rec_w Dg Hx HTx (cfg_of 25) (entry_new Dg) op_ab fs_a)) = Some (bs "k1").
Proof. vm_compute. split; reflexivity. Qed.
