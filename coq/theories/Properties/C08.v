(* Properties/C08.v — pinned statements for C08 "cache entry encoding round-trips exactly and detects corruption".
   Only statements (and examples of non-vacuity); the proofs live in Proofs/Crc32.v and Proofs/Zip.v.

   Vocabulary (Model/Zip.v, Proofs/Zip.v):
     cache_members / cache_write   CacheWrite::from_objects + put_stdout + put_stderr + finish (the entry bytes)
     unpack                        the Cache::Hit arm of get_cached_or_compile: get_stdout, get_stderr, extract_objects
     objs_ok objs                  object keys pairwise distinct, ASCII or valid UTF-8, shorter than 65536 bytes,
                                   none of them "stdout"/"stderr"
     writable ms                   the guard under which zip 0.6.6 neither fails nor writes zip64 records
     no_z64_locator bs             the 4 bytes 42 bytes before the end are not the ZIP64 locator signature
     perm_of mode                  0o100000 | mode & 0o777 (0o100644 for None): what unix_permissions stores
     data_start ms1 m              offset of member m's data in the entry written for ms1 ++ m :: ms2
     eocd_sig_unique bs            "PK\5\6" occurs at no offset below (length - 22)                        *)
From Coq Require Import List NArith Bool.
From Sccache Require Import Model.Crc32 Model.Zip Proofs.Crc32 Proofs.ZipBase Proofs.Zip.
Import ListNotations.
Local Open Scope N_scope.

(* 1. Packing any well-formed artifact set with any stdout/stderr and unpacking it yields identical contents,
      the stored permission bits and identical stdout/stderr (empty ones round-trip as empty). *)
Theorem C08_roundtrip :
  forall (compress : list N -> list N) (decompress : list N -> option (list N)),
    (forall x, decompress (compress x) = Some x) ->
  forall (objs : list (list N * option N * list N)) (stdout stderr : list N) (reqs : list (list N * bool)),
    let ms := cache_members compress objs stdout stderr in
    let bs := cache_write compress objs stdout stderr in
    objs_ok objs -> writable ms = true -> no_z64_locator bs = true ->
    map fst reqs = map obj_name objs ->
    unpack decompress bs reqs
    = UHit stdout stderr (map (fun o => Some (Some (perm_of (obj_mode o)), obj_content o)) objs).
Proof. exact roundtrip_unpack. Qed.
Print Assumptions C08_roundtrip.

(* 1'. The same for every configuration of the writer: put_object takes its zstd level from SCCACHE_CACHE_ZSTD_LEVEL
       (zstd_level: an i32 literal, else 3).  The reader has no configuration, so what ANY level packed unpacks
       exactly — for every value the variable can hold.  zstd is a family compress_at level with one decompress
       that inverts all of them (levels only choose encoder parameters: window, tables, strategy). *)
Theorem C08_roundtrip_every_level :
  forall (compress_at : level -> list N -> list N) (decompress : list N -> option (list N)),
    (forall l x, decompress (compress_at l x) = Some x) ->
  forall (env : option (list N)) (objs : list (list N * option N * list N)) (stdout stderr : list N)
         (reqs : list (list N * bool)),
    let ms := cache_members_cfg compress_at env objs stdout stderr in
    let bs := cache_write_cfg compress_at env objs stdout stderr in
    objs_ok objs -> writable ms = true -> no_z64_locator bs = true ->
    map fst reqs = map obj_name objs ->
    unpack decompress bs reqs
    = UHit stdout stderr (map (fun o => Some (Some (perm_of (obj_mode o)), obj_content o)) objs).
Proof. exact roundtrip_every_level. Qed.
Print Assumptions C08_roundtrip_every_level.

(* 1''. Histories.  One thread packs one entry after the other, and reading an output file can fail part-way
       (source = contents + an optional point of failure).  pack_history is the writer that exists: every put_object
       builds its own zstd encoder, nothing is carried over.  Whatever the thread packed or FAILED to pack before, an
       entry that is produced unpacks to exactly its own inputs; a pack with a failing source produces no entry; and
       the i-th result is a function of the i-th inputs alone. *)
Theorem C08_pack_history_roundtrip :
  forall (compress : list N -> list N) (decompress : list N -> option (list N)),
    (forall x, decompress (compress x) = Some x) ->
  forall (ops : list pack_op) (i : nat) (op : pack_op) (bs : list N) (reqs : list (list N * bool)),
    nth_error ops i = Some op -> nth_error (pack_history compress ops) i = Some (Some bs) ->
    objs_ok (op_objs op) ->
    writable (cache_members compress (op_objs op) (snd (fst op)) (snd op)) = true ->
    no_z64_locator bs = true ->
    map fst reqs = map obj_name (op_objs op) ->
    unpack decompress bs reqs
    = UHit (snd (fst op)) (snd op)
           (map (fun o => Some (Some (perm_of (obj_mode o)), obj_content o)) (op_objs op)).
Proof. exact history_roundtrip. Qed.
Print Assumptions C08_pack_history_roundtrip.

Theorem C08_pack_history_independent :
  forall (compress : list N -> list N) (ops1 ops2 : list pack_op) (op : pack_op),
    nth_error (pack_history compress (ops1 ++ op :: ops2)) (length ops1) = Some (pack_one compress op)
    /\ ((exists o, In o (fst (fst op)) /\ snd (snd o) <> None) -> pack_one compress op = None).
Proof. intros. split; [apply history_independent|apply pack_one_fails]. Qed.
Print Assumptions C08_pack_history_independent.

(* the level the writer uses is always an i32, whatever the variable holds; unset means 3 *)
Theorem C08_zstd_level_is_i32 :
  forall env : option (list N),
    let l := zstd_level env in
    (fst l = false -> snd l <= 2147483647) /\ (fst l = true -> 0 < snd l <= 2147483648).
Proof. exact zstd_level_is_i32. Qed.
Print Assumptions C08_zstd_level_is_i32.

(* 2. Two byte strings of equal length that differ in exactly one byte have different CRC-32. *)
Theorem C08_crc_single_byte :
  forall (p s : list N) (b b' : N), b < 256 -> b' < 256 -> b <> b' ->
    crc32 (p ++ b :: s) <> crc32 (p ++ b' :: s).
Proof. exact crc32_single_byte. Qed.
Print Assumptions C08_crc_single_byte.

(* data_start really is where the member's stored bytes are *)
Theorem C08_data_region :
  forall ms1 m ms2,
    takeN (lenN (m_data m)) (dropN (data_start ms1 m) (write_zip (ms1 ++ m :: ms2))) = m_data m.
Proof. exact data_region_is_data. Qed.
Print Assumptions C08_data_region.

(* 3. Substituting any single byte inside any member's data region: the entry still opens, reading that member
      fails, and the cache-hit path is a miss as soon as the member is requested (or is stdout / stderr). *)
Theorem C08_payload_corruption_detected :
  forall (decompress : list N -> option (list N)) ms1 m ms2 d1 b d2 v (reqs : list (list N * bool)),
    let ms := ms1 ++ m :: ms2 in
    let bs := write_zip ms in
    let j := data_start ms1 m + lenN d1 in
    Forall mwf ms -> NoDup (map m_name ms) -> writable ms = true -> no_z64_locator bs = true ->
    m_data m = d1 ++ b :: d2 -> b < 256 -> v < 256 -> v <> b ->
    (exists ar, open_archive (subst_at j v bs) = Some ar
                /\ get_object decompress ar (subst_at j v bs) (m_name m) = GErr)
    /\ (In (m_name m) (map fst reqs) \/ m_name m = NAME_STDOUT \/ m_name m = NAME_STDERR ->
        unpack decompress (subst_at j v bs) reqs = UMiss).
Proof.
  intros decompress ms1 m ms2 d1 b d2 v reqs ms bs j Hwf Hnd Hw Hz Hd Hb Hv Hne. split.
  - exists (cents_of ms 0). now apply (payload_corruption_members decompress ms1 m ms2 d1 b d2 v).
  - now apply (payload_corruption_miss decompress ms1 m ms2 d1 b d2 v reqs).
Qed.
Print Assumptions C08_payload_corruption_detected.

(* the members sccache writes satisfy the hypotheses of 3 *)
Theorem C08_glue_members_wellformed :
  forall (compress : list N -> list N) objs stdout stderr,
    objs_ok objs -> writable (cache_members compress objs stdout stderr) = true ->
    Forall mwf (cache_members compress objs stdout stderr)
    /\ NoDup (map m_name (cache_members compress objs stdout stderr)).
Proof. intros. split; [now apply members_wf|now apply members_nodup]. Qed.
Print Assumptions C08_glue_members_wellformed.

(* 4. Every proper prefix of an entry fails to open (hence is a miss), provided the end-of-central-directory
      signature occurs nowhere else in the entry.  Without that hypothesis the statement is false for
      adversarial object contents (a payload that embeds a consistent EOCD record). *)
Theorem C08_truncation_detected :
  forall (bs : list N) (i : N),
    eocd_sig_unique bs = true -> i < lenN bs -> open_archive (truncate_at i bs) = None.
Proof. exact truncation_detected. Qed.
Print Assumptions C08_truncation_detected.

(* 5. Header corruption.  FULL STATEMENT (not proved, and false as it stands): "for a substitution anywhere in the
      headers, each required file is either refused or extracted with its original bytes".
      PROVED PART:
      (a) C08_header_corruption_files_partial: the 22 metadata bytes (versions, flags, method, time, date, crc,
          sizes) and the name in EVERY local header may be replaced by ANY bytes of the same length — many bytes
          at once, in all members at once — and the cache-hit path returns exactly what it returns for the
          intact entry (by C08_roundtrip: the original contents, modes, stdout, stderr);
      (b) C08_extracted_bytes_match_recorded_crc: for ANY byte string whatsoever, the bytes a member read hands
          out have the CRC-32 recorded in the directory entry that was used, and at most its recorded length.
      MISSING: the 4 signature bytes and the 4 length bytes of a local header, the central directory and the
      end record.  There the only protection of a file's bytes is (b): equality of CRC-32, which is not
      equality of bytes (CRC-32 has collisions, so "original bytes" cannot be a theorem over all contents);
      and the directory itself is unprotected: see the three refutations below and known finding C08-K1. *)
Theorem C08_header_corruption_files_partial :
  forall (decompress : list N -> option (list N)) (ls : list lmember) (reqs : list (list N * bool)),
    let ms := map lm_member ls in
    Forall lm_ok ls -> Forall mwf ms -> (forall m, In m ms -> 0 < m_perm m) ->
    NoDup (map m_name ms) -> writable ms = true -> no_z64_locator (write_zip ms) = true ->
    unpack decompress
           (loose_body ls ++ cd_bytes ms 0 ++ eocd (count_of ms) (lenN (cd_bytes ms 0)) (lenN (body_bytes ms)))
           reqs
    = unpack decompress (write_zip ms) reqs.
Proof. exact local_headers_ignored. Qed.
Print Assumptions C08_header_corruption_files_partial.

(* (a'), the single-byte instance in the property's own terms: substituting byte i of member m's local header,
   4 <= i < 26 or 30 <= i < 30 + name length, changes nothing: the cache-hit path returns what it returns for the
   intact entry. *)
Theorem C08_local_header_substitution_ignored :
  forall (decompress : list N -> option (list N)) ms1 m ms2 (i v : N) (reqs : list (list N * bool)),
    let ms := ms1 ++ m :: ms2 in
    let bs := write_zip ms in
    let j := lenN (body_bytes ms1) + i in
    Forall mwf ms -> (forall m', In m' ms -> 0 < m_perm m') ->
    NoDup (map m_name ms) -> writable ms = true -> no_z64_locator bs = true ->
    (4 <= i < 26 \/ 30 <= i < 30 + lenN (m_name m)) ->
    unpack decompress (subst_at j v bs) reqs = unpack decompress bs reqs.
Proof. exact local_header_substitution_ignored. Qed.
Print Assumptions C08_local_header_substitution_ignored.

Theorem C08_extracted_bytes_match_recorded_crc :
  forall (bs : list N) (c : cent) (mode : option N) (d : list N),
    read_member bs c = ROk (mode, d) -> crc32 d = c_crc c /\ lenN d <= c_csize c.
Proof. exact read_member_crc. Qed.
Print Assumptions C08_extracted_bytes_match_recorded_crc.

(* 6. What the unprotected central directory allows, on the faithful model of the FIXED code (each replayed on
      the real code by the read / extract legs; known finding C08-K1).  ex_bs is the 290-byte entry for
      obj (0o755), dwo (optional) and stderr = "warn"; each line is ONE substituted byte and still a cache hit. *)
Theorem C08_mode_unprotected_refuted :
  unpack ex_decompress ex_bs ex_reqs
  = UHit [] ex_stderr [Some (Some 33261, [127; 69; 76; 70]); Some (Some 33188, [1; 2])]
  /\ unpack ex_decompress (subst_at 158 255 ex_bs) ex_reqs
     = UHit [] ex_stderr [Some (Some 33279, [127; 69; 76; 70]); Some (Some 33188, [1; 2])].
Proof. split; [exact ex_intact|exact mode_unprotected_witness]. Qed.
Print Assumptions C08_mode_unprotected_refuted.

Theorem C08_stdout_dropped_refuted :
  unpack ex_decompress (subst_at 267 115 ex_bs) ex_reqs
  = UHit [] [] [Some (Some 33261, [127; 69; 76; 70]); Some (Some 33188, [1; 2])].
Proof. exact stdio_dropped_witness. Qed.
Print Assumptions C08_stdout_dropped_refuted.

Theorem C08_optional_member_dropped_refuted :
  unpack ex_decompress (subst_at 213 68 ex_bs) ex_reqs
  = UHit [] ex_stderr [Some (Some 33261, [127; 69; 76; 70]); None].
Proof. exact optional_dropped_witness. Qed.
Print Assumptions C08_optional_member_dropped_refuted.

(* 7. The hypothesis no_z64_locator of C08_roundtrip cannot be dropped: for the legal 20-byte object name
      "PK\6\7xxxxxxxxxxxxxxxx" (stored last) the reader takes the entry it is given for a ZIP64 archive and refuses
      it — a miss for ever, never wrong contents (replayed on the real code by the pack leg; known finding C08-K2). *)
Theorem C08_roundtrip_unguarded_refuted :
  no_z64_locator (cache_write ex_compress ex_z64_objs [] []) = false
  /\ writable (cache_members ex_compress ex_z64_objs [] []) = true
  /\ unpack ex_decompress (cache_write ex_compress ex_z64_objs [] [])
            [(obj_name (hd ([], None, []) ex_z64_objs), false)] = UMiss.
Proof. exact roundtrip_z64_witness. Qed.
Print Assumptions C08_roundtrip_unguarded_refuted.

(* ---------------------------------------------------------------- non-vacuity *)
Example ex_zstd : forall x, ex_decompress (ex_compress x) = Some x.
Proof. exact ex_zstd_law. Qed.
Example ex_objs_wellformed : objs_ok ex_objs.
Proof. exact ex_objs_ok. Qed.
Example ex_hyps :
  writable (cache_members ex_compress ex_objs [] ex_stderr) = true
  /\ no_z64_locator ex_bs = true /\ eocd_sig_unique ex_bs = true /\ lenN ex_bs = 290.
Proof. exact ex_hypotheses. Qed.
(* output that is only white space, or a NUL byte, is output: it is stored and comes back (the writer skips a
   stdout/stderr iff it is the empty byte string) *)
Example ex_blank_output_roundtrips :
  unpack ex_decompress (cache_write ex_compress ex_objs [10] [32; 9; 13; 10]) ex_reqs
  = UHit [10] [32; 9; 13; 10] [Some (Some 33261, [127; 69; 76; 70]); Some (Some 33188, [1; 2])]
  /\ unpack ex_decompress (cache_write ex_compress ex_objs [0] []) ex_reqs
     = UHit [0] [] [Some (Some 33261, [127; 69; 76; 70]); Some (Some 33188, [1; 2])]
  /\ has_name (match open_entry (cache_write ex_compress ex_objs [10] []) with Some ar => ar | None => [] end) NAME_STDOUT = true
  /\ has_name (match open_entry (cache_write ex_compress ex_objs [] []) with Some ar => ar | None => [] end) NAME_STDOUT = false.
Proof. vm_compute. repeat split. Qed.
Example ex_zstd_levels :
  zstd_level None = (false, 3) /\ zstd_level (Some [50; 50]) = (false, 22) /\ zstd_level (Some [45; 53]) = (true, 5)
  /\ zstd_level (Some [43; 55]) = (false, 7) /\ zstd_level (Some [32; 55]) = (false, 3)
  /\ zstd_level (Some [50; 49; 52; 55; 52; 56; 51; 54; 52; 56]) = (false, 3).
Proof. vm_compute. repeat split. Qed.
Example ex_payload_substitutions_are_misses :
  unpack ex_decompress (subst_at 35 0 ex_bs) ex_reqs = UMiss
  /\ unpack ex_decompress (subst_at 74 0 ex_bs) ex_reqs = UMiss
  /\ unpack ex_decompress (subst_at 115 0 ex_bs) ex_reqs = UMiss.
Proof. exact ex_payload_misses. Qed.
