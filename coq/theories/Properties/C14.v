(* Properties/C14.v — pinned statements for C14 "server statistics account for every request exactly once".
   Model: Model/Stats.v (the counters, after the S15 fix) + Model/ReqSM.v; proofs: Proofs/Stats.v, Proofs/ReqSM.v.

   A history is a list of epochs; an epoch is a SET of requests of arbitrary kinds (any class, any outcome),
   run concurrently under an ARBITRARY schedule of their critical sections, optionally preceded by a
   ZeroStats; between epochs the server is quiescent.  [run_history h zero_stats] are the counters at the
   quiescent point after the last epoch, starting from a fresh server.  All statements quantify over all
   histories, i.e. over all multisets of requests and all interleavings. *)
From Coq Require Import List NArith Bool.
From Sccache Require Import Base.Sx Model.Stats Model.ReqSM Model.ReqSMExt Proofs.Stats Proofs.ReqSM.
Import ListNotations.
Local Open Scope N_scope.

(* compile_requests = executed + not_cacheable + not_compile + unsupported *)
Theorem C14_requests_partition :
  forall h : list epoch, law_partition (tot (run_history h zero_stats)) = true.
Proof. intro h. apply (laws_split _ (laws_every_history h)). Qed.
Print Assumptions C14_requests_partition.

(* Every executed request is reflected in exactly one outcome class.  The exact law the code supports:
   - each executed request kind belongs to exactly one of the five classes hit / miss / failed compile /
     compiled without storing / error;
   - after any set of requests [ks] under any schedule, from zeroed statistics, cache_hits, cache_misses,
     compile_fails and cache_errors count exactly the requests of their class, and compilations counts the
     misses plus the compiled-without-storing ones (forced no-cache has no counter of its own);
   - hence, at every quiescent point of every history,
       requests_executed = cache_hits + cache_errors + compile_fails + compilations. *)
Theorem C14_outcome_once :
  (forall l oc, exists! c, in_class c (KExecuted l oc) = true)
  /\ (forall sched ks, Ledger ks (tot (run_epoch sched ks zero_stats)))
  /\ (forall ks, count is_executed ks =
                 count (in_class CHit) ks + count (in_class CMiss) ks + count (in_class CFailed) ks
                 + count (in_class CNotStored) ks + count (in_class CErr) ks)
  /\ (forall h : list epoch, law_outcome (tot (run_history h zero_stats)) = true).
Proof.
  split; [exact one_class_each|]. split; [exact ledger_every_interleaving|].
  split; [exact classes_partition|]. intro h. apply (laws_split _ (laws_every_history h)).
Qed.
Print Assumptions C14_outcome_once.

(* cache_writes + cache_write_errors = cache_misses: every miss (normal, forced recache, after a time-out or a
   read error; also on read-only storage, where the write fails) is followed by exactly one of the two *)
Theorem C14_writes_match_misses :
  forall h : list epoch, law_writes (tot (run_history h zero_stats)) = true.
Proof. intro h. apply (laws_split _ (laws_every_history h)). Qed.
Print Assumptions C14_writes_match_misses.

(* the per-language and the per-language-and-compiler breakdowns of cache_errors / cache_hits / cache_misses
   both sum to the total, not_cached sums to requests_not_cacheable; and key by key, each entry counts exactly
   the requests of that class and language *)
Theorem C14_language_sums :
  (forall h : list epoch, law_lang_sums (tot (run_history h zero_stats)) = true)
  /\ (forall (t : ptag) (adv : bool) (k : N) sched ks,
        phi_key t adv k (run_epoch sched ks zero_stats) = count (bumps_key t (proj adv) k) ks).
Proof.
  split; [intro h; apply (laws_split _ (laws_every_history h)) | exact per_key_ledger].
Qed.
Print Assumptions C14_language_sums.

(* compilations >= cache_misses + non_cacheable_compilations (equality up to the forced-no-cache compiles, which
   the ledger part of C14_outcome_once accounts for), and the qualified misses are misses:
   forced_recaches + cache_timeouts + cache_read_errors <= cache_misses *)
Theorem C14_compilations :
  forall h : list epoch,
    law_compilations (tot (run_history h zero_stats)) = true
    /\ law_miss_kinds (tot (run_history h zero_stats)) = true.
Proof. intro h. split; apply (laws_split _ (laws_every_history h)). Qed.
Print Assumptions C14_compilations.

(* quantifying over schedules is quantifying over all interleavings: every merge of the threads that runs each
   of them to its end is produced by some schedule *)
Theorem C14_schedules_cover_interleavings :
  forall (ts : list (list action)) (tr : list action), Merge ts tr -> exists sched, interleave sched ts = tr.
Proof. exact (@merge_has_schedule action). Qed.
Print Assumptions C14_schedules_cover_interleavings.

(* the tie to the request state machine: whatever the request, faults, oracle and cache state, the critical
   sections a request performs are the program of its kind, so the theorems above cover every request *)
Theorem C14_every_request_is_a_program :
  forall f cl cc o st,
    snd (request f cl cc o st) = program (kind_of cl (o_lang o) (snd (fst (request f cl cc o st)))).
Proof. exact request_program. Qed.
Print Assumptions C14_every_request_is_a_program.

(* the counts agree with the observed behaviour: a request counted as a hit did not run the compiler, a miss
   (and every other compiled class) ran it exactly once *)
Theorem C14_hit_did_not_compile :
  forall f cc o st,
    let r := snd (execute f cc o st) in
    match r_outcome r with
    | Some OHit | Some OError => r_cc_runs r = 0
    | Some (OMiss _ _) | Some OCompileFailed | Some ONotCached | Some ONotCacheable => r_cc_runs r = 1
    | Some OFatal => r_cc_runs r = 0 \/ r_cc_runs r = 1
    | None => False
    end.
Proof. exact execute_runs. Qed.
Print Assumptions C14_hit_did_not_compile.

(* A request whose processing PANICS inside the compile task (a storage backend or sccache's own code) is not lost
   to the statistics: the panic is caught (`catch_unwind` around `get_cached_or_compile`), the request is answered
   with a fatal error and ends in the outcome class "error" (cache_errors) — so it is an executed request with
   exactly one outcome like any other, and the laws above cover it. *)
Theorem C14_panic_is_an_error_outcome :
  (forall f cc o st, r_client (snd (execute f cc o st)) = CFatal ->
                     r_outcome (snd (execute f cc o st)) = Some OFatal)
  /\ (forall l, in_class CErr (KExecuted l OFatal) = true
                /\ program (KExecuted l OFatal) = [[ICompileRequests]; [IExecuted]; [ICacheError l]]).
Proof. split; [exact execute_panic_is_error | intro l; split; reflexivity]. Qed.
Print Assumptions C14_panic_is_an_error_outcome.

(* A compile that the server EXECUTED and that only turned out not to be storable when the compile command was
   generated (`Cacheable::No`: MSVC with a program database that already exists, some nvcc sub-commands) is an
   executed request of the class "compiled without storing": it bumps compilations and
   non_cacheable_compilations — and NOT requests_not_cacheable / the not_cached reasons, which count the requests
   REFUSED while parsing arguments and handed back to the client (it would be in two of the four request classes
   otherwise). *)
Theorem C14_not_cacheable_compile_is_executed_only :
  (forall f o st1 k pp mt,
      o_c_panics o = false -> o_c_status o = 0 -> o_cacheable o = false -> mt <> MForcedNoCache ->
      compile_and_store f o st1 k pp mt
      = (st1, mk_response (CFinished 0 (o_c_stdout o) (o_c_stderr o))
                          (if o_c_writes o then o_c_outputs o else []) pp 1 ONotCacheable))
  /\ (forall l, let t := tsum (program (KExecuted l ONotCacheable)) in
                t_requests t = 1 /\ t_executed t = 1 /\ t_not_cacheable t = 0 /\ t_not_cached_sum t = 0
                /\ t_non_cacheable_comp t = 1 /\ t_compilations t = 1 /\ t_misses t = 0
                /\ in_class CNotStored (KExecuted l ONotCacheable) = true).
Proof.
  split.
  - intros f o st1 k pp mt Hp Hs Hc Hm. unfold compile_and_store. rewrite Hp, Hs, Hc. simpl.
    destruct mt; try reflexivity. contradiction.
  - intro l. cbv zeta. repeat split.
Qed.
Print Assumptions C14_not_cacheable_compile_is_executed_only.

(* A request for which the distributed-compilation client cannot be obtained (`get_client()` fails: dist
   configured with OAuth2 and no token) has already been counted as executed; the error goes through the same
   result handling as every other error, so the request ends in the outcome class "error" (cache_errors) and is
   answered — it is not left without an outcome. *)
Theorem C14_dist_client_error_is_an_error_outcome :
  forall o st,
    request_dist_error QCompile o st
    = (st, mk_response CFatal [] 0 0 OFatal, [[ICompileRequests]; [IExecuted]; [ICacheError (o_lang o)]])
    /\ in_class CErr (KExecuted (o_lang o) OFatal) = true.
Proof. intros o st. split; reflexivity. Qed.
Print Assumptions C14_dist_client_error_is_an_error_outcome.

(* EVERY compile request — whatever its argument list, also an empty one (`sccache gcc`) — is counted in exactly one
   of the four request classes: the program of every request kind bumps compile_requests once and exactly one of
   requests_executed / requests_not_cacheable / requests_not_compile / requests_unsupported_compiler once.  (There
   is no exit from `handle_compile` that skips `check_compiler`.) *)
Theorem C14_every_request_in_one_class :
  (forall k : request_kind,
      let t := tsum (program k) in
      t_requests t = 1 /\ t_executed t + t_not_cacheable t + t_not_compile t + t_unsupported t = 1)
  /\ (forall f cl cc o st, exists k, snd (request f cl cc o st) = program k).
Proof.
  split.
  - intro k. cbv zeta.
    destruct k as [| |why|l oc]; [| | |destruct oc as [|mt stored| | | | |]; [|destruct mt, stored| | | | |]];
      split; reflexivity.
  - intros f cl cc o st. eexists. apply request_program.
Qed.
Print Assumptions C14_every_request_in_one_class.

(* A compiler (or preprocessor) that does not EXIT but is killed by a signal gives no exit code; in the model that
   is just another unsuccessful status (the harness reports 256 + signal).  The request is still an executed
   request with exactly one outcome: a killed compiler is a failed compile (compile_fails), a killed
   preprocessor the error class (cache_errors) — for every status other than 0. *)
Theorem C14_unsuccessful_status_has_an_outcome :
  (forall f o st1 k pp mt,
      o_c_panics o = false -> o_c_status o <> 0 ->
      compile_and_store f o st1 k pp mt
      = (st1, mk_response (CFinished (o_c_status o) (o_c_stdout o) (o_c_stderr o)) [] pp 1 OCompileFailed))
  /\ (forall f o st1,
      o_pp_panics o = false -> o_pp_status o <> 0 ->
      hk_preprocess f o st1 = (st1, HKError, 1))
  /\ (forall l, in_class CFailed (KExecuted l OCompileFailed) = true /\ in_class CErr (KExecuted l OError) = true).
Proof.
  split; [|split].
  - intros f o st1 k pp mt Hp Hs. unfold compile_and_store. rewrite Hp.
    apply N.eqb_neq in Hs. rewrite Hs. reflexivity.
  - intros f o st1 Hp Hs. unfold hk_preprocess. rewrite Hp. apply N.eqb_neq in Hs. rewrite Hs. reflexivity.
  - intro l. split; reflexivity.
Qed.
Print Assumptions C14_unsuccessful_status_has_an_outcome.

(* Zeroing while a request is in flight breaks the laws at the next quiescent point (inherent: the request's
   earlier increments are wiped, its later ones are not); the property's "zeroing in between" is therefore
   zeroing at quiescent points, as in [run_history]. *)
Theorem C14_zero_midflight_refuted :
  (exists (threads : list (list event)) (sched : list nat),
      law_partition (tot (run_events (interleave sched threads) zero_stats)) = false)
  /\ (* the schedule replayed on the real server by the harness step `midzero`: the request has counted itself
        (compile_requests, requests_executed) and waits in its cache lookup when the ZeroStats arrives *)
     law_outcome (tot (run_events (interleave midflight_sched midflight_threads) zero_stats)) = false.
Proof.
  split.
  - exists midflight_threads, midflight_sched2. exact zero_midflight_breaks_partition2.
  - apply zero_midflight_breaks_partition.
Qed.
Print Assumptions C14_zero_midflight_refuted.

(* ---------- non-vacuity ---------- *)

Definition cxx : lang := {| l_lang := 0; l_adv := 0 |}.
Definition cxx_clang : lang := {| l_lang := 0; l_adv := 1 |}.

(* three concurrent requests under a schedule that really interleaves them, then a zeroing, then two more *)
Example C14_history_example :
  let h := [ {| e_zero := false;
                e_reqs := [KExecuted cxx (OMiss MReadError false); KExecuted cxx_clang OHit; KCannotCache 4];
                e_sched := [2; 0; 1; 0; 1; 2; 0; 1; 0]%nat |};
             {| e_zero := false; e_reqs := [KExecuted cxx ONotCached; KUnsupported]; e_sched := [1; 0; 1]%nat |} ] in
  let s := run_history h zero_stats in
  (compile_requests s, requests_executed s, plc_all (cache_hits s), plc_all (cache_misses s),
   cache_read_errors s, plc_all (cache_errors s), cache_write_errors s, compilations s,
   cm_get 1 (adv_counts (cache_hits s)), laws (tot s))
  = (5, 3, 1, 1, 1, 0, 1, 2, 1, true).
Proof. vm_compute. reflexivity. Qed.

(* the schedule of the mid-flight witness: compile_requests += 1; ZeroStats; requests_executed += 1; hit *)
Example C14_midflight_witness :
  tot (run_events (interleave midflight_sched2 midflight_threads) zero_stats)
  = tot (apply_action [IExecuted; IHit cxx] zero_stats).
Proof. vm_compute. reflexivity. Qed.
