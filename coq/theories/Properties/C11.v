(* Properties/C11.v — pinned statements for property C11:
   "Losing the server mid-request degrades to a correct local compile".
   Model: Model/Client.v (byte-level client decision function and server frame decoder);
   proofs: Proofs/Client.v.  `opq` is the oracle for the three responses that cannot occur in a
   compile exchange; every statement holds for every oracle.
   PARTIAL with respect to the property text in one respect only: which `ending` (clean EOF, reset, other
   I/O error) the kernel presents for a lost server is an input here; the kill leg of the check observes
   that a SIGKILLed server yields EOF. *)
From Coq Require Import List NArith Bool.
From Sccache Require Import Model.Client Proofs.Client.
Import ListNotations.
Local Open Scope N_scope.

(* For EVERY response stream (any bytes, any ending), either switch setting and any compiler status: exit
   status 0 happens only (a) after both frames CompileStarted and CompileFinished were received completely and
   the CompileFinished itself carries status 0, or (b) after the client ran the original command itself and
   that run returned 0.  Everything else is the local compiler's own non-zero status or exit 2. *)
Theorem C11_never_false_success :
  forall (opq : N -> list N -> bool) (ignore_io : bool) (bytes : list N) (e : ending) (local : N),
    exit_code (client opq ignore_io bytes e) local = 0 ->
    (exists p1 r1 p2 r2 f,
        framed bytes p1 r1 /\ decode_response opq p1 = Some (RCompile CompileStarted) /\
        framed r1 p2 r2 /\ decode_response opq p2 = Some (RFinished f) /\
        client opq ignore_io bytes e = ReturnFinished f /\ finished_exit f = 0)
    \/ (exists w, client opq ignore_io bytes e = RunLocally w /\ local = 0).
Proof. exact never_false_success. Qed.
Print Assumptions C11_never_false_success.

(* Server lost (clean EOF) anywhere after the acknowledgement and before the end of the second frame: the
   client runs the original command and returns ITS status — with or without the switch. *)
Theorem C11_eof_after_ack_falls_back :
  forall opq ignore_io bytes p1 rest local,
    framed bytes p1 rest ->
    decode_response opq p1 = Some (RCompile CompileStarted) ->
    cut_short rest = true ->
    client opq ignore_io bytes Eof = RunLocally LEofAfterAck /\
    exit_code (client opq ignore_io bytes Eof) local = local.
Proof. exact eof_after_ack. Qed.
Print Assumptions C11_eof_after_ack_falls_back.

(* The same on the wire: a server that dies after writing ANY proper prefix (k bytes, every k) of its
   CompileFinished frame. *)
Theorem C11_killed_while_answering :
  forall opq ignore_io f (k : nat) local,
    blen (encode_finished f) < 4294967296 ->
    (k < length (frame (encode_finished f)))%nat ->
    client opq ignore_io (frame (encode_compile_response CompileStarted) ++ firstn k (frame (encode_finished f))) Eof
    = RunLocally LEofAfterAck /\
    exit_code (client opq ignore_io
                 (frame (encode_compile_response CompileStarted) ++ firstn k (frame (encode_finished f))) Eof) local
    = local.
Proof. exact killed_while_answering. Qed.
Print Assumptions C11_killed_while_answering.

(* Lost after the acknowledgement in any other way (reset / other I/O error before the second frame is
   complete, or a second frame that does not decode): local compile iff SCCACHE_IGNORE_SERVER_IO_ERROR=1,
   otherwise the non-zero sccache error.  (This is where the code deviates from the property's first sentence
   and relies on its second: a reset is an error, not a fallback, unless the switch is on.) *)
Theorem C11_io_error_after_ack :
  forall opq (ignore_io : bool) bytes p1 rest e,
    framed bytes p1 rest ->
    decode_response opq p1 = Some (RCompile CompileStarted) ->
    (cut_short rest = true /\ e <> Eof) \/
    (exists p2 r2, framed rest p2 r2 /\ decode_response opq p2 = None) ->
    client opq ignore_io bytes e = (if ignore_io then RunLocally LIgnoredError else SccacheError EAfterAck).
Proof. exact io_error_after_ack. Qed.
Print Assumptions C11_io_error_after_ack.

(* Lost BEFORE the acknowledgement (the first frame is incomplete), whatever the ending and the switch:
   no fallback; the client exits 2 with an sccache error — consistent with "either delivers the compiler's
   true result or exits non-zero". *)
Theorem C11_lost_before_ack :
  forall opq ignore_io bytes e local,
    cut_short bytes = true ->
    client opq ignore_io bytes e = SccacheError EBeforeAck /\
    exit_code (client opq ignore_io bytes e) local = 2.
Proof. exact lost_before_ack. Qed.
Print Assumptions C11_lost_before_ack.

(* Nothing is lost needlessly: once both frames are in, the result is delivered however the stream ends. *)
Theorem C11_complete_exchange_delivered :
  forall opq ignore_io f tail e,
    wf_finished f -> blen (encode_finished f) < 4294967296 ->
    client opq ignore_io
      (frame (encode_compile_response CompileStarted) ++ frame (encode_finished f) ++ tail) e
    = ReturnFinished f.
Proof. exact exchange_on_the_wire. Qed.
Print Assumptions C11_complete_exchange_delivered.

(* Server side.  The decoder state depends on the bytes, not on how they were cut into reads. *)
Theorem C11_chunking_irrelevant :
  forall cap c chunks1 chunks2,
    concat chunks1 = concat chunks2 ->
    fold_left (feed cap) chunks1 c = fold_left (feed cap) chunks2 c.
Proof. exact chunking_irrelevant. Qed.
Print Assumptions C11_chunking_irrelevant.

(* For every interleaving of chunks over any number of connections: the state of a connection (decoder state,
   requests handed to the service, open/closed) is a function of THAT connection's bytes only. *)
Theorem C11_connection_isolation :
  forall cap (evs : list (N * list N)) id,
    srv_get (srv_run cap evs) id = feed cap conn_init (conn_bytes evs id).
Proof. exact connection_isolation. Qed.
Print Assumptions C11_connection_isolation.

(* The server stops only if some connection carried a complete in-cap frame decoding as Shutdown (after frames
   that all decoded).  Garbage, oversized prefixes and truncated frames never do. *)
Theorem C11_only_shutdown_stops_the_server :
  forall cap evs,
    srv_shutdown (srv_run cap evs) = true ->
    exists id fs f post,
      conn_bytes evs id = flat fs ++ wire f ++ post /\
      Forall (wf_wframe cap) fs /\ wf_wframe cap f /\
      decode_request (snd f) = Some ReqShutdown.
Proof. exact only_shutdown_stops_the_server. Qed.
Print Assumptions C11_only_shutdown_stops_the_server.

(* Every byte string is: complete in-cap frames that all decode (exactly the requests handed on, in order),
   followed by a proper prefix of a frame (connection open, waiting) | an oversized length prefix (closed) |
   one undecodable frame and ignored bytes (closed). *)
Theorem C11_frame_decoder_total :
  forall cap bytes,
    exists fs rest,
      bytes = flat fs ++ rest /\ Forall (wf_wframe cap) fs /\
      map (fun f => decode_request (snd f)) fs = map Some (rev (c_reqs (feed cap conn_init bytes))) /\
      ( (conn_closed (feed cap conn_init bytes) = false /\ incomplete cap rest = true)
        \/ (c_state (feed cap conn_init bytes) = Closed FrameTooBig /\ oversized cap rest = true)
        \/ (c_state (feed cap conn_init bytes) = Closed BadMessage /\
            exists bad tail, rest = wire bad ++ tail /\ wf_wframe cap bad /\ decode_request (snd bad) = None) ).
Proof. exact frame_decoder_total. Qed.
Print Assumptions C11_frame_decoder_total.

(* ---------- "if no server is running the client starts one and proceeds" ---------- *)

(* What the client does on each report of the server it spawned, and on each first connect result: it obtains
   a connection iff the first connect worked, or it was refused AND the spawned server reported Ok (on the
   requested address) or AddrInUse AND one of the at most 11 connect attempts meets a listener.  TimedOut,
   Err, a wrong address, a failed spawn, any other connect error: sccache error (exit 2). *)
Theorem C11_start_up_table :
  forall first rep later,
    connect_or_start first rep later = None <->
    first = AOk \/
    (first = ARefused /\ (rep = SOk true \/ rep = SAddrInUse) /\ connect_with_retry later = true).
Proof. exact connect_or_start_table. Qed.
Print Assumptions C11_start_up_table.

(* AddrInUse (another client's server won the race for the port) is handled exactly like "my server
   started": the client proceeds to connect. *)
Theorem C11_addr_in_use_proceeds :
  forall later,
    connect_or_start ARefused SAddrInUse later = connect_or_start ARefused (SOk true) later /\
    (connect_with_retry later = true -> connect_or_start ARefused SAddrInUse later = None).
Proof. exact addr_in_use_proceeds. Qed.
Print Assumptions C11_addr_in_use_proceeds.

(* Cold start, any number of clients: a client that found no server, whose spawned server won (Ok) or lost
   (AddrInUse) the port, and that reaches the listener within its retries, gets the compile result. *)
Theorem C11_cold_start_delivers :
  forall opq ignore_io rep later f tail e,
    rep = SOk true \/ rep = SAddrInUse ->
    connect_with_retry later = true ->
    wf_finished f -> blen (encode_finished f) < 4294967296 ->
    compile_process opq ignore_io ARefused rep later
      (frame (encode_compile_response CompileStarted) ++ frame (encode_finished f) ++ tail) e
    = PCompile (ReturnFinished f).
Proof. exact cold_start_delivers. Qed.
Print Assumptions C11_cold_start_delivers.

(* C11_never_false_success for the whole process, start-up included. *)
Theorem C11_process_never_false_success :
  forall opq ignore_io first rep later bytes e local,
    process_exit (compile_process opq ignore_io first rep later bytes e) local = 0 ->
    connect_or_start first rep later = None /\
    ((exists p1 r1 p2 r2 f,
        framed bytes p1 r1 /\ decode_response opq p1 = Some (RCompile CompileStarted) /\
        framed r1 p2 r2 /\ decode_response opq p2 = Some (RFinished f) /\
        client opq ignore_io bytes e = ReturnFinished f /\ finished_exit f = 0)
     \/ (exists w, client opq ignore_io bytes e = RunLocally w /\ local = 0)).
Proof. exact process_never_false_success. Qed.
Print Assumptions C11_process_never_false_success.

(* For EVERY requested server address — a TCP port, a Unix socket path in any spelling (symlinked directory,
   `..`, `.`, doubled separators: the path is a byte string here, nothing is assumed about it), an abstract name —
   the server started for it binds that address as given and reports it, so the client's string comparison
   succeeds and it goes on to connect: a non-canonical socket path is not a reason to bail. *)
Theorem C11_server_reports_requested_address :
  forall a : saddr, report_of_started_server a = SOk true.
Proof. exact server_reports_requested_address. Qed.
Print Assumptions C11_server_reports_requested_address.

Theorem C11_cold_start_any_address :
  forall (a : saddr) later,
    connect_with_retry later = true ->
    connect_or_start ARefused (report_of_started_server a) later = None.
Proof. exact cold_start_any_address. Qed.
Print Assumptions C11_cold_start_any_address.

(* The client's environment at a cold start: whatever XDG_RUNTIME_DIR and HOME are (unset, usable, stale,
   unwritable), as long as the temporary directory is usable (or TMPDIR unset) the client starts the server and
   goes on to connect, for every address. *)
Theorem C11_cold_start_stale_environment :
  forall tmp xdg home (a : saddr) later,
    tmp <> Some DirUnusable ->
    connect_with_retry later = true ->
    connect_or_start ARefused
      (spawn_report {| e_tmpdir := tmp; e_xdg_runtime := xdg; e_home := home |} (report_of_started_server a)) later
    = None.
Proof. exact cold_start_stale_environment. Qed.
Print Assumptions C11_cold_start_stale_environment.

(* ... and an unusable temporary directory is a non-zero sccache error, never anything else. *)
Theorem C11_unusable_tmpdir_is_an_error :
  forall xdg home rep later,
    connect_or_start ARefused
      (spawn_report {| e_tmpdir := Some DirUnusable; e_xdg_runtime := xdg; e_home := home |} rep) later
    = Some ESpawnFailed.
Proof. exact unusable_tmpdir_is_an_error. Qed.
Print Assumptions C11_unusable_tmpdir_is_an_error.

(* A result that does not fit into one frame (cap = max_frame_length) cannot be sent: the connection drops after
   the acknowledgement and the client compiles locally — its own run delivers status and complete output. *)
Theorem C11_oversized_result_falls_back :
  forall opq ignore_io cap f local,
    cap < blen (encode_finished f) ->
    client opq ignore_io (server_reply cap f) Eof = RunLocally LEofAfterAck /\
    exit_code (client opq ignore_io (server_reply cap f) Eof) local = local.
Proof. exact oversized_result_falls_back. Qed.
Print Assumptions C11_oversized_result_falls_back.

(* Whole or not at all: for every frame limit and every result, a CompileFinished the client acts on is exactly
   the one the compile produced (same status, same stdout and stderr, byte for byte) — never a clipped one. *)
Theorem C11_result_whole_or_not_at_all :
  forall opq ignore_io cap f f',
    wf_finished f -> blen (encode_finished f) < 4294967296 ->
    client opq ignore_io (server_reply cap f) Eof = ReturnFinished f' -> f' = f.
Proof. exact result_whole_or_not_at_all. Qed.
Print Assumptions C11_result_whole_or_not_at_all.

(* The local fallback is the ORIGINAL command: the compiler gets the client's whole environment — whatever subset
   was sent to the server — and the client's own stdio. *)
Theorem C11_fallback_is_the_original_command :
  forall client_env sent_env : env_list,
    lr_env (fallback_run client_env sent_env) = client_env /\
    lr_stdio_inherited (fallback_run client_env sent_env) = true.
Proof. exact fallback_is_the_original_command. Qed.
Print Assumptions C11_fallback_is_the_original_command.

(* For every history of servers binding a Unix socket path and exiting: a server's exit never changes who owns
   the path; it leads to the server that bound it last (a draining old server cannot take the socket of the
   server that replaced it away). *)
Theorem C11_exit_keeps_the_socket :
  forall evs s, sock_owner (evs ++ [SExit s]) = sock_owner evs.
Proof. exact exit_keeps_the_socket. Qed.
Print Assumptions C11_exit_keeps_the_socket.

Theorem C11_socket_belongs_to_last_binder :
  forall evs, sock_owner evs = last_bind evs None.
Proof. exact socket_belongs_to_last_binder. Qed.
Print Assumptions C11_socket_belongs_to_last_binder.

(* ---------- well-formed but unservable requests do not disturb later requests ---------- *)

(* The compiler map is shared by all connections.  For EVERY history of compile requests (any connections, any
   paths, any probe outcomes — in particular failed probes for the same compiler path, which leave `None`
   entries) a request whose own probe succeeds is served. *)
Theorem C11_failed_probe_does_not_poison :
  forall (before : list compile_req) (q : compile_req) (after : list compile_req),
    q_probe_ok q = true ->
    nth_error (fst (serve_all [] (before ++ q :: after))) (length before) = Some true.
Proof. exact served_after_any_history. Qed.
Print Assumptions C11_failed_probe_does_not_poison.

(* ---------- non-vacuity ---------- *)

Definition ex_opq (_ : N) (_ : list N) : bool := false.
Definition ex_fin : finished :=
  {| f_retcode := Some 0; f_signal := None; f_stdout := [104; 105]; f_stderr := [119]; f_color := 2 |}.
Definition ex_ack : list N := frame (encode_compile_response CompileStarted).

Example ex_wf : wf_finished ex_fin /\ blen (encode_finished ex_fin) < 4294967296.
Proof. unfold wf_finished; simpl; repeat split; reflexivity. Qed.

Example ex_full_exchange :
  client ex_opq false (ex_ack ++ frame (encode_finished ex_fin)) Reset = ReturnFinished ex_fin.
Proof. vm_compute. reflexivity. Qed.

Example ex_cut_in_second_frame :
  client ex_opq false (ex_ack ++ firstn 9 (frame (encode_finished ex_fin))) Eof = RunLocally LEofAfterAck
  /\ cut_short (firstn 9 (frame (encode_finished ex_fin))) = true
  /\ framed ex_ack (encode_compile_response CompileStarted) [].
Proof.
  split; [vm_compute; reflexivity|]. split; [vm_compute; reflexivity|].
  exists 0, 0, 0, 8. split; reflexivity.
Qed.

Example ex_reset_is_an_error_unless_ignored :
  client ex_opq false (ex_ack ++ [0; 0]) Reset = SccacheError EAfterAck /\
  client ex_opq true (ex_ack ++ [0; 0]) Reset = RunLocally LIgnoredError /\
  exit_code (client ex_opq false (ex_ack ++ [0; 0]) Reset) 0 = 2.
Proof. vm_compute. repeat split; reflexivity. Qed.

Example ex_before_ack : cut_short (firstn 11 ex_ack) = true /\
  client ex_opq true (firstn 11 ex_ack) Eof = SccacheError EBeforeAck.
Proof. vm_compute. split; reflexivity. Qed.

(* garbage on connection 1 (oversized prefix), a truncated frame on 3, valid GetStats on 2, interleaved *)
Definition ex_evs : list (N * list N) :=
  [ (2, [0; 0]); (1, [255; 255; 255; 255; 1]); (3, [0; 0; 0; 9; 1]); (2, [0; 4; 1; 0]); (1, [7; 7]); (2, [0; 0]) ].

Example ex_isolation :
  c_reqs (srv_get (srv_run 8388608 ex_evs) 2) = [ReqGetStats] /\
  c_state (srv_get (srv_run 8388608 ex_evs) 1) = Closed FrameTooBig /\
  conn_closed (srv_get (srv_run 8388608 ex_evs) 3) = false /\
  srv_shutdown (srv_run 8388608 ex_evs) = false.
Proof. vm_compute. repeat split; reflexivity. Qed.

Example ex_shutdown_is_reachable :
  srv_shutdown (srv_run 8388608 [(1, [0; 0; 0; 4; 3; 0; 0; 0])]) = true /\
  wf_wframe 8388608 ([0; 0; 0; 4], [3; 0; 0; 0]).
Proof.
  split; [vm_compute; reflexivity|]. exists 0, 0, 0, 4. repeat split; vm_compute; congruence.
Qed.

Example ex_undecodable_closes_only_itself :
  c_state (feed 8388608 conn_init [0; 0; 0; 4; 9; 9; 9; 9; 0; 0; 0; 4; 1; 0; 0; 0]) = Closed BadMessage /\
  c_reqs (feed 8388608 conn_init [0; 0; 0; 4; 9; 9; 9; 9; 0; 0; 0; 4; 1; 0; 0; 0]) = [].
Proof. vm_compute. split; reflexivity. Qed.

Example ex_cold_start_race :
  connect_or_start ARefused SAddrInUse [ARefused; ARefused; AOk] = None /\
  connect_or_start ARefused STimedOut [AOk] = Some EStartTimedOut /\
  connect_or_start ARefused (SOk true) [] = Some ERetryExhausted /\
  connect_with_retry (repeat ARefused 11 ++ [AOk]) = false.
Proof. vm_compute. repeat split; reflexivity. Qed.

(* the same compiler path: probe fails for one request (its environment), then ordinary requests; and a
   positive entry with an old mtime is probed again *)
Example ex_poison_order :
  fst (serve_all [] [ {| q_path := [1]; q_mtime := 5; q_probe_ok := false |};
                      {| q_path := [1]; q_mtime := 5; q_probe_ok := true |};
                      {| q_path := [1]; q_mtime := 5; q_probe_ok := false |};
                      {| q_path := [1]; q_mtime := 6; q_probe_ok := false |} ])
  = [false; true; true; false].
Proof. vm_compute. reflexivity. Qed.

Example ex_non_canonical_socket_path :
  (* "/t/link/../s" *)
  connect_or_start ARefused (report_of_started_server (UdsPath [47; 116; 47; 108; 47; 46; 46; 47; 115])) [AOk] = None /\
  connect_or_start ARefused (SOk false) [AOk] = Some EWrongAddr.
Proof. vm_compute. split; reflexivity. Qed.

Example ex_result_at_the_limit :
  (* encode_finished ex_fin is 33 bytes *)
  blen (encode_finished ex_fin) = 33 /\
  client ex_opq false (server_reply 33 ex_fin) Eof = ReturnFinished ex_fin /\
  client ex_opq false (server_reply 32 ex_fin) Eof = RunLocally LEofAfterAck.
Proof. vm_compute. repeat split; reflexivity. Qed.

Example ex_stale_xdg_runtime_dir :
  spawn_report {| e_tmpdir := None; e_xdg_runtime := Some DirUnusable; e_home := Some DirUnusable |} (SOk true) = SOk true /\
  spawn_report {| e_tmpdir := Some DirUnusable; e_xdg_runtime := None; e_home := None |} (SOk true) = SSpawnErr.
Proof. split; reflexivity. Qed.

Example ex_takeover : sock_owner [SBind 1; SBind 2; SExit 1] = Some 2.
Proof. reflexivity. Qed.
