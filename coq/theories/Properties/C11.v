(* placeholder until the proofs land *)
From Sccache Require Import Model.Client.
