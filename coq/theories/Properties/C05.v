(* Properties/C05.v — pinned statements for C05 "wrapped rustc compiles are identical to direct ones and keyed on all
   inputs".  PARTIAL: rustc is not modelled.  What is proved is the sccache side: what the key pre-image determines
   (every hashed input class of the property, and nothing is lost between the components), that reordering
   --cfg / dropping --extern, -L, --out-dir does not change it, that the dep-info of rustc is read back without loss
   (source files and env-deps, unset <> empty), and the cacheable-shape decision as a finite table.  That equal inputs
   give equal rustc outputs, and that outputs restored from the cache equal a direct run, is sampled by the e2e leg. *)
From Coq Require Import List NArith Bool Permutation.
From Coq Require String.
Import String.StringSyntax.
From Sccache Require Import Base.Sx Model.RustPath Model.DepInfo Model.RustArgs Model.RustKey
  Gen.C05HashSpec Gen.C05ArgTable Proofs.DepInfo Proofs.RustKey Proofs.RustArgs.
Import ListNotations.
Local Open Scope N_scope.
Local Open Scope string_scope.

(* the component order and every constant copied from generate_hash_key / parse_dep_info / parse_env_dep_info by the
   translator are the ones the theorems below are about (the code as it is: env-deps with an unset marker after the
   S13 fix; arguments concatenated WITHOUT a terminator, finding C05-S22) *)
Theorem C05_spec_ok :
  hash_spec = [HCacheVersion; HShlibDigests; HArguments; HFileDigests [DSource; DExtern; DStaticlib; DTargetJson];
               HEnvDeps; HCargoEnv; HCwd; HRustcVersion] /\
  arg_terminator = [] /\
  env_dep_set_marker = [61] /\ env_dep_unset_marker = Some [0] /\ env_dep_unset_is_none = true /\
  cargo_separator = [61] /\
  arg_excluded = [bs "--extern"; bs "-L"; bs "--out-dir"] /\
  arg_excluded_if_target_json = [bs "--target"] /\
  arg_sorted_last = [bs "--cfg"] /\
  env_dropped = [bs "RUSTC_COLOR"] /\
  cargo_prefix = bs "CARGO_" /\ cargo_skip_exact = [bs "CARGO_MAKEFLAGS"] /\
  cargo_skip_prefix = [bs "CARGO_REGISTRIES_"] /\
  dep_separator = [COLON; SP] /\ env_dep_prefix_src = env_dep_prefix /\ env_dep_split = EQS /\
  weak_key_after = 2%nat.
Proof. exact spec_ok. Qed.
Print Assumptions C05_spec_ok.

(* what parse_dep_info returns on the text rustc writes: the listed files joined to cwd, sorted by Ord for Path
   (no dedup, nothing dropped), for every list of paths that rustc can print unambiguously *)
Theorem C05_depinfo_roundtrip : forall t ts fs envs cwd,
  target_ok t = true -> forallb dep_path_ok fs = true ->
  parse_dep_info (print_dep_info (t :: ts) fs envs) cwd = sort_paths (map (path_join cwd) fs).
Proof. exact depinfo_roundtrip. Qed.
Print Assumptions C05_depinfo_roundtrip.

Theorem C05_depinfo_lossless : forall t ts fs envs cwd,
  target_ok t = true -> forallb dep_path_ok fs = true ->
  Permutation (parse_dep_info (print_dep_info (t :: ts) fs envs) cwd) (map (path_join cwd) fs).
Proof. exact depinfo_lossless. Qed.
Print Assumptions C05_depinfo_lossless.

(* the `# env-dep:` lines are read back exactly (with rustc's escaping left in place): an unset variable stays None *)
Theorem C05_envdep_roundtrip : forall ts fs envs,
  forallb target_ok ts = true -> forallb dep_path_ok fs = true -> forallb env_name_ok envs = true ->
  parse_env_dep_info (print_dep_info ts fs envs) = map escape_env_dep envs.
Proof. exact envdep_roundtrip. Qed.
Print Assumptions C05_envdep_roundtrip.

Theorem C05_envdep_determines : forall ts1 fs1 envs1 ts2 fs2 envs2,
  forallb target_ok ts1 = true -> forallb dep_path_ok fs1 = true -> forallb env_name_ok envs1 = true ->
  forallb target_ok ts2 = true -> forallb dep_path_ok fs2 = true -> forallb env_name_ok envs2 = true ->
  parse_env_dep_info (print_dep_info ts1 fs1 envs1) = parse_env_dep_info (print_dep_info ts2 fs2 envs2) ->
  envs1 = envs2.
Proof. exact envdep_determines. Qed.
Print Assumptions C05_envdep_determines.

(* finding S13, the code before the fix: different env-dep lists, equal parse results *)
Theorem C05_envdep_old_refuted :
  exists envs1 envs2,
    envs1 <> envs2 /\
    forallb env_name_ok envs1 = true /\ forallb env_name_ok envs2 = true /\
    parse_env_dep_info_old (print_dep_info [[111]] [[97]] envs1) =
    parse_env_dep_info_old (print_dep_info [[111]] [[97]] envs2).
Proof. exact envdep_old_refuted. Qed.
Print Assumptions C05_envdep_old_refuted.

(* equal key pre-images imply equal components: the sysroot library digests, the argument STRING (the concatenation
   of the hashed arguments — NOT the arguments themselves, see C05_arg_concat_refuted), all file digests (sources, externs,
   static libraries, target json: one list, the code writes no counts), all environment entries (env-deps followed by
   the hashed CARGO_* variables: one list, same reason) and the (cwd, rustc -vV) tail *)
Theorem C05_key_injective_modulo_arg_concat : forall r1 r2,
  req_wf r1 = true -> req_wf r2 = true -> encode r1 = encode r2 ->
  h_shlibs r1 = h_shlibs r2 /\
  req_arg_string r1 = req_arg_string r2 /\
  all_digests r1 = all_digests r2 /\
  req_entries r1 = req_entries r2 /\
  tail_of r1 = tail_of r2.
Proof. exact key_injective. Qed.
Print Assumptions C05_key_injective_modulo_arg_concat.

(* C05-S22 (recorded, open): the argument string is a plain concatenation, so the per-argument statement is FALSE:
   `-C metadata=a -C metadata=b` and `-C metadata=a-Cmetadata=b` (both accepted by rustc, different rlibs) have
   different hashed pieces and the same argument string, hence — everything else equal — the same key *)
Theorem C05_arg_concat_refuted :
  exists a1 a2 : list pair,
    arg_pieces false a1 <> arg_pieces false a2 /\
    pieces_nul_free (arg_pieces false a1) = true /\ pieces_nul_free (arg_pieces false a2) = true /\
    arg_string false a1 = arg_string false a2.
Proof. exact arg_concat_refuted. Qed.
Print Assumptions C05_arg_concat_refuted.

(* what IS true of the arguments: the string is exactly the concatenation of the hashed pieces ... *)
Theorem C05_arg_string_is_concat : forall tj a, arg_string tj a = concat (arg_pieces tj a).
Proof. exact arg_string_concat. Qed.
Print Assumptions C05_arg_string_is_concat.

(* ... so it determines them whenever no boundary moves (same piece lengths one by one); the full statement
   "equal keys => equal hashed arguments" would need a delimiter in generate_hash_key *)
Theorem C05_args_injective_guarded : forall tj1 a1 tj2 a2,
  map (@length N) (arg_pieces tj1 a1) = map (@length N) (arg_pieces tj2 a2) ->
  arg_string tj1 a1 = arg_string tj2 a2 -> arg_pieces tj1 a1 = arg_pieces tj2 a2.
Proof. exact args_injective_guarded. Qed.
Print Assumptions C05_args_injective_guarded.

(* any permutation of the --cfg pairs, the other hashed arguments staying in place, gives the same argument string *)
Theorem C05_order_insensitive : forall tj a1 a2,
  filter (fun p => negb (is_sorted_last p)) (hashed_args tj a1)
    = filter (fun p => negb (is_sorted_last p)) (hashed_args tj a2) ->
  Permutation (filter is_sorted_last (hashed_args tj a1)) (filter is_sorted_last (hashed_args tj a2)) ->
  arg_string tj a1 = arg_string tj a2.
Proof. exact order_insensitive. Qed.
Print Assumptions C05_order_insensitive.

(* --extern / -L / --out-dir pairs never reach the argument string (their files are covered by the digests) *)
Theorem C05_excluded_args_unhashed : forall tj a b x v,
  existsb (beq x) arg_excluded = true ->
  arg_string tj (a ++ (x, v) :: b) = arg_string tj (a ++ b).
Proof. exact excluded_args_unhashed. Qed.
Print Assumptions C05_excluded_args_unhashed.

(* the checks of parse_arguments after the argument loop, for every state, are the finite table shape_verdict ... *)
Theorem C05_shape_table : forall ex s, verdict_of (finish ex s) = shape_verdict (shape_of s).
Proof. exact finish_table. Qed.
Print Assumptions C05_shape_table.

(* ... whose 1024 rows say Ok exactly on the cacheable shape ... *)
Theorem C05_shape_table_ok_iff : forall sh, shape_verdict sh = VOk <-> cacheable_shape sh = true.
Proof. exact table_ok_iff. Qed.
Print Assumptions C05_shape_table_ok_iff.

(* ... and every command line accepted for caching has that shape and no always-refused argument *)
Theorem C05_accepted_shape : forall ex argv cwd p,
  parse_arguments ex argv cwd = PROk p ->
  exists s,
    cacheable_shape (shape_of s) = true /\
    forallb arg_acceptable (ps_args s) = true /\
    p_arguments p = map arg_pair (ps_args s) /\
    p_rlib p = ps_rlib s /\ p_staticlib p = ps_staticlib s /\ ps_emit s = Some (p_emit p) /\
    ps_output_dir s = Some (p_output_dir p) /\ ps_crate_name s = Some (p_crate_name p).
Proof. exact accepted_shape. Qed.
Print Assumptions C05_accepted_shape.

(* static libraries.  The files that reach the key are: for every `-l static=NAME`, in order, the first hit of the
   lookup in the `-L native=` / `-L all=` / `-L DIR` directories taken in COMMAND-LINE order ... *)
Theorem C05_staticlibs_lookup : forall ex argv cwd p,
  parse_arguments ex argv cwd = PROk p ->
  exists s,
    p_arguments p = map arg_pair (ps_args s) /\
    p_staticlibs p = filter_map (find_staticlib ex (flat_map (native_dirs_of cwd) (ps_args s)))
                                (flat_map static_names_of (ps_args s)).
Proof. exact staticlibs_lookup. Qed.
Print Assumptions C05_staticlibs_lookup.

(* ... and that lookup returns exactly the archive rustc bundles (rustc_static_pick: the named assumption about rustc's
   search order, lib<NAME>.a from the first directory in command-line order), provided no directory holds one of the
   two other spellings the code also accepts *)
Theorem C05_staticlib_search_order : forall ex dirs name,
  alt_spelling_free ex dirs name = true -> find_staticlib ex dirs name = rustc_static_pick ex dirs name.
Proof. exact find_staticlib_is_rustc_pick. Qed.
Print Assumptions C05_staticlib_search_order.

(* C05-S23 (recorded, open): without that proviso the statement is false — `alt/foo.lib` in an earlier directory is
   hashed instead of `own/libfoo.a`, the archive rustc bundles *)
Theorem C05_staticlib_alt_spelling_refuted :
  exists (ex : bytes -> bool) dirs name,
    find_staticlib ex dirs name <> rustc_static_pick ex dirs name /\ rustc_static_pick ex dirs name <> None.
Proof.
  exists (fun p => beq p (bs "/w/alt/foo.lib") || beq p (bs "/w/own/libfoo.a")), [bs "/w/alt"; bs "/w/own"], (bs "foo").
  vm_compute. split; discriminate.
Qed.
Print Assumptions C05_staticlib_alt_spelling_refuted.

(* C05-S24 (fixed, 5054560): a library given with modifiers, `-l static:+whole-archive=foo`, `-l static:-bundle=foo`, ...,
   is looked up — and so hashed — exactly like `-l static=foo`, for every modifier string *)
Theorem C05_staticlib_modifier_hashed : forall f modifiers name d,
  static_names_of (AWithValue f LinkLibrary (VKind (bs "static:" ++ modifiers) name) d) = [name] /\
  static_names_of (AWithValue f LinkLibrary (VKind (bs "static") name) d) = [name].
Proof. exact static_modifiers_looked_up. Qed.
Print Assumptions C05_staticlib_modifier_hashed.

(* the compile command (what a cache MISS runs and whose diagnostics are stored under the key): the request's own
   arguments with every `--color` removed — they are not part of the key — followed by a colour option that depends
   only on whether `--json` was given.  So one key never stands for compiles with different colour settings *)
Theorem C05_compile_command_colour : forall ex argv cwd p,
  parse_arguments ex argv cwd = PROk p ->
  forallb (fun a => negb (is_color a)) (p_args p) = true /\
  p_arguments p = map arg_pair (p_args p) /\
  compile_args p = flat_map iter_os_strings (p_args p) ++ colour_suffix (existsb is_json (p_args p)).
Proof. exact compile_command_colour. Qed.
Print Assumptions C05_compile_command_colour.

(* "the compiler itself": the files of <sysroot>/lib whose digests enter the key are exactly the `*.so` entries that
   are regular files or symbolic links to regular files (Nix / stow / distribution layouts link them) *)
Theorem C05_sysroot_libs_complete : forall libdir entries f,
  In f (sysroot_libs libdir entries) <->
  exists e, In e entries /\ resolves_to_file (snd e) = true /\ extension_is (bs "so") (fst e) = true /\
            f = path_join libdir (fst e).
Proof. exact sysroot_libs_complete. Qed.
Print Assumptions C05_sysroot_libs_complete.

(* the preliminary `rustc --emit dep-info` run, from which the source files and env-deps of the key are taken, is
   given every argument of the request except --emit / --out-dir (so it expands the crate under the same cfg as the
   real compile: -C opt-level decides cfg(debug_assertions), --cfg, --target, ...) *)
Theorem C05_depinfo_run_sees_request : forall args p,
  In p args -> name_in depinfo_dropped p = false ->
  (forall piece, In piece (pieces_of p) -> In piece (depinfo_args args)).
Proof. exact depinfo_args_complete. Qed.
Print Assumptions C05_depinfo_run_sees_request.

(* static libraries: the digest pre-image takes every member in archive order, name then data; for archives of the same
   shape (names and data lengths member by member) equal pre-images mean equal data in EVERY member, also in the
   earlier of two members that share a name *)
Theorem C05_archive_members_all_hashed : forall m1 m2 : list (bytes * bytes),
  map (fun m => (fst m, length (snd m))) m1 = map (fun m => (fst m, length (snd m))) m2 ->
  archive_preimage m1 = archive_preimage m2 -> m1 = m2.
Proof. exact archive_preimage_inj. Qed.
Print Assumptions C05_archive_members_all_hashed.

(* reordering --extern: the sequence of files whose contents are hashed (paths as component lists) is the same for
   every permutation of the --extern paths, whatever their file names and directories *)
Theorem C05_extern_order_insensitive : forall l1 l2,
  Permutation l1 l2 -> map components (sort_paths l1) = map components (sort_paths l2).
Proof. exact extern_order_insensitive. Qed.
Print Assumptions C05_extern_order_insensitive.

(* every path rustc lists in dep-info as a source of the crate is in the list whose contents are hashed, whatever its
   name or extension: files embedded with include_bytes!/include_str! are listed there too (assets/plugin.so, x.rlib) *)
Theorem C05_depinfo_every_listed_source : forall t ts fs envs cwd f,
  target_ok t = true -> forallb dep_path_ok fs = true -> In f fs ->
  In (path_join cwd f) (parse_dep_info (print_dep_info (t :: ts) fs envs) cwd).
Proof. exact depinfo_every_listed_source. Qed.
Print Assumptions C05_depinfo_every_listed_source.

(* ---------- non-vacuity ---------- *)

Example dep_paths_ok_example :
  forallb dep_path_ok [bs "src/lib.rs"; bs "dir with space/a b.rs"; bs "b\c.rs"; bs "/abs/x.rs"] = true
  /\ target_ok (bs "out dir/libfoo.rlib") = true
  /\ forallb env_name_ok [(bs "VV", None); (bs "VV", Some []); (bs "A", Some (bs "b=c"))] = true.
Proof. vm_compute. repeat split. Qed.

Definition example_req : hreq :=
  {| h_shlibs := [bs "af1349b9f5f9a1a6a0404dea36dcc9499bcb25c9adc112b7cc9a93cae41f3262"];
     h_args := [(bs "--crate-name", Some (bs "foo")); (bs "src/lib.rs", None); (bs "--cfg", Some (bs "b"));
                (bs "--extern", Some (bs "x=libx.rlib")); (bs "--cfg", Some (bs "a"))];
     h_target_json := false;
     h_src := [bs "af1349b9f5f9a1a6a0404dea36dcc9499bcb25c9adc112b7cc9a93cae41f3262"];
     h_ext := [bs "0000000000000000000000000000000000000000000000000000000000000000"];
     h_static := []; h_tjson := [];
     h_env_deps := [(bs "VV", None); (bs "CARGO_PKG_VERSION", Some (bs "0.1.0"))];
     h_env := [(bs "CARGO_PKG_VERSION", bs "0.1.0"); (bs "PATH", bs "/bin"); (bs "CARGO_MAKEFLAGS", bs "-j")];
     h_cwd := bs "/tmp/wt/C05";
     h_version := bs "rustc 1.95.0" |}.

Example example_req_wf : req_wf example_req = true.
Proof. vm_compute. reflexivity. Qed.

(* the --cfg pairs are sorted to the end, --extern is dropped, nothing separates the pieces *)
Example example_arg_string :
  req_arg_string example_req = bs "--crate-namefoosrc/lib.rs--cfga--cfgb".
Proof. vm_compute. reflexivity. Qed.

(* the whole path: `-l static:+whole-archive=foo -L native=own` with own/libfoo.a present hashes /w/own/libfoo.a *)
Example example_modifier_hashed :
  match parse_arguments (fun p => beq p (bs "/w/own/libfoo.a"))
          [bs "--crate-name"; bs "foo"; bs "src/lib.rs"; bs "--crate-type"; bs "lib"; bs "--emit=link"; bs "--out-dir"; bs "out";
           bs "-l"; bs "static:+whole-archive=foo"; bs "-L"; bs "native=own"] (bs "/w") with
  | PROk p => p_staticlibs p = [bs "/w/own/libfoo.a"]
  | _ => False
  end.
Proof. vm_compute. reflexivity. Qed.

Example example_sysroot_libs :
  sysroot_libs (bs "/s/lib") [(bs "librustc_driver-1.so", KSymFile); (bs "libLLVM.so.22.1", KFile); (bs "rustlib", KDir);
                              (bs "libstd-2.so", KFile); (bs "gone.so", KSymDangling); (bs "d.so", KSymDir)]
  = [bs "/s/lib/librustc_driver-1.so"; bs "/s/lib/libstd-2.so"].
Proof. vm_compute. reflexivity. Qed.

Example example_compile_args :
  match parse_arguments (fun _ => false)
          [bs "--crate-name"; bs "foo"; bs "--color=never"; bs "src/lib.rs"; bs "--crate-type"; bs "lib"; bs "--emit=link";
           bs "--out-dir"; bs "out"; bs "--color"; bs "auto"] (bs "/w") with
  | PROk p => compile_args p = [bs "--crate-name"; bs "foo"; bs "src/lib.rs"; bs "--crate-type"; bs "rlib"; bs "--emit"; bs "link";
                                bs "--out-dir"; bs "out"; bs "--color"; bs "always"]
  | _ => False
  end.
Proof. vm_compute. reflexivity. Qed.

Example example_accepted :
  verdict_of (parse_arguments (fun _ => false)
                [bs "--crate-name"; bs "foo"; bs "src/lib.rs"; bs "--crate-type"; bs "lib"; bs "--emit=link,dep-info";
                 bs "--out-dir"; bs "out"; bs "-C"; bs "opt-level=3"] (bs "/w")) = VOk
  /\ verdict_of (parse_arguments (fun _ => false)
                [bs "--crate-name"; bs "foo"; bs "src/main.rs"; bs "--crate-type"; bs "bin"; bs "--emit=link";
                 bs "--out-dir"; bs "out"] (bs "/w")) = VCannotCache (bs "crate-type")
  /\ verdict_of (parse_arguments (fun _ => false)
                [bs "--crate-name"; bs "foo"; bs "src/lib.rs"; bs "--crate-type"; bs "lib"; bs "--emit=link";
                 bs "--out-dir"; bs "out"; bs "-C"; bs "incremental=inc"] (bs "/w")) = VCannotCache (bs "incremental").
Proof. vm_compute. repeat split. Qed.
