(* Properties/C10.v — pinned statements for C10: outputs restored from the cache replace existing files atomically.
   Model: Model/FsModel.v (file system, scheduler), Model/Extract.v (extract_objects, observers).  Proofs: Proofs/Extract.v. *)
From Coq Require Import List NArith Bool.
From Sccache Require Import Base.Sx Model.FsModel Model.Extract Proofs.FsModel Proofs.Extract.
Import ListNotations.
Local Open Scope N_scope.

(* For ALL initial file systems, ALL object lists (any number of members, any chunking of each member, a failing
   member — absent or unreadable, optional or not — at ANY position, any failing system call), ALL sets of observers (pollers that open and
   read output paths whenever they like, holders of descriptors opened before the request) and ALL schedules:
   whatever an observer reads at an output path is the complete previous content of that path or the complete content
   of a member restored to it — never a prefix, never a mixture. *)
Theorem C10_reader_sees_whole :
  forall (f0 : fs) (objs : list obj) (readers : list (@thread local action)) (sched : list nat),
    fs_okb f0 = true -> outputs_okb objs = true -> forallb (observerb f0) readers = true ->
    forall t p i c,
      In t (tl (snd (run sched f0 objs readers))) -> In (p, i, c) (l_log (fst t)) ->
      content f0 p = Some c \/
      exists o, In o objs /\ o_path o = p /\ o_ok o = true /\ c = o_new o.
Proof. exact reader_sees_whole. Qed.
Print Assumptions C10_reader_sees_whole.

(* A descriptor opened before the request keeps reading the complete old bytes, at every later moment. *)
Theorem C10_open_fd_keeps_old :
  forall (f0 : fs) (objs : list obj) (readers : list (@thread local action)) (sched : list nat),
    fs_okb f0 = true -> outputs_okb objs = true -> forallb (observerb f0) readers = true ->
    forall k h h' q i c,
      nth_error readers k = Some h -> holderb f0 h = true ->
      nth_error (tl (snd (run sched f0 objs readers))) k = Some h' ->
      In (q, i, c) (l_log (fst h')) ->
      q = l_path (fst h) /\ content f0 (l_path (fst h)) = Some c.
Proof. exact open_fd_keeps_old. Qed.
Print Assumptions C10_open_fd_keeps_old.

(* Nobody ever writes into an inode an observer can reach: any two reads of the same inode, by any observers at any
   two moments, return the same bytes (so a reader that reads in several chunks assembles exactly that content). *)
Theorem C10_inode_content_never_changes :
  forall (f0 : fs) (objs : list obj) (readers : list (@thread local action)) (sched : list nat),
    fs_okb f0 = true -> outputs_okb objs = true -> forallb (observerb f0) readers = true ->
    forall t1 t2 p1 p2 i c1 c2,
      In t1 (tl (snd (run sched f0 objs readers))) -> In t2 (tl (snd (run sched f0 objs readers))) ->
      In (p1, i, c1) (l_log (fst t1)) -> In (p2, i, c2) (l_log (fst t2)) -> c1 = c2.
Proof. exact inode_content_never_changes. Qed.
Print Assumptions C10_inode_content_never_changes.

(* When extract_objects has returned — with Ok or with ANY error, after a failing member at ANY position — every
   non-temp path is in its complete previous state (same content, or still absent) or holds the complete content of
   a member restored to it, and no temp file made by the request remains. *)
Theorem C10_no_partial_on_failure :
  forall (f0 : fs) (objs : list obj) (readers : list (@thread local action)) (sched : list nat),
    fs_okb f0 = true -> outputs_okb objs = true -> forallb (observerb f0) readers = true ->
    forall l rs,
      snd (run sched f0 objs readers) = (l, []) :: rs ->
      (forall p, is_tmp p = false ->
         content (fst (run sched f0 objs readers)) p = content f0 p \/
         exists o, In o objs /\ o_path o = p /\ o_ok o = true /\
                   content (fst (run sched f0 objs readers)) p = Some (o_new o))
      /\ (forall t, is_tmp t = true -> lookup t (fst (run sched f0 objs readers)) = lookup t f0).
Proof.
  intros f0 objs readers sched Hfs Hout Hobs l rs Hfin. split.
  - intros p Hp. exact (finals_whole f0 objs readers sched Hfs Hout Hobs p Hp).
  - intros t Ht. exact (finished_no_temp f0 objs readers sched Hfs Hout Hobs l rs t Hfin Ht).
Qed.
Print Assumptions C10_no_partial_on_failure.

(* The same at EVERY moment of the request (a crash, or the server being killed, at any point): no output path ever
   holds partial data.  (A temp file may remain after a crash; it is not an output path.) *)
Theorem C10_crash_anywhere_finals_whole :
  forall (f0 : fs) (objs : list obj) (readers : list (@thread local action)) (sched : list nat),
    fs_okb f0 = true -> outputs_okb objs = true -> forallb (observerb f0) readers = true ->
    forall p, is_tmp p = false ->
      content (fst (run sched f0 objs readers)) p = content f0 p \/
      exists o, In o objs /\ o_path o = p /\ o_ok o = true /\
                content (fst (run sched f0 objs readers)) p = Some (o_new o).
Proof. exact finals_whole. Qed.
Print Assumptions C10_crash_anywhere_finals_whole.

(* And the request that is answered from the cache really has installed everything: when extract_objects returns Ok
   (outputs pairwise distinct), every member that decoded and whose output is not a device node is at its output
   path, complete. *)
Theorem C10_success_installs_new :
  forall (f0 : fs) (objs : list obj) (readers : list (@thread local action)) (sched : list nat),
    fs_okb f0 = true -> outputs_okb objs = true -> forallb (observerb f0) readers = true ->
    NoDup (map o_path objs) ->
    forall l rs o,
      snd (run sched f0 objs readers) = (l, []) :: rs -> l_dead l = false ->
      In o objs -> o_special o = false -> o_ok o = true ->
      content (fst (run sched f0 objs readers)) (o_path o) = Some (o_new o).
Proof.
  intros f0 objs readers sched Hfs Hout Hobs Hnd l rs o Hfin Hal Hin Hsp Hok.
  exact (success_installs_new f0 objs readers sched Hfs Hout Hobs l rs o Hnd Hfin Hal Hin Hsp Hok).
Qed.
Print Assumptions C10_success_installs_new.

(* What a hit installs is what was STORED.  [entry] maps each output to the bytes of its member as they were put into
   the cache.  The hypothesis says what `get_object` returning Ok means: the chunks it wrote are the complete stored
   member (zstd and the zip CRC are not modelled; a get_object that returns Ok after writing a prefix — a size cap
   that ends the stream early — is exactly what this hypothesis excludes, and what the legs check on the real code
   by comparing every installed file and every byte count with the stored member, for contents that compress by far
   more than 1000:1 as well).  Then after Ok every regular output holds exactly the stored bytes. *)
Theorem C10_hit_installs_stored_bytes :
  forall (f0 : fs) (objs : list obj) (readers : list (@thread local action)) (sched : list nat)
         (entry : list (path * bytes)),
    fs_okb f0 = true -> outputs_okb objs = true -> forallb (observerb f0) readers = true ->
    NoDup (map o_path objs) ->
    (forall o, In o objs -> o_ok o = true -> aget path_eqb (o_path o) entry = Some (o_new o)) ->
    forall l rs o,
      snd (run sched f0 objs readers) = (l, []) :: rs -> l_dead l = false ->
      In o objs -> o_special o = false -> o_ok o = true ->
      content (fst (run sched f0 objs readers)) (o_path o) = aget path_eqb (o_path o) entry.
Proof.
  intros f0 objs readers sched entry Hfs Hout Hobs Hnd Hent l rs o Hfin Hal Hin Hsp Hok.
  rewrite (Hent o Hin Hok).
  exact (success_installs_new f0 objs readers sched Hfs Hout Hobs l rs o Hnd Hfin Hal Hin Hsp Hok).
Qed.
Print Assumptions C10_hit_installs_stored_bytes.

(* An output path that exists when the request starts exists at EVERY moment of it, under every schedule, whatever
   fails: the request never unlinks an output (the hit arm of get_cached_or_compile is: read stdout/stderr, then
   extract_objects — nothing else touches the output paths; the leg `request` checks that on whole requests). *)
Theorem C10_existing_output_never_absent :
  forall (f0 : fs) (objs : list obj) (readers : list (@thread local action)) (sched : list nat),
    fs_okb f0 = true -> outputs_okb objs = true -> forallb (observerb f0) readers = true ->
    forall p, is_tmp p = false -> lookup p f0 <> None ->
      lookup p (fst (run sched f0 objs readers)) <> None.
Proof. exact existing_output_never_absent. Qed.
Print Assumptions C10_existing_output_never_absent.

(* Non-example: were the caller to unlink an existing output before the extraction (an [AUnlink] of a non-temp path
   is not an action [prog] ever contains), the path would be absent while the other members are restored, and gone
   for good if a later member fails. *)
Example ex_unlink_before_restore_breaks :
  let p := ([100], [98]) in
  let f0 := mk_fs_from [(p, ([9], 420))] 0 in
  let bad := mkObj p [121] [[5]] DecCorrupt true FNone false in
  let s1 := seq_run [AUnlink p] (f0, init_local) in
  let s2 := seq_run (AUnlink p :: prog [bad]) (f0, init_local) in
  content f0 p = Some [9] /\ content (fst s1) p = None /\ content (fst s2) p = None /\ l_dead (snd s2) = true.
Proof. vm_compute. repeat split; reflexivity. Qed.

(* The shape of the system calls (the tie to the strace leg: the harness checks that the OBSERVED calls are exactly
   [trace (prog objs)] for the object descriptions read back from them), with the two classes of outputs explicit.
   From any state, whatever the members do:
     - an output restored through a temp file (previous state: absent, a regular file, a symbolic link to one, a
       directory) is only ever named as the target of a rename FROM A TEMP FILE OF THE SAME DIRECTORY, or by the chmod
       after it — never opened for writing, never written;
     - an output that is a device node (`-o /dev/null`) is only ever opened for writing and written into — never the
       target of a rename, never chmod'ed;
     - every create and unlink, and every other write, names a temp file. *)
Theorem C10_outputs_change_only_by_rename :
  forall (objs : list obj) (s : fs * local),
    let reg := map o_path (filter (fun o => negb (o_special o)) objs) in
    let spec := map o_path (filter o_special objs) in
    Forall (fun e => match e with
                     | ECreate t => is_tmp t = true
                     | EWrite t _ => is_tmp t = true \/ In t spec
                     | EUnlink t => is_tmp t = true
                     | ERename t p => is_tmp t = true /\ fst t = fst p /\ In p reg
                     | EChmod p _ => In p reg
                     | EOpenW p => In p spec
                     end) (trace (prog objs) s).
Proof. exact trace_shape. Qed.
Print Assumptions C10_outputs_change_only_by_rename.

(* For device-node outputs the directory entry is never replaced: under every schedule, at every moment, a path at
   which only device-node outputs are restored names the inode it named before the request (and, the model's device
   being a sink, whatever is read there is what the device gives — the other theorems hold for it trivially). *)
Theorem C10_special_output_never_replaced :
  forall (f0 : fs) (objs : list obj) (readers : list (@thread local action)) (sched : list nat),
    fs_okb f0 = true -> outputs_okb objs = true -> forallb (observerb f0) readers = true ->
    forall q, is_tmp q = false ->
      (forall o, In o objs -> o_path o = q -> o_special o = true) ->
      lookup q (fst (run sched f0 objs readers)) = lookup q f0.
Proof. exact special_entry_never_replaced. Qed.
Print Assumptions C10_special_output_never_replaced.

(* A true fact about the code, not hidden: `persist` comes before `set_file_mode`, so for every member with a stored
   mode whose output is not a device node there is a moment (after 2 + #chunks steps of the extraction) at which the output path already holds the
   complete new bytes but still carries the temp file's mode 0600; one step later it has the stored mode. *)
Theorem C10_mode_window :
  forall (f0 : fs) (o : obj) (m : N) (readers : list (@thread local action)),
    is_tmp (o_path o) = false -> o_special o = false -> o_dec o = DecOk (Some m) -> o_fault o = FNone ->
    lookup (o_tmp o) f0 = None ->
    let k := S (S (length (o_chunks o))) in
    let f_between := fst (run (repeat 0%nat k) f0 [o] readers) in
    let f_after := fst (run (repeat 0%nat (S k)) f0 [o] readers) in
    content f_between (o_path o) = Some (o_new o) /\ mode_at f_between (o_path o) = Some tmp_mode
    /\ content f_after (o_path o) = Some (o_new o) /\ mode_at f_after (o_path o) = Some m.
Proof. exact mode_window. Qed.
Print Assumptions C10_mode_window.

(* ---------- non-vacuity ---------- *)

Definition ex_a : path := ([100], [97]).          (* d/a *)
Definition ex_b : path := ([100], [98]).          (* d/b *)
Definition ex_f0 : fs := mk_fs_from [(ex_a, ([1; 2; 3], 420)); (ex_b, ([9], 420))] 0.
Definition ex_objs : list obj :=
  [ mkObj ex_a [120] [[7]; [8; 9]; [10]] (DecOk (Some 493)) false FNone false;      (* restored in three writes *)
    mkObj ex_b [121] [[5]; [6]] DecCorrupt false FNone false ].                      (* fails after two writes *)
Definition ex_readers : list (@thread local action) :=
  [ (init_local, [AOpen ex_a; ARead; AOpen ex_a; ARead; ARead]);
    (mkLocal (lookup ex_a ex_f0) ex_a [] false, [ARead; ARead]) ].

Example ex_hypotheses :
  fs_okb ex_f0 = true /\ outputs_okb ex_objs = true /\ forallb (observerb ex_f0) ex_readers = true
  /\ holderb ex_f0 (mkLocal (lookup ex_a ex_f0) ex_a [] false, [ARead; ARead]) = true.
Proof. vm_compute. auto. Qed.

(* a schedule under which the poller sees first the old, then the new content, the holder twice the old one,
   the request fails on the second member, d/b keeps its old content and no temp file is left *)
Definition ex_sched : list nat := map N.to_nat [1; 1; 2; 0; 0; 0; 0; 0; 2; 1; 1; 0; 0; 0; 0; 0; 0; 0; 1].

Example ex_run :
  let st := run ex_sched ex_f0 ex_objs ex_readers in
  map (fun t => map (fun e => snd e) (l_log (fst t))) (tl (snd st)) = [ [[1; 2; 3]; [7; 8; 9; 10]; [7; 8; 9; 10]]; [[1; 2; 3]; [1; 2; 3]] ]
  /\ content (fst st) ex_a = Some [7; 8; 9; 10] /\ mode_at (fst st) ex_a = Some 493
  /\ content (fst st) ex_b = Some [9]
  /\ map (fun e => is_tmp (fst e)) (dir (fst st)) = [false; false]
  /\ match snd st with (l, []) :: _ => result_of ex_objs l = RDecompressionFailure | _ => False end.
Proof. vm_compute. repeat split; reflexivity. Qed.

(* the mode window on this example: after create + 3 writes + rename the new bytes carry mode 0600 *)
Example ex_mode_window :
  let f := fst (run (repeat 0%nat 5) ex_f0 [hd (mkObj ex_a [] [] DecAbsent false FNone false) ex_objs] []) in
  content f ex_a = Some [7; 8; 9; 10] /\ mode_at f ex_a = Some 384.
Proof. vm_compute. auto. Qed.

(* a device-node output next to a regular one: it is opened and written into, its entry and mode stay, the regular
   output is installed by rename *)
Definition ex_null : path := ([100], [110]).      (* d/n *)
Definition ex_f0s : fs := mk_fs_from [(ex_a, ([1; 2; 3], 420)); (ex_null, ([], 438))] 0.
Definition ex_objs_s : list obj :=
  [ mkObj ex_null [119] [[7]; [8]] (DecOk (Some 420)) false FNone true;
    mkObj ex_a [120] [[7]; [8; 9]] (DecOk (Some 493)) false FNone false ].

Example ex_special :
  let s := seq_run (prog ex_objs_s) (ex_f0s, init_local) in
  trace (prog ex_objs_s) (ex_f0s, init_local) =
    [ EOpenW ex_null; EWrite ex_null 1; EWrite ex_null 1;
      ECreate (o_tmp (mkObj ex_a [120] [] DecAbsent false FNone false)); EWrite ([100], [46; 116; 109; 112; 120]) 1;
      EWrite ([100], [46; 116; 109; 112; 120]) 2; ERename ([100], [46; 116; 109; 112; 120]) ex_a; EChmod ex_a 493 ]
  /\ lookup ex_null (fst s) = lookup ex_null ex_f0s /\ mode_at (fst s) ex_null = Some 438
  /\ content (fst s) ex_a = Some [7; 8; 9] /\ l_dead (snd s) = false.
Proof. vm_compute. repeat split; reflexivity. Qed.
