(* RustPath.v — the pieces of Rust's std that src/compiler/rust.rs relies on when it joins, sorts and hashes
   paths and strings (Unix semantics; bytes are [list N]):

     path_join      PathBuf::join / push     (an absolute right-hand side replaces the left one)
     components     Path::components         (repeated '/', inner "." and a trailing '/' are dropped; a leading
                                              "." is kept as CurDir)
     path_cmp       Ord for Path             (lexicographic on components; RootDir < CurDir < ParentDir < Normal)
     sort_paths     Vec<PathBuf>::sort       (stable; a stable sort is determined by the preorder, so insertion
                                              sort is an exact model of the merge sort used by std)
     os_hash        Hash for OsStr, through a Hasher that only implements `write` (util::HashToDigest):
                    8-byte little-endian length, then the bytes
     str_hash       Hash for str/String through such a Hasher: the bytes, then 0xff
     path_hash      Hash for Path: the bytes of every component without separators, then a usize mixing the
                    component lengths (not an injective encoding: it was designed for hash tables)

   Every function here is compared with the real std implementation by the `stdhash` / `depinfo` legs. *)
From Coq Require Import List NArith Bool.
From Sccache Require Import Base.Sx.
Import ListNotations.
Local Open Scope N_scope.

Definition bytes := list N.

Definition SLASH : N := 47.
Definition DOT : N := 46.

(* ---------- lexicographic order on byte strings (Ord for [u8] / OsStr / str) ---------- *)

Fixpoint bytes_cmp (a b : bytes) : comparison :=
  match a, b with
  | [], [] => Eq
  | [], _ :: _ => Lt
  | _ :: _, [] => Gt
  | x :: a', y :: b' =>
      match N.compare x y with
      | Eq => bytes_cmp a' b'
      | c => c
      end
  end.

(* ---------- little-endian integers ---------- *)

Fixpoint le_bytes (n : nat) (x : N) : bytes :=
  match n with
  | O => []
  | S n' => (x mod 256) :: le_bytes n' (x / 256)
  end.

Definition le64 (x : N) : bytes := le_bytes 8 x.

Definition two64 : N := 18446744073709551616.

(* ---------- Hash impls as seen by a `write`-only Hasher ---------- *)

Definition os_hash (s : bytes) : bytes := le64 (N.of_nat (length s)) ++ s.

Definition str_hash (s : bytes) : bytes := s ++ [255].

(* ---------- PathBuf::push ---------- *)

Definition is_absolute (p : bytes) : bool :=
  match p with c :: _ => c =? SLASH | [] => false end.

Definition ends_with_slash (p : bytes) : bool :=
  match rev p with c :: _ => c =? SLASH | [] => false end.

Definition path_join (base p : bytes) : bytes :=
  if is_absolute p then p
  else match base with
       | [] => p
       | _ => if ends_with_slash base then base ++ p else base ++ [SLASH] ++ p
       end.

(* ---------- Path::components ---------- *)

Inductive comp : Type :=
| CRoot
| CCur
| CParent
| CNormal (s : bytes).

(* split at every '/' : n separators give n+1 pieces *)
Fixpoint split_slash (s : bytes) : list bytes :=
  match s with
  | [] => [[]]
  | c :: r =>
      if c =? SLASH then [] :: split_slash r
      else match split_slash r with
           | [] => [[c]]
           | p :: more => (c :: p) :: more
           end
  end.

Definition is_dot (s : bytes) : bool := match s with [c] => c =? DOT | _ => false end.
Definition is_dotdot (s : bytes) : bool :=
  match s with [c; d] => (c =? DOT) && (d =? DOT) | _ => false end.

(* a piece in the body of a path: "" and "." disappear *)
Definition body_comp (seg : bytes) : list comp :=
  match seg with
  | [] => []
  | _ => if is_dot seg then [] else if is_dotdot seg then [CParent] else [CNormal seg]
  end.

Definition components (p : bytes) : list comp :=
  match p with
  | [] => []
  | c :: r =>
      if c =? SLASH then CRoot :: flat_map body_comp (split_slash r)
      else match split_slash p with
           | first :: rest =>
               (if is_dot first then [CCur] else body_comp first) ++ flat_map body_comp rest
           | [] => []
           end
  end.

Definition comp_rank (c : comp) : N :=
  match c with CRoot => 1 | CCur => 2 | CParent => 3 | CNormal _ => 4 end.

Definition comp_cmp (a b : comp) : comparison :=
  match a, b with
  | CNormal x, CNormal y => bytes_cmp x y
  | _, _ => N.compare (comp_rank a) (comp_rank b)
  end.

Fixpoint comps_cmp (a b : list comp) : comparison :=
  match a, b with
  | [], [] => Eq
  | [], _ :: _ => Lt
  | _ :: _, [] => Gt
  | x :: a', y :: b' =>
      match comp_cmp x y with
      | Eq => comps_cmp a' b'
      | c => c
      end
  end.

Definition path_cmp (a b : bytes) : comparison := comps_cmp (components a) (components b).

Definition path_leb (a b : bytes) : bool :=
  match path_cmp a b with Gt => false | _ => true end.

Definition path_eqb (a b : bytes) : bool :=
  match path_cmp a b with Eq => true | _ => false end.

(* ---------- stable sort ---------- *)

Section Sort.
  Context {A : Type} (leb : A -> A -> bool).
  Fixpoint insert_sorted (x : A) (l : list A) : list A :=
    match l with
    | [] => [x]
    | y :: r => if leb x y then x :: y :: r else y :: insert_sorted x r
    end.
  (* fold_right: the element that comes first in the input is inserted last and lands before its equals *)
  Definition stable_sort (l : list A) : list A := fold_right insert_sorted [] l.
End Sort.

Definition sort_paths (l : list bytes) : list bytes := stable_sort path_leb l.

(* ---------- Hash for Path ---------- *)

Definition rotr2 (x : N) : N := (x / 4) + (x mod 4) * 4611686018427387904.

Definition chunk_mix (bits : N) (chunk : bytes) : N :=
  rotr2 ((bits + N.of_nat (length chunk)) mod two64).

(* [cur] = the bytes since component_start; at a separator the chunk is flushed and a following "." component
   ("." at the end, or "./") is skipped, exactly like the index arithmetic of the std implementation *)
Fixpoint path_hash_go (cur : bytes) (bits : N) (s : bytes) : bytes :=
  match s with
  | [] =>
      match cur with
      | [] => le64 bits
      | _ => cur ++ le64 (chunk_mix bits cur)
      end
  | c :: r =>
      if c =? SLASH then
        let bits' := match cur with [] => bits | _ => chunk_mix bits cur end in
        cur ++
        match r with
        | [d] => if d =? DOT then le64 bits' else path_hash_go [] bits' r
        | d :: ((e :: _) as t) =>
            if (d =? DOT) && (e =? SLASH) then path_hash_go [] bits' t else path_hash_go [] bits' r
        | [] => path_hash_go [] bits' r
        end
      else path_hash_go (cur ++ [c]) bits r
  end.

Definition path_hash (p : bytes) : bytes := path_hash_go [] 0 p.

(* ---------- str::from_utf8 (read_to_string fails on anything else) ---------- *)

Definition in_range (lo hi b : N) : bool := (lo <=? b) && (b <=? hi).
Definition is_cont (b : N) : bool := in_range 128 191 b.

Fixpoint utf8_valid (s : bytes) : bool :=
  match s with
  | [] => true
  | b0 :: r =>
      if b0 <? 128 then utf8_valid r
      else if in_range 194 223 b0 then
        match r with b1 :: r1 => is_cont b1 && utf8_valid r1 | _ => false end
      else if in_range 224 239 b0 then
        match r with
        | b1 :: b2 :: r2 =>
            (if b0 =? 224 then in_range 160 191 b1
             else if b0 =? 237 then in_range 128 159 b1
             else is_cont b1)
            && is_cont b2 && utf8_valid r2
        | _ => false
        end
      else if in_range 240 244 b0 then
        match r with
        | b1 :: b2 :: b3 :: r3 =>
            (if b0 =? 240 then in_range 144 191 b1
             else if b0 =? 244 then in_range 128 143 b1
             else is_cont b1)
            && is_cont b2 && is_cont b3 && utf8_valid r3
        | _ => false
        end
      else false
  end.
