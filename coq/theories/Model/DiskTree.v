(* DiskTree.v — DiskCache with BOTH of its stores over ONE directory tree (src/cache/disk.rs):
     - the result store over the cache root           (Model/DiskCache.v, used unchanged as [base]);
     - the preprocessor-entry store over root/preprocessor, a second LruDiskCache (Lru.st) whose
       keys are written here relative to the cache ROOT ("preprocessor/a/b/c/key").
   One file system: the listing is [files (lru base)] (with its logical clock), contents are the
   inode layer of [base].  Before every operation of the nested store it sees the current disk
   (RoCache.with_env), afterwards the disk is what it left; paths it deleted disappear from the
   directory.  The result store's init walks the WHOLE tree (it indexes the nested store's entry
   files after a restart — S18, existing behaviour, modelled as the code does it) and therefore also
   unlinks the temp files of nested-store puts that are in flight at that moment; the nested store's
   init walks root/preprocessor only (RoCache.open_rw).

     pp_put(k, v)  Reserve : lock(pp); get_or_init; prepare_add(k, 0)?; unlock
                   Write*  : serialize_to(BufWriter(temp file))      — no lock
                   Commit  : lock(pp); commit(f)?; unlock             (persist fails if the temp file
                             was unlinked meanwhile: the reservation is gone, space was made, nothing
                             is indexed, the call returns an error)
     pp_get(k)     Open    : lock(pp); get_or_init; get(k).ok(); unlock   (any error is a miss)
                   Read    : read the returned descriptor

   Server death: [materialise] turns every temp file of a call in flight into what it is on disk —
   an ordinary file named <dir>/.sccachetmp<id> with the bytes written so far — so that after a
   restart it is LruDiskCache::init's own test on the FILE NAME (Lru.is_temp) that decides whether it
   is removed, for temp files of both stores at any depth of the tree. *)
From Coq Require Import List NArith Bool.
From Sccache Require Import Base.Sx Model.Lru Model.DiskCache.
From Sccache Require Model.RoCache.
Import ListNotations.
Local Open Scope N_scope.

Record tst := {
  base : dst;
  pps : Lru.st;                 (* files/clock fields are refreshed from the disk before each use *)
  pp_inited : bool;
  pp_tmps : list (N * N)        (* nested store: live handle -> inode of its temp file, while the file exists *)
}.

Definition disk_files (t : tst) := files (lru (base t)).
Definition disk_clock (t : tst) := clock (lru (base t)).

Definition pp_view (t : tst) : Lru.st := RoCache.with_env (pps t) (disk_files t) (disk_clock t).

(* the disk as a store operation left it *)
Definition set_disk (b : dst) (fs : list (key * (N * N))) (clk : N) : dst :=
  let l := lru b in
  {| lru := {| cap := cap l; index := index l; measure := measure l; pending := pending l;
               pending_size := pending_size l; files := fs; handles := handles l;
               next_h := next_h l; clock := clk |};
     inited := inited b; capacity := capacity b; inodes := inodes b;
     dir := sync_dir fs (dir b); tmps := tmps b; next_ino := next_ino b |}.

Definition with_pp (t : tst) (l : Lru.st) : tst :=
  {| base := set_disk (base t) (files l) (clock l); pps := l; pp_inited := pp_inited t; pp_tmps := pp_tmps t |}.

(* get_or_init of the nested store: LruDiskCache::new(root/preprocessor, max_size) *)
Definition pp_ensure_init (t : tst) : tst :=
  if pp_inited t then t
  else
    let l := RoCache.open_rw true (capacity (base t)) (disk_files t) (disk_clock t) in
    {| base := set_disk (base t) (files l) (clock l); pps := l; pp_inited := true; pp_tmps := pp_tmps t |}.

Definition with_pp_free (t : tst) (b : dst) : tst :=
  {| base := b; pps := pps t; pp_inited := pp_inited t; pp_tmps := pp_tmps t |}.

Inductive tthread :=
| TMain (th : thread)
| TMainNR (th : thread)
    (* a result-store call on a key whose shard directory <root>/x/y is on another file system (a mount
       point, a symlink to another disk): rename(temp, final) fails with EXDEV.  commit has by then ended the
       reservation and made space; it returns the error, the temp file is dropped, nothing is written at the
       final path and nothing is indexed. *)
| TGetSplit (k : key)
    (* NOT what the code does — a lookup whose index look-up (under the lock) and utimes + open (after
       unlocking) are two steps; kept to show that the lock scope of DiskCache::get is load-bearing
       (C06_split_lookup_refuted) *)
| TGetLocated (k : key)
| TPpPut (k : key) (chunks : list (list N))
| TPpPutW (k : key) (h ino : N) (written : list N) (rest : list (list N))
| TPpPutDone (r : pres)
| TPpGet (k : key)
| TPpGetOpen (k : key) (ino : N)
| TPpGetDone (k : key) (r : gres).

Inductive tevent :=
| EMain (e : event)
| EPpCommit (t : nat) (k : key) (v : list N)
| EPpOpen (t : nat) (k : key)
| EPpRet (t : nat) (k : key) (r : gres).

Definition append_inode (ino : N) (c : list N) (l : list (N * list N)) : list (N * list N) :=
  match hlookup ino l with
  | Some old => hset ino (old ++ c) l
  | None => l
  end.

Definition tstep (tid : nat) (t : tst) (th : tthread) : tst * tthread * list tevent :=
  match th with
  | TMain m =>
      let '(b', m', ev) := step_thread tid (base t) m in
      (* the result store's init walks the whole tree: temp files of nested-store puts in flight go too *)
      let ptm := if negb (inited (base t)) && inited b' then [] else pp_tmps t in
      ({| base := b'; pps := pps t; pp_inited := pp_inited t; pp_tmps := ptm |}, TMain m', map EMain ev)
  | TMainNR m =>
      match m with
      | TPutW k h done [] false =>
          let b := base t in
          match hlookup h (handles (lru b)) with
          | Some hd =>
              let s0 := set_handles (lru b) (hremove h (handles (lru b))) (next_h (lru b)) in
              let '(ok, s2) := make_space (release s0 hd) (h_written hd) in
              ({| base := {| lru := s2; inited := inited b; capacity := capacity b; inodes := inodes b;
                             dir := sync_dir (files s2) (dir b); tmps := hremove h (tmps b);
                             next_ino := next_ino b |};
                  pps := pps t; pp_inited := pp_inited t; pp_tmps := pp_tmps t |},
               TMainNR (TPutDone (if ok then PErr else PTooLarge)), [])
          | None => (t, TMainNR (TPutDone PErr), [])
          end
      | _ =>
          let '(b', m', ev) := step_thread tid (base t) m in
          let ptm := if negb (inited (base t)) && inited b' then [] else pp_tmps t in
          ({| base := b'; pps := pps t; pp_inited := pp_inited t; pp_tmps := ptm |}, TMainNR m', map EMain ev)
      end
  | TGetSplit k =>
      let b := ensure_init (base t) in
      let ptm := if negb (inited (base t)) then [] else pp_tmps t in
      match lru_get (lru b) k with
      | Some (l', _) =>
          ({| base := with_lru b l'; pps := pps t; pp_inited := pp_inited t; pp_tmps := ptm |}, TGetLocated k, [])
      | None =>
          ({| base := b; pps := pps t; pp_inited := pp_inited t; pp_tmps := ptm |},
           TMain (TGetDone k GMiss), [EMain (EOpen tid k); EMain (ERet tid k GMiss)])
      end
  | TGetLocated k =>
      (* utimes + open, no lock: the path may be gone by now *)
      match alookup k (disk_files t), alookup k (dir (base t)) with
      | Some (sz, _), Some ino =>
          let b := base t in
          let l := lru b in
          (with_pp_free t (set_disk b (ains k (sz, clock l + 1) (files l)) (clock l + 1)),
           TMain (TGetOpen k ino), [EMain (EOpen tid k)])
      | _, _ => (t, TMain (TGetDone k GErr), [EMain (EOpen tid k); EMain (ERet tid k GErr)])
      end
  | TPpPut k chunks =>
      let t1 := pp_ensure_init t in
      let h := next_h (pps t1) in
      let '(l', r) := prepare_add (pp_view t1) k 0 in
      match r with
      | ROk =>
          let b := set_disk (base t1) (files l') (clock l') in
          let ino := next_ino b in
          ({| base := {| lru := lru b; inited := inited b; capacity := capacity b;
                         inodes := inodes b ++ [(ino, [])]; dir := dir b; tmps := tmps b;
                         next_ino := ino + 1 |};
              pps := l'; pp_inited := true; pp_tmps := pp_tmps t1 ++ [(h, ino)] |},
           TPpPutW k h ino [] chunks, [])
      | RTooLarge => (with_pp t1 l', TPpPutDone PTooLarge, [])
      | _ => (with_pp t1 l', TPpPutDone PErr, [])
      end
  | TPpPutW k h ino done (c :: rest) =>
      let '(l', _) := write_tmp (pp_view t) h (blen c) in
      let b := base t in
      ({| base := {| lru := lru b; inited := inited b; capacity := capacity b;
                     inodes := append_inode ino c (inodes b); dir := dir b; tmps := tmps b;
                     next_ino := next_ino b |};
          pps := l'; pp_inited := pp_inited t; pp_tmps := pp_tmps t |},
       TPpPutW k h ino (done ++ c) rest, [])
  | TPpPutW k h ino done [] =>
      match hlookup h (pp_tmps t) with
      | Some _ =>
          let '(l', r, _) := commit (pp_view t) h in
          let b := set_disk (base t) (files l') (clock l') in
          match r with
          | ROk =>
              ({| base := {| lru := lru b; inited := inited b; capacity := capacity b; inodes := inodes b;
                             dir := (k, ino) :: aremove k (dir b); tmps := tmps b; next_ino := next_ino b |};
                  pps := l'; pp_inited := pp_inited t; pp_tmps := hremove h (pp_tmps t) |},
               TPpPutDone POk, [EPpCommit tid k done])
          | RTooLarge =>
              ({| base := b; pps := l'; pp_inited := pp_inited t; pp_tmps := hremove h (pp_tmps t) |},
               TPpPutDone PTooLarge, [])
          | _ => (t, TPpPutDone PErr, [])
          end
      | None =>
          (* the temp file was unlinked under the call: commit releases the reservation, makes space,
             then persist fails *)
          let v := pp_view t in
          match hlookup h (handles v) with
          | Some hd =>
              let s0 := set_handles v (hremove h (handles v)) (next_h v) in
              let '(ok, s2) := make_space (release s0 hd) (h_written hd) in
              (with_pp t s2, TPpPutDone (if ok then PErr else PTooLarge), [])
          | None => (t, TPpPutDone PErr, [])
          end
      end
  | TPpGet k =>
      let t1 := pp_ensure_init t in
      let '(l', r, _) := get (pp_view t1) k in
      let t2 := with_pp t1 l' in
      match r with
      | ROk =>
          match alookup k (dir (base t1)) with
          | Some ino => (t2, TPpGetOpen k ino, [EPpOpen tid k])
          | None => (t2, TPpGetDone k GErr, [EPpOpen tid k; EPpRet tid k GErr])
          end
      | _ => (t2, TPpGetDone k GMiss, [EPpOpen tid k; EPpRet tid k GMiss])
      end
  | TPpGetOpen k ino =>
      match hlookup ino (inodes (base t)) with
      | Some v => (t, TPpGetDone k (GHit v), [EPpRet tid k (GHit v)])
      | None => (t, TPpGetDone k GErr, [EPpRet tid k GErr])
      end
  | TPpPutDone _ | TPpGetDone _ _ => (t, th, [])
  end.

Record tworld := { tws : tst; twt : list tthread; twlog : list tevent }.

Definition texec1 (w : tworld) (tid : nat) : tworld :=
  match nth_error (twt w) tid with
  | None => w
  | Some th =>
      let '(s', th', ev) := tstep tid (tws w) th in
      {| tws := s'; twt := set_nth tid th' (twt w); twlog := twlog w ++ ev |}
  end.

Definition texec (w : tworld) (sched : list nat) : tworld := fold_left texec1 sched w.

Definition tboot (c : N) (d : disk) : tst :=
  {| base := boot c d; pps := empty c; pp_inited := false; pp_tmps := [] |}.

Definition tstart (c : N) (d : disk) (ths : list tthread) : tworld :=
  {| tws := tboot c d; twt := ths; twlog := [] |}.

(* ---------- server death ---------- *)

(* the name of a temp file: <dir>.sccachetmp<id>  (the id stands for tempfile's random suffix; 256 is
   added so that it is no path separator) *)
Definition temp_name (dirp : list N) (h : N) : key := dirp ++ tempfile_prefix ++ [h + 256].

(* add the temp file of one call in flight to the listing and the directory *)
Definition add_temp (dirp : list N) (inod : list (N * list N)) (acc : list (key * (N * N)) * list (key * N) * N) (e : N * N)
  : list (key * (N * N)) * list (key * N) * N :=
  let '(fs, d, clk) := acc in
  let '(h, ino) := e in
  match hlookup ino inod with
  | Some v => (ains (temp_name dirp h) (blen v, clk + 1) fs, (temp_name dirp h, ino) :: aremove (temp_name dirp h) d, clk + 1)
  | None => acc
  end.

(* what is on disk when the server dies *)
Definition materialise (t : tst) : disk :=
  let b := base t in
  let a0 := (files (lru b), dir b, clock (lru b)) in
  let a1 := fold_left (add_temp [] (inodes b)) (tmps b) a0 in
  let '(fs, d, clk) := fold_left (add_temp RoCache.pp_prefix (inodes b)) (pp_tmps t) a1 in
  {| d_files := fs; d_dir := d; d_inodes := inodes b; d_tmps := [];
     d_next_ino := next_ino b; d_next_h := next_h (lru b); d_clock := clk |}.

Definition trestart (c : N) (t : tst) : tst := tboot c (materialise t).

(* the first request to each store opens it *)
Definition main_open (t : tst) : tst :=
  let b' := ensure_init (base t) in
  {| base := b'; pps := pps t; pp_inited := pp_inited t;
     pp_tmps := if negb (inited (base t)) then [] else pp_tmps t |}.

Definition open_both (pp_first : bool) (t : tst) : tst :=
  if pp_first then main_open (pp_ensure_init t) else pp_ensure_init (main_open t).

(* temp files present in the whole tree (live ones and listed leftovers) *)
Definition temp_count (t : tst) : nat :=
  length (tmps (base t)) + length (pp_tmps t) + length (filter (fun e => is_temp (fst e)) (disk_files t)).

Definition is_tcall (th : tthread) : bool :=
  match th with TMain m | TMainNR m => is_call m | TPpPut _ _ | TPpGet _ => true | _ => false end.
