(* Model/DistPaths.v — C13: `dist::pkg::simplify_path` (SimplifyPath::simplify with resolved_symlinks = None), which
   the C and the Rust inputs packagers apply to every input path before naming the archive entry after it, and the
   RlibDepReader cache of `rustc -Z ls` results that decides which libraries of the -L directories are packaged.

   simplify (src/dist/pkg.rs):   for each component of the path, in order:
        RootDir | Prefix | Normal  => final_path.push(c)
        ParentDir                  => if final_path.is_symlink() { bail!("Cannot handle symlinks in parent paths") }
                                      final_path.pop()            (the guard looks at the component `..` steps out of)
        CurDir                     => continue
   RlibDepReader::discover_rlib_deps (src/compiler/rust.rs): cache: path -> (deps, mtime); an entry is only used if the
        file's current mtime equals the recorded one, otherwise `rustc -Z ls` is run again and the entry replaced. *)
From Coq Require Import List NArith Bool.
Import ListNotations.
Local Open Scope N_scope.

Definition name := list N.
Inductive comp := CName (n : name) | CDotDot | CDot.

Fixpoint name_eqb (a b : name) : bool :=
  match a, b with
  | [], [] => true
  | x :: a', y :: b' => N.eqb x y && name_eqb a' b'
  | _, _ => false
  end.
Fixpoint names_eqb (a b : list name) : bool :=
  match a, b with
  | [], [] => true
  | x :: a', y :: b' => name_eqb x y && names_eqb a' b'
  | _, _ => false
  end.

(* ---- simplify, over an lstat oracle for the accumulated path ---- *)
Fixpoint simplify (is_link : list name -> bool) (cs : list comp) (acc : list name) : option (list name) :=
  match cs with
  | [] => Some acc
  | CName n :: r => simplify is_link r (acc ++ [n])
  | CDot :: r => simplify is_link r acc
  | CDotDot :: r => if is_link acc then None else simplify is_link r (removelast acc)
  end.

(* ---- a concrete tree with symbolic links (for the correspondence leg): link location -> (absolute?, target) ---- *)
Definition links := list (list name * (bool * list comp)).

Fixpoint find_link (l : links) (p : list name) : option (bool * list comp) :=
  match l with
  | [] => None
  | (q, t) :: r => if names_eqb q p then Some t else find_link r p
  end.

(* the kernel's path resolution from the (scratch) root, every symlink followed *)
Fixpoint canon (fuel : nat) (l : links) (cur : list name) (cs : list comp) : option (list name) :=
  match fuel with
  | O => None
  | S fuel' =>
      match cs with
      | [] => Some cur
      | CDot :: r => canon fuel' l cur r
      | CDotDot :: r => canon fuel' l (removelast cur) r
      | CName n :: r =>
          let p := cur ++ [n] in
          match find_link l p with
          | Some (abs, t) => canon fuel' l (if abs then [] else cur) (t ++ r)
          | None => canon fuel' l p r
          end
      end
  end.

(* Path::is_symlink of an accumulated path: lstat, i.e. resolve the parent, look at the last entry itself *)
Definition lstat_is_link (l : links) (acc : list name) : bool :=
  match rev acc with
  | [] => false
  | last :: rp =>
      match canon 400 l [] (map CName (rev rp)) with
      | Some d => match find_link l (d ++ [last]) with Some _ => true | None => false end
      | None => false
      end
  end.

Definition simplify_in (l : links) (cs : list comp) : option (list name) := simplify (lstat_is_link l) cs [].

(* ---- the rlib dependency reader ---- *)
Record rfile := { f_deps : list N; f_mtime : N }.
Record rstate := {
  r_files : list (N * rfile);      (* rlib path -> crates its metadata names, modification time *)
  r_cache : list (N * rfile);      (* the reader's cache: path -> deps and the mtime they were read at *)
  r_clock : N }.

Fixpoint alookup {A} (k : N) (l : list (N * A)) : option A :=
  match l with
  | [] => None
  | (k', v) :: r => if N.eqb k' k then Some v else alookup k r
  end.

Inductive rop :=
| RBuild (p : N) (deps : list N)    (* the rlib at p is (re)built; time passes *)
| RDiscover (p : N).                (* discover_rlib_deps(p) *)

Definition rstep (s : rstate) (o : rop) : rstate * option (list N) :=
  match o with
  | RBuild p deps =>
      let t := r_clock s + 1 in
      ({| r_files := (p, {| f_deps := deps; f_mtime := t |}) :: r_files s; r_cache := r_cache s; r_clock := t |}, None)
  | RDiscover p =>
      match alookup p (r_files s) with
      | None => (s, None)                                   (* "Unable to get rlib modified time" *)
      | Some f =>
          match alookup p (r_cache s) with
          | Some c => if N.eqb (f_mtime c) (f_mtime f) then (s, Some (f_deps c))
                      else ({| r_files := r_files s; r_cache := (p, f) :: r_cache s; r_clock := r_clock s |}, Some (f_deps f))
          | None => ({| r_files := r_files s; r_cache := (p, f) :: r_cache s; r_clock := r_clock s |}, Some (f_deps f))
          end
      end
  end.

Fixpoint rrun (s : rstate) (ops : list rop) : list (option (list N)) * rstate :=
  match ops with
  | [] => ([], s)
  | o :: r => let '(s', x) := rstep s o in let '(xs, s'') := rrun s' r in (x :: xs, s'')
  end.

Definition r_init : rstate := {| r_files := []; r_cache := []; r_clock := 0 |}.

(* cache entries are not newer than the clock and, when as new as the file, hold the file's deps *)
Definition r_inv (s : rstate) : Prop :=
  (forall p f, alookup p (r_files s) = Some f -> f_mtime f <= r_clock s)
  /\ (forall p c, alookup p (r_cache s) = Some c ->
        f_mtime c <= r_clock s
        /\ forall f, alookup p (r_files s) = Some f -> f_mtime c = f_mtime f -> f_deps c = f_deps f).

(* ---- the `-L dependency=` scan of RustInputsPackager::write_inputs: which crate a library file belongs to ----
   file name `lib<crate>-<extra filename>.rlib`: `name.rsplitn(2, '-')` gives libname = everything before the LAST '-';
   the crate name is libname with the prefix "lib" removed ONCE (`&libname[RLIB_PREFIX.len()..]`, guarded by
   starts_with); the file is packaged iff that crate name is among the names `rustc -Z ls` printed for the externs. *)
Definition lib_prefix : list N := [108; 105; 98].    (* "lib" *)

Definition crate_of_libname (l : list N) : option (list N) :=
  match l with
  | 108 :: 105 :: 98 :: r => Some r
  | _ => None
  end.

(* what `trim_start_matches("lib")` would do instead: remove the prefix as often as it occurs *)
Fixpoint trim_all_lib (fuel : nat) (l : list N) : list N :=
  match fuel with
  | O => l
  | S f => match l with 108 :: 105 :: 98 :: r => trim_all_lib f r | _ => l end
  end.

Definition lib_packaged (dep_names : list name) (libname : list N) : bool :=
  match crate_of_libname libname with
  | Some c => existsb (name_eqb c) dep_names
  | None => false
  end.
