(* Jobserver.v — executable model of sccache's job-token bookkeeping:
   src/jobserver.rs (`Client::new_num`, `_new`'s helper-thread closure, `acquire`) and the token
   life-cycle in src/mock_command.rs (`AsyncCommand::spawn`, `Child::{wait, wait_with_output}`, drop).

   What the code does, literally:
     - `Client::new_num(n)` creates a pipe holding exactly `n` tokens (`jobserver::Client::new(n)` writes
       n bytes; no implicit token is subtracted) and a helper thread.
     - `acquire()` (first poll, no await in between): `helper.request_token()` (requests += 1) and
       `tx.unbounded_send(mytx)` (the one-shot SENDER joins an unbounded FIFO); then awaits the receiver.
     - helper thread, forever: wait until requests > 0; requests -= 1; read one token from the pipe
       (blocking); call the closure with it.  The closure takes the NEXT sender of the FIFO
       (`rx.next().await`) and `drop(sender.send(token))`: if the receiver is still alive the token now
       sits in that request's one-shot slot, otherwise `send` gives it back and it is dropped = written
       back to the pipe.  The sender it takes is the head of the FIFO, whichever request that is.
     - a request whose future is dropped while it waits leaves its sender in the FIFO (`gone`): the helper
       still spends one acquire/deliver cycle on it.  A request dropped while the token is in its slot
       drops the slot with it (token back to the pipe).
     - `AsyncCommand::spawn`: acquire, then spawn the process; spawn failure drops the token.
       `Child { inner, token }` keeps it; `wait`/`wait_with_output` drop it after the process has been
       reaped (success or failure alike); dropping the `Child` earlier drops the token but does NOT kill
       the process (tokio `kill_on_drop` is off): the process lives on as an orphan without a token.

   Not modelled: the pipe itself (the `jobserver` crate), read errors on it, tokens taken from the
   inherited pipe by the compilers themselves. *)
From Coq Require Import List NArith Bool.
Import ListNotations.
Local Open Scope N_scope.

Definition rid := N.

Fixpoint mem (r : rid) (l : list rid) : bool :=
  match l with
  | [] => false
  | x :: t => if x =? r then true else mem r t
  end.

(* remove the first occurrence *)
Fixpoint del (r : rid) (l : list rid) : list rid :=
  match l with
  | [] => []
  | x :: t => if x =? r then t else x :: del r t
  end.

Record st := mk {
  pool : N;              (* tokens in the pipe *)
  reqs : N;              (* HelperInner.requests: helper cycles still owed *)
  hand : bool;           (* the helper holds a token and waits in rx.next() *)
  queue : list rid;      (* FIFO of one-shot senders, head first *)
  gone : list rid;       (* queued requests whose receiver was dropped *)
  slots : list rid;      (* token sent into the one-shot, not yet received *)
  held : list rid;       (* `Acquired` in the requester's hands, no process (yet) *)
  running : list rid;    (* `Child { inner, token }` alive *)
  orphans : list rid;    (* processes whose `Child` was dropped: alive, no token *)
  draining : list rid    (* the process has exited and its token is BACK; the request still waits for EOF on the
                            process' stdout/stderr (something the compiler started may still hold them) *)
}.

Definition init (n : N) : st := mk n 0 false [] [] [] [] [] [] [].

Inductive event :=
| Request (r : rid)          (* first poll of acquire(): requests += 1, sender queued *)
| HelperAcquire              (* helper: requests -= 1, one token read from the pipe *)
| Deliver                    (* helper: pop the head sender, send (or give back if its receiver is gone) *)
| Receive (r : rid)          (* r's future takes the token out of its slot *)
| Cancel (r : rid)           (* r's acquire future dropped before it received *)
| DropHeld (r : rid)         (* `Acquired` dropped without a process *)
| Start (r : rid)            (* process spawned; Child holds the token *)
| SpawnFail (r : rid)        (* spawn failed after the token was acquired *)
| Exit (r : rid) (ok : bool) (* the process has exited (status success / failure / killed): `Child::wait` completes and drops
                                the token AT ONCE — in `wait_with_input_output` the wait runs concurrently with the pipe
                                drains, it does not wait for EOF on stdout/stderr *)
| DropRunning (r : rid)      (* Child dropped while the process runs *)
| OrphanExit (r : rid)       (* an orphaned process ends *)
| Done (r : rid).            (* stdout/stderr of an exited process reached EOF (or the request was dropped): the request ends *)

Definition active (s : st) (r : rid) : bool :=
  mem r (queue s) || mem r (slots s) || mem r (held s) || mem r (running s) || mem r (orphans s) || mem r (draining s).

Definition step (s : st) (e : event) : option st :=
  let '(mk p q h qu g sl he ru orp dr) := s in
  match e with
  | Request r =>
      if active s r then None
      else Some (mk p (q + 1) h (qu ++ [r]) g sl he ru orp dr)
  | HelperAcquire =>
      if h then None
      else if q =? 0 then None
      else if p =? 0 then None
      else Some (mk (p - 1) (q - 1) true qu g sl he ru orp dr)
  | Deliver =>
      if h then
        match qu with
        | [] => None
        | x :: qu' =>
            if mem x g then Some (mk (p + 1) q false qu' (del x g) sl he ru orp dr)
            else Some (mk p q false qu' g (sl ++ [x]) he ru orp dr)
        end
      else None
  | Receive r =>
      if mem r sl then Some (mk p q h qu g (del r sl) (he ++ [r]) ru orp dr) else None
  | Cancel r =>
      if mem r sl then Some (mk (p + 1) q h qu g (del r sl) he ru orp dr)
      else if mem r qu && negb (mem r g) then Some (mk p q h qu (r :: g) sl he ru orp dr)
      else None
  | DropHeld r =>
      if mem r he then Some (mk (p + 1) q h qu g sl (del r he) ru orp dr) else None
  | SpawnFail r =>
      if mem r he then Some (mk (p + 1) q h qu g sl (del r he) ru orp dr) else None
  | Start r =>
      if mem r he then Some (mk p q h qu g sl (del r he) (ru ++ [r]) orp dr) else None
  | Exit r _ =>
      if mem r ru then Some (mk (p + 1) q h qu g sl he (del r ru) orp (dr ++ [r])) else None
  | DropRunning r =>
      if mem r ru then Some (mk (p + 1) q h qu g sl he (del r ru) (orp ++ [r]) dr) else None
  | OrphanExit r =>
      if mem r orp then Some (mk p q h qu g sl he ru (del r orp) dr) else None
  | Done r =>
      if mem r dr then Some (mk p q h qu g sl he ru orp (del r dr)) else None
  end.

Fixpoint run (s : st) (es : list event) : option st :=
  match es with
  | [] => Some s
  | e :: r => match step s e with Some s' => run s' r | None => None end
  end.

(* trace acceptance with diagnostics: index of the first refused event *)
Fixpoint accept (s : st) (es : list event) (i : N) : st * option N :=
  match es with
  | [] => (s, None)
  | e :: r => match step s e with Some s' => accept s' r (i + 1) | None => (s, Some i) end
  end.

(* ---------- observables ---------- *)

Definition b2n (b : bool) : N := if b then 1 else 0.
Definition len (l : list rid) : N := N.of_nat (length l).

(* tokens outside the pipe *)
Definition in_hand_off (s : st) : N := b2n (hand s) + len (slots s).
Definition holding (s : st) : N := len (held s) + len (running s).
Definition live_procs (s : st) : N := len (running s) + len (orphans s).

Definition quiescent (s : st) : bool :=
  match queue s, slots s, held s, running s with
  | [], [], [], [] => negb (hand s)
  | _, _, _, _ => false
  end.

(* the helper's next event, if it can move *)
Definition helper_enabled (s : st) : option event :=
  if hand s then match queue s with [] => None | _ => Some Deliver end
  else if (reqs s =? 0) || (pool s =? 0) then None else Some HelperAcquire.

Definition is_helper (e : event) : bool :=
  match e with HelperAcquire | Deliver => true | _ => false end.

(* events that write a token back to the pipe from a requester's side *)
Definition is_release (e : event) : bool :=
  match e with
  | DropHeld _ | SpawnFail _ | Exit _ _ | DropRunning _ => true
  | _ => false
  end.

(* ---------- the helper run to completion (used by the deterministic leg) ---------- *)

Fixpoint settle (fuel : nat) (s : st) : st * list event :=
  match fuel with
  | O => (s, [])
  | S f =>
      match helper_enabled s with
      | Some e =>
          match step s e with
          | Some s' => let '(s2, es) := settle f s' in (s2, e :: es)
          | None => (s, [])
          end
      | None => (s, [])
      end
  end.

Definition settle_fuel (s : st) : nat := 2 * length (queue s) + 2.

(* a saturating burst of fresh requests r0, r0+1, ...: each is requested, served by the helper and received *)
Fixpoint burst (n : nat) (r0 : rid) : list event :=
  match n with
  | O => []
  | S m => Request r0 :: HelperAcquire :: Deliver :: Receive r0 :: burst m (r0 + 1)
  end.

(* ---------- script operations of the deterministic leg ---------- *)

(* request kinds: 0 = bare `Client::acquire()`, the caller keeps the `Acquired`;
   1 / 2 = `AsyncCommand::spawn()` then `Child::wait()` of a process that exits 0 / non-zero;
   3 = `AsyncCommand::spawn()` of a program that does not exist;
   4..8 = `util::run_input_output` (spawn, feed stdin, drain stdout/stderr, wait) of a process that
     4 exits 0 / 5 exits 1 while something it started still holds its stdout and stderr,
     6 writes more than a pipe buffer to stdout and stderr and exits 0,
     7 is fed more than a pipe buffer on stdin, never reads it, exits 0,
     8 kills itself (SIGKILL),
     13 as 6 but stderr first, then stdout (the two pipes are drained concurrently: neither order may block) *)
(* 3, 9..12 = `AsyncCommand::spawn()` of something that cannot be started: 3 no such file (ENOENT), 9 not executable
   (EACCES), 10 a directory, 11 a script whose interpreter does not exist, 12 an executable somebody holds open for
   writing (ETXTBSY).  In all of them `spawn()` returns the error in the poll in which it got the token. *)
Definition kind_spawn_fails (k : N) : bool := (k =? 3) || ((9 <=? k) && (k <=? 12)).
Definition kind_ok (k : N) : bool := (k =? 1) || (k =? 4) || (k =? 6) || (k =? 7) || (k =? 13).
Definition kind_leaves_pipes_open (k : N) : bool := (k =? 4) || (k =? 5).
Inductive sop :=
| OReq (r : rid) (kind : N)  (* create the future and poll it once *)
| OPoll                      (* poll every pending future once, in increasing id order *)
| OAdvance (secs : N)        (* the clock jumps ahead by secs seconds, then every pending future is polled once:
                                waiting time is not an event — nobody gets a token, or starts without one, for having waited *)
| OWait (r : rid)            (* poll r's future until the process has exited (and the token is back) *)
| OFinish (r : rid)          (* close what still holds r's pipes and poll r's future to completion *)
| ODrop (r : rid).           (* drop whatever r is at this point: pending future, Acquired, or Child *)

Fixpoint kind_of (r : rid) (ks : list (rid * N)) : N :=
  match ks with
  | [] => 0
  | (x, k) :: t => if x =? r then k else kind_of r t
  end.

(* insertion sort of ids, for "poll in increasing id order" *)
Fixpoint ins (r : rid) (l : list rid) : list rid :=
  match l with
  | [] => [r]
  | x :: t => if r <=? x then r :: l else x :: ins r t
  end.
Definition sort (l : list rid) : list rid := fold_right ins [] l.

Fixpoint run_keep (s : st) (es : list event) : st * list event :=
  match es with
  | [] => (s, [])
  | e :: r =>
      match step s e with
      | Some s' => let '(s2, d) := run_keep s' r in (s2, e :: d)
      | None => run_keep s r
      end
  end.

Definition poll_events (ks : list (rid * N)) (r : rid) : list event :=
  let k := kind_of r ks in
  if k =? 0 then [Receive r]
  else if kind_spawn_fails k then [Receive r; SpawnFail r]
  else [Receive r; Start r].

(* some events (refused ones are skipped), then the helper runs to completion *)
Definition step_settle (s : st) (es : list event) : st * list event :=
  let '(s1, d1) := run_keep s es in
  let '(s2, d2) := settle (settle_fuel s1) s1 in
  (s2, d1 ++ d2).

Fixpoint poll_all (ks : list (rid * N)) (s : st) (rs : list rid) : st * list event :=
  match rs with
  | [] => (s, [])
  | r :: t =>
      let '(s1, d1) := step_settle s (poll_events ks r) in
      let '(s2, d2) := poll_all ks s1 t in
      (s2, d1 ++ d2)
  end.

(* futures that have not received yet, in increasing id order *)
Definition pending (s : st) : list rid :=
  sort (filter (fun r => negb (mem r (gone s))) (queue s) ++ slots s).

(* one script step.  `req`: first poll, helper to completion, second poll of the same future.
   `poll`: every pending future once, the helper running to completion after each.
   `wait`: until the process has exited: the token is back; the request itself is over too unless something
   still holds the process' pipes.  `finish`: that something is killed.  `drop`: whatever r is now. *)
Definition sop_step (ks : list (rid * N)) (s : st) (o : sop) : st * list event :=
  match o with
  | OReq r _ =>
      if active s r then (s, [])
      else
        let '(s1, d1) := step_settle s [Request r] in
        let '(s2, d2) := step_settle s1 (poll_events ks r) in
        (s2, d1 ++ d2)
  | OPoll => poll_all ks s (pending s)
  | OAdvance _ => poll_all ks s (pending s)
  | OWait r =>
      if mem r (running s) then
        let k := kind_of r ks in
        step_settle s (Exit r (kind_ok k) :: (if kind_leaves_pipes_open k then [] else [Done r]))
      else (s, [])
  | OFinish r => if mem r (draining s) then step_settle s [Done r] else (s, [])
  | ODrop r =>
      step_settle s (if mem r (running s) then [DropRunning r]
                     else if mem r (held s) then [DropHeld r]
                     else if mem r (draining s) then [Done r]
                     else [Cancel r])
  end.

Definition sop_kinds (ks : list (rid * N)) (s : st) (o : sop) : list (rid * N) :=
  match o with
  | OReq r k => if active s r then ks else (r, k) :: ks
  | _ => ks
  end.

Fixpoint script (ks : list (rid * N)) (s : st) (os : list sop) : list (list event * st) :=
  match os with
  | [] => []
  | o :: r =>
      let ks' := sop_kinds ks s o in
      let '(s', d) := sop_step ks' s o in
      (d, s') :: script ks' s' r
  end.

(* ---------- how the server obtains its client (src/jobserver.rs `Client::new`, `new_num`, `_new`) ---------- *)

(* `_new(inner, inherited)`: with inherited = true there is no helper thread and no channel, and `acquire()`
   returns `Acquired { _token: None }` at once — nothing limits the callers.  Only `new_num` (hence `new`)
   is ever called in the crate, always with inherited = false. *)
Record client := mkc {
  c_limited : bool;   (* helper thread + channel present: every Acquired wraps a real token of the pool *)
  c_tokens : N        (* size of the client's own pool *)
}.

(* what the process environment says about a jobserver of the build that started the server *)
Inductive makeflags :=
| MfNone                      (* no MAKEFLAGS / CARGO_MAKEFLAGS / MFLAGS *)
| MfFifo (tokens : N)         (* --jobserver-auth=fifo:PATH, a reachable named fifo holding tokens (GNU make >= 4.4) *)
| MfFds (open : bool)         (* --jobserver-auth=R,W; the descriptors are still open or were closed by daemonize *)
| MfGarbage.                  (* flags without / with an unparsable jobserver *)

Definition client_new_num (n : N) : client := mkc true n.
Definition client_inherited : client := mkc false 0.

(* `Client::new()` = `new_num(util::num_cpus())`: a pool of its own, whatever the environment *)
Definition client_new (ncpus : N) (mf : makeflags) : client := client_new_num ncpus.

(* a burst of m simultaneous `acquire()`s on an idle client: how many hold an `Acquired` at once, and how many of
   those are empty *)
Definition granted_at_once (c : client) (m : N) : N := if c_limited c then N.min m (c_tokens c) else m.
Definition empty_acquireds (c : client) (m : N) : N := if c_limited c then 0 else m.

(* ---------- start-up of the server process: descriptors (src/commands.rs InternalStartServer: `daemonize()` then
   `server::start_server()`; util::daemonize calls `discard_inherited_jobserver()`, start_server calls `Client::new()`) ----------

   `discard_inherited_jobserver()` closes the two descriptors R,W announced by --jobserver-auth=R,W /
   --jobserver-fds=R,W in the environment IF BOTH ARE OPEN in this process (fcntl F_GETFD), whatever they are.
   GNU make <= 4.3 announces its pipe to every recipe but passes the descriptors only to recursive ones: for an
   ordinary recipe R,W (3,4) are closed at exec.  `Client::new()` creates a pipe: the kernel hands out the two
   lowest free descriptors.  Hence the order matters: a discard AFTER the pool exists closes the pool's own pipe
   when the announced numbers were free. *)
Inductive sact := SDiscard | SNewClient.

Record fdst := mkfd {
  open_fds : list N;          (* descriptors open in the server process *)
  pool_fds : option (N * N);  (* read / write end of the token pipe of the client the server uses *)
  pool_alive : bool           (* ... and both are still that pipe *)
}.

Fixpoint lowest_free (fuel : nat) (n : N) (o : list N) : N :=
  match fuel with
  | O => n
  | S f => if mem n o then lowest_free f (n + 1) o else n
  end.
Definition alloc_fd (o : list N) : N := lowest_free (S (length o)) 0 o.

Definition sstep (announced : option (N * N)) (s : fdst) (a : sact) : fdst :=
  match a with
  | SNewClient =>
      let r := alloc_fd (open_fds s) in
      let w := alloc_fd (r :: open_fds s) in
      mkfd (r :: w :: open_fds s) (Some (r, w)) true
  | SDiscard =>
      match announced with
      | Some (r, w) =>
          if mem r (open_fds s) && mem w (open_fds s) then
            let hits := match pool_fds s with
                        | Some (pr, pw) => (pr =? r) || (pr =? w) || (pw =? r) || (pw =? w)
                        | None => false
                        end in
            mkfd (del w (del r (open_fds s))) (pool_fds s) (pool_alive s && negb hits)
          else s
      | None => s
      end
  end.

Definition startup (announced : option (N * N)) (open0 : list N) (acts : list sact) : fdst :=
  fold_left (sstep announced) acts (mkfd open0 None false).

(* the decidable shape of a good start-up: every discard comes before the (first) client *)
Fixpoint only_new (l : list sact) : bool :=
  match l with
  | [] => true
  | SNewClient :: t => only_new t
  | SDiscard :: _ => false
  end.
Fixpoint startup_ok (l : list sact) : bool :=
  match l with
  | [] => false
  | SDiscard :: t => startup_ok t
  | SNewClient :: t => only_new t
  end.
