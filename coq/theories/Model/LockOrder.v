(* LockOrder.v — the locking discipline of the scheduler's request handlers, as data and as a semantics.

   A handler path is the sequence of mutex events the handler performs:
     Acq l   `let g = self.<l>.lock().unwrap();`   (blocks while another thread holds l; std::sync::Mutex is
                                                     not re-entrant, so it also blocks for ever if the thread
                                                     itself holds l)
     Rel l   the guard goes out of scope
     Block   a call that may take arbitrarily long and may call back into the scheduler
             (SchedulerOutgoing::do_assign_job: an HTTP request to a build server)
   Locks are numbered in the ONE global order in which they may be taken (main.rs: "do all locking at once,
   in alphabetical order": jobs = 0, servers = 1).  The paths of the real handlers are read from the Rust
   source by translator/c18_consts.py (Gen/C18Locks.v).

   `path_ok` is the discipline: a lock is only acquired when every lock already held is smaller, guards are
   released before a blocking call, and a handler ends holding nothing.
   The semantics: any number of threads, each running a path; a step of a thread is enabled unless it is an
   Acq of a lock some thread holds.  *)
From Coq Require Import List NArith Bool.
Import ListNotations.
Local Open Scope N_scope.

Inductive lev : Type := Acq (l : N) | Rel (l : N) | Block.

Fixpoint lmem (l : N) (h : list N) : bool :=
  match h with [] => false | x :: r => (l =? x) || lmem l r end.

Fixpoint lrem (l : N) (h : list N) : list N :=
  match h with [] => [] | x :: r => if l =? x then r else x :: lrem l r end.

Definition is_nil {A} (l : list A) : bool := match l with [] => true | _ => false end.

(* the discipline, for a thread that holds `held` and still has to run `p` *)
Fixpoint path_ok (held : list N) (p : list lev) : bool :=
  match p with
  | [] => is_nil held
  | Acq l :: r => forallb (fun h => h <? l) held && path_ok (l :: held) r
  | Rel l :: r => lmem l held && path_ok (lrem l held) r
  | Block :: r => is_nil held && path_ok held r
  end.

Definition lock_order_ok (paths : list (list lev)) : bool := forallb (path_ok []) paths.

(* ---------- concurrent semantics ---------- *)

(* a thread: the locks it holds and the rest of its path *)
Definition thread : Type := (list N * list lev)%type.

Definition finished (t : thread) : bool := is_nil (snd t).

Definition held_by_any (cfg : list thread) (l : N) : bool := existsb (fun u => lmem l (fst u)) cfg.

Definition enabled (cfg : list thread) (t : thread) : bool :=
  match snd t with
  | [] => false
  | Acq l :: _ => negb (held_by_any cfg l)
  | _ => true
  end.

Definition advance (t : thread) : thread :=
  match snd t with
  | [] => t
  | Acq l :: r => (l :: fst t, r)
  | Rel l :: r => (lrem l (fst t), r)
  | Block :: r => (fst t, r)
  end.

(* one thread, enabled in the current configuration, performs its next event *)
Inductive cstep : list thread -> list thread -> Prop :=
| cstep_at pre t post :
    enabled (pre ++ t :: post) t = true -> cstep (pre ++ t :: post) (pre ++ advance t :: post).

Inductive creach : list thread -> list thread -> Prop :=
| creach_refl c : creach c c
| creach_step c1 c2 c3 : creach c1 c2 -> cstep c2 c3 -> creach c1 c3.

Definition start (paths : list (list lev)) : list thread := map (fun p => ([], p)) paths.

Definition all_finished (cfg : list thread) : bool := forallb finished cfg.

(* work still to do: strictly decreases with every step, so every run is finite *)
Definition todo (cfg : list thread) : nat := fold_right (fun t n => (length (snd t) + n)%nat) 0%nat cfg.

(* ---------- what the scheduler model (Model/Scheduler.v) assumes about each handler ---------- *)

(* the lock sections of a path: for every maximal stretch during which something is held, the locks in the
   order they were taken *)
Fixpoint sections_aux (held : list N) (cur : list N) (p : list lev) : list (list N) :=
  match p with
  | [] => if is_nil cur then [] else [rev cur]
  | Acq l :: r => sections_aux (l :: held) (l :: cur) r
  | Rel l :: r =>
      let held' := lrem l held in
      if is_nil held' then rev cur :: sections_aux [] [] r else sections_aux held' cur r
  | Block :: r => sections_aux held cur r
  end.

Definition sections (p : list lev) : list (list N) := sections_aux [] [] p.
