(* Model/EntryBytes.v — what a request answered from the cache hands back, at the level of BYTES: the entry holds the
   object files (name, mode, bytes), stdout and stderr of the compile that stored it, and a hit returns exactly those.
   The encoding of the entry (zip members, zstd frames) is C08's subject (Model/Zip.v); here the model is the identity, and
   the differential leg `entry` compares it with the real CacheWrite -> bytes -> CacheRead path on members of every size
   and compressibility class (described compactly as chunks of a fixed pseudo-random stream, zeros or text, so that the
   case and the observation stay small: length and a 32-bit running checksum). *)
From Coq Require Import List NArith Bool.
Import ListNotations.
Local Open Scope N_scope.

Record member := { m_name : list N; m_mode : N; m_bytes : list N }.
Record entry := { e_objects : list member; e_stdout : list N; e_stderr : list N }.

(* storing and restoring, as the request state machine sees it *)
Definition store (e : entry) : entry := e.
Definition restore_object (e : entry) (name : list N) : option member :=
  find (fun m => if list_eq_dec N.eq_dec (m_name m) name then true else false) (e_objects e).
Definition restore_stdout (e : entry) : list N := e_stdout e.
Definition restore_stderr (e : entry) : list N := e_stderr e.

(* ---- compact description of member contents: chunks of (kind, length) over one LCG stream *)
Definition lcg (x : N) : N := N.land (x * 1103515245 + 12345) 2147483647.
Definition ck (s b : N) : N := N.land (s * 31 + b) 4294967295.

Definition chunk_byte (kind x i : N) : N * N :=      (* new generator state, byte *)
  match kind with
  | 0 => let x' := lcg x in (x', N.land (N.shiftr x' 16) 255)     (* incompressible *)
  | 1 => (x, 0)                                                   (* zeros *)
  | _ => (x, 97 + N.modulo i 7)                                   (* text *)
  end.

(* streaming summary of the described bytes: (generator state, index in chunk, checksum, length) *)
Definition sum_step (kind : N) (st : N * N * N * N) : N * N * N * N :=
  let '(x, i, s, len) := st in
  let '(x', b) := chunk_byte kind x i in (x', i + 1, ck s b, len + 1).

Fixpoint sum_chunks (chunks : list (N * N)) (st : N * N * N * N) : N * N * N * N :=
  match chunks with
  | [] => st
  | (kind, n) :: r =>
      let '(x, _, s, len) := st in
      sum_chunks r (N.iter n (sum_step kind) (x, 0, s, len))
  end.

(* the bytes themselves (for the theorems; the extracted runner only uses the streaming summary) *)
Fixpoint gen_chunk (kind : N) (n : nat) (x i : N) : list N * N :=
  match n with
  | O => ([], x)
  | S n' => let '(x', b) := chunk_byte kind x i in let '(l, xe) := gen_chunk kind n' x' (i + 1) in (b :: l, xe)
  end.

Definition checksum (l : list N) (s : N) : N := fold_left ck l s.
