(* DiskCache.v — executable model of sccache's DiskCache (src/cache/disk.rs) on top of
   Model/Lru.v (LruDiskCache), with concurrent put/get calls at lock granularity, an
   explicit inode layer for the file system, and server death + restart.

   What one atomic step is (read off DiskCache::put / DiskCache::get):

     put(k, v)   Reserve : lock; get_or_init; prepare_add(k, |v|)?; unlock
                           (Err(FileTooLarge) ends the call)
                 Write*  : f.write_all(v)  — NO lock held; modelled as any number of
                           chunk writes, each appending to the call's own temp file
                 Commit  : lock; commit(f)?; unlock      (flush, measure, make_space,
                           create_dir_all, persist = rename(temp, root/k), index)
                 Abandon : (instead of Commit, when the write failed) lock; abandon(f); unlock,
                           the temp file is dropped (unlinked)
     get(k)      Open    : lock; get_or_init; lru.get(k) (recency, utimes, File::open); unlock
                           (FileNotInCache -> Miss)
                 Read    : CacheRead::from(file) + the reads of the members, all through the
                           descriptor opened under the lock

   The inode layer makes "a renamed entry is never written again" something to PROVE:
     inodes : inode id -> bytes (never garbage collected: an unlinked inode stays readable
              through an open descriptor, exactly the POSIX behaviour relied upon);
     dir    : non-temp path -> inode id, kept in lock step with Lru.files (a path that an
              Lru operation deleted is dropped; a successful commit points the key to the
              temp file's inode — rename(2));
     tmps   : temp files in the cache root: live handle id -> inode id.  Temp names live
              in their own name space, which is sound because key paths never start with
              TEMPFILE_PREFIX (hex_keys_not_temp in Proofs/DiskCache.v).
   A write appends to the inode of the writing call's own handle and to nothing else.  *)
From Coq Require Import List NArith Bool.
From Sccache Require Import Base.Sx Model.Lru.
Import ListNotations.
Local Open Scope N_scope.

(* ---------- state ---------- *)

Record dst := {
  lru : Lru.st;                    (* LazyDiskCache::Init(LruDiskCache); before init only files/next_h/clock matter *)
  inited : bool;                   (* LazyDiskCache::Uninit / Init *)
  capacity : N;                    (* max_size *)
  inodes : list (N * list N);
  dir : list (key * N);
  tmps : list (N * N);
  next_ino : N
}.

(* what survives the death of the server: the directory tree and the inodes *)
Record disk := {
  d_files : list (key * (N * N));  (* non-temp path -> (size, mtime), as Lru.files *)
  d_dir : list (key * N);
  d_inodes : list (N * list N);
  d_tmps : list (N * N);           (* leftover temp files *)
  d_next_ino : N;
  d_next_h : N;                    (* model artefacts: fresh handle ids, logical clock *)
  d_clock : N
}.

Definition persist (s : dst) : disk :=
  {| d_files := files (lru s); d_dir := dir s; d_inodes := inodes s; d_tmps := tmps s;
     d_next_ino := next_ino s; d_next_h := next_h (lru s); d_clock := clock (lru s) |}.

(* DiskCache::new(root, max_size): nothing is read yet *)
Definition boot (c : N) (d : disk) : dst :=
  {| lru := {| cap := c; index := []; measure := 0; pending := []; pending_size := 0;
               files := d_files d; handles := []; next_h := d_next_h d; clock := d_clock d |};
     inited := false; capacity := c;
     inodes := d_inodes d; dir := d_dir d; tmps := d_tmps d; next_ino := d_next_ino d |}.

(* paths deleted by an Lru operation disappear from the directory *)
Definition sync_dir (fs : list (key * (N * N))) (d : list (key * N)) : list (key * N) :=
  filter (fun e => amem (fst e) fs) d.

(* get_or_init: LruDiskCache::new = Lru.reopen; init unlinks every temp file in the root *)
Definition ensure_init (s : dst) : dst :=
  if inited s then s
  else
    let l := reopen (lru s) (capacity s) in
    {| lru := l; inited := true; capacity := capacity s; inodes := inodes s;
       dir := sync_dir (files l) (dir s); tmps := []; next_ino := next_ino s |}.

Definition with_lru (s : dst) (l : Lru.st) : dst :=
  {| lru := l; inited := inited s; capacity := capacity s; inodes := inodes s;
     dir := sync_dir (files l) (dir s); tmps := tmps s; next_ino := next_ino s |}.

Definition blen (v : list N) : N := N.of_nat (length v).

(* ---------- calls in flight ---------- *)

Inductive pres := POk | PTooLarge | PErr.
Inductive gres := GMiss | GHit (v : list N) | GErr.

Inductive thread :=
| TPut (k : key) (n : N) (chunks : list (list N)) (fail : bool)
    (* not started: will reserve n bytes, write the chunks, then commit — or, if [fail],
       see its write fail after these chunks and abandon.  DiskCache::put has
       n = |concat chunks| when it does not fail; the theorems hold for every n. *)
| TPutW (k : key) (h : N) (written : list N) (rest : list (list N)) (fail : bool)
| TPutDone (r : pres)
| TGet (k : key)
| TGetOpen (k : key) (ino : N)     (* holds a descriptor on inode ino *)
| TGetDone (k : key) (r : gres).

Inductive event :=
| EReserve (t : nat) (k : key)
| ECommit (t : nat) (k : key) (v : list N)     (* the rename happened: v is the full content written *)
| EOpen (t : nat) (k : key)
| ERet (t : nat) (k : key) (r : gres).

Definition step_thread (t : nat) (s : dst) (th : thread) : dst * thread * list event :=
  match th with
  | TPut k n chunks fail =>
      let s1 := ensure_init s in
      let h := next_h (lru s1) in
      let '(l', r) := prepare_add (lru s1) k n in
      match r with
      | ROk =>
          ({| lru := l'; inited := true; capacity := capacity s1;
              inodes := inodes s1 ++ [(next_ino s1, [])];
              dir := sync_dir (files l') (dir s1);
              tmps := tmps s1 ++ [(h, next_ino s1)];
              next_ino := next_ino s1 + 1 |},
           TPutW k h [] chunks fail, [EReserve t k])
      | RTooLarge => (with_lru s1 l', TPutDone PTooLarge, [])
      | _ => (with_lru s1 l', TPutDone PErr, [])
      end
  | TPutW k h done (c :: rest) fail =>
      let '(l', _) := write_tmp (lru s) h (blen c) in
      let ino' := match hlookup h (tmps s) with
                  | Some ino => match hlookup ino (inodes s) with
                                | Some old => hset ino (old ++ c) (inodes s)
                                | None => inodes s
                                end
                  | None => inodes s
                  end in
      ({| lru := l'; inited := inited s; capacity := capacity s; inodes := ino';
          dir := dir s; tmps := tmps s; next_ino := next_ino s |},
       TPutW k h (done ++ c) rest fail, [])
  | TPutW k h done [] false =>
      let '(l', r, _) := commit (lru s) h in
      match r with
      | ROk =>
          let d1 := sync_dir (files l') (dir s) in
          let d2 := match hlookup h (tmps s) with
                    | Some ino => (k, ino) :: aremove k d1
                    | None => d1
                    end in
          ({| lru := l'; inited := inited s; capacity := capacity s; inodes := inodes s;
              dir := d2; tmps := hremove h (tmps s); next_ino := next_ino s |},
           TPutDone POk, [ECommit t k done])
      | RTooLarge =>
          ({| lru := l'; inited := inited s; capacity := capacity s; inodes := inodes s;
              dir := sync_dir (files l') (dir s); tmps := hremove h (tmps s); next_ino := next_ino s |},
           TPutDone PTooLarge, [])
      | _ => (s, TPutDone PErr, [])
      end
  | TPutW k h done [] true =>
      let '(l', _) := abandon (lru s) h in
      ({| lru := l'; inited := inited s; capacity := capacity s; inodes := inodes s;
          dir := dir s; tmps := hremove h (tmps s); next_ino := next_ino s |},
       TPutDone PErr, [])
  | TGet k =>
      let s1 := ensure_init s in
      let '(l', r, _) := get (lru s1) k in
      match r with
      | RNotInCache => (with_lru s1 l', TGetDone k GMiss, [EOpen t k; ERet t k GMiss])
      | ROk =>
          match alookup k (dir s1) with
          | Some ino => (with_lru s1 l', TGetOpen k ino, [EOpen t k])
          | None => (with_lru s1 l', TGetDone k GErr, [EOpen t k; ERet t k GErr])
          end
      | _ => (with_lru s1 l', TGetDone k GErr, [EOpen t k; ERet t k GErr])
      end
  | TGetOpen k ino =>
      match hlookup ino (inodes s) with
      | Some v => (s, TGetDone k (GHit v), [ERet t k (GHit v)])
      | None => (s, TGetDone k GErr, [ERet t k GErr])
      end
  | TPutDone _ | TGetDone _ _ => (s, th, [])
  end.

(* ---------- schedules ---------- *)

Record world := { ws : dst; wt : list thread; wlog : list event }.

Fixpoint set_nth {A} (n : nat) (x : A) (l : list A) : list A :=
  match n, l with
  | _, [] => []
  | O, _ :: r => x :: r
  | S n', y :: r => y :: set_nth n' x r
  end.

(* one occurrence of thread id t in the schedule: that call advances by one atomic step;
   a finished call (or an id that names no call) stutters *)
Definition exec1 (w : world) (t : nat) : world :=
  match nth_error (wt w) t with
  | None => w
  | Some th =>
      let '(s', th', ev) := step_thread t (ws w) th in
      {| ws := s'; wt := set_nth t th' (wt w); wlog := wlog w ++ ev |}
  end.

Definition exec (w : world) (sched : list nat) : world := fold_left exec1 sched w.

Definition start (c : N) (d : disk) (ths : list thread) : world :=
  {| ws := boot c d; wt := ths; wlog := [] |}.

(* the calls a client can issue *)
Definition is_call (th : thread) : bool :=
  match th with TPut _ _ _ _ | TGet _ => true | _ => false end.

(* the server dies (every call in flight is lost, nothing is cleaned up) and a new one is
   started with capacity c on what is on disk; its first request initialises the cache *)
Definition restart (c : N) (s : dst) : dst := ensure_init (boot c (persist s)).

(* what a lookup of k would return right now (Open immediately followed by Read; the first
   request initialises the cache) *)
Definition visible (s : dst) (k : key) : option (list N) :=
  let s1 := ensure_init s in
  if amem k (index (lru s1)) then
    match alookup k (dir s1) with
    | Some ino => hlookup ino (inodes s1)
    | None => None
    end
  else None.

(* ---------- cache keys ---------- *)

(* make_key_path: key[0..1] / key[1..2] / key   (47 = '/') *)
Definition make_key_path (k : list N) : key :=
  match k with
  | x :: y :: _ => [x; 47; y; 47] ++ k
  | _ => k
  end.

Definition is_hex (c : N) : bool := ((48 <=? c) && (c <=? 57)) || ((97 <=? c) && (c <=? 102)).
Definition is_hex_key (k : list N) : bool := forallb is_hex k && (2 <=? blen k).

(* decidable well-formedness of an initial disk: inode ids in use are below the allocation mark *)
Definition wf_disk (d : disk) : bool :=
  forallb (fun e => fst e <? d_next_ino d) (d_inodes d) &&
  forallb (fun e => snd e <? d_next_ino d) (d_dir d).
