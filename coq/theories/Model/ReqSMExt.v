(* ReqSMExt.v — additions to Model/ReqSM.v that do not touch its interface (other properties import it).

   `start_compile_task` asks the distributed-compilation container for its client BEFORE it calls
   `get_cached_or_compile`:  `match me.dist_client.get_client().await { Ok(client) => .., Err(e) => Err(e) }`.
   `get_client` fails in the state `FailWithMessage` (dist configured with an OAuth2 auth type and no usable
   token).  The error is fed into the SAME result handling as every other error: the request — already counted
   in compile_requests and requests_executed — ends in the arm "any other Err": cache_errors += 1, the client is
   answered "encountered fatal error".  No storage interaction, no preprocessor or compiler run. *)
From Coq Require Import List NArith Bool.
From Sccache Require Import Base.Sx Model.Stats Model.ReqSM.
Import ListNotations.
Local Open Scope N_scope.

Definition execute_dist_error (st : cstate) : cstate * response :=
  (st, mk_response CFatal [] 0 0 OFatal).

(* a request on a server whose dist client cannot be created: classes that are not executed never ask for it *)
Definition request_dist_error (cl : req_class) (o : oracle) (st : cstate) : cstate * response * list action :=
  match cl with
  | QCompile =>
      let '(st', r) := execute_dist_error st in
      (st', r, program (kind_of cl (o_lang o) r))
  | _ => request no_faults cl CCDefault o st
  end.
