(* ReqSMExt.v — additions to Model/ReqSM.v that do not touch its interface (other properties import it).

   `start_compile_task` asks the distributed-compilation container for its client BEFORE it calls
   `get_cached_or_compile`:  `match me.dist_client.get_client().await { Ok(client) => .., Err(e) => Err(e) }`.
   `get_client` fails in the state `FailWithMessage` (dist configured with an OAuth2 auth type and no usable
   token).  The error is fed into the SAME result handling as every other error: the request — already counted
   in compile_requests and requests_executed — ends in the arm "any other Err": cache_errors += 1, the client is
   answered "encountered fatal error".  No storage interaction, no preprocessor or compiler run. *)
From Coq Require Import List NArith Bool.
From Sccache Require Import Base.Sx Model.Stats Model.ReqSM.
Import ListNotations.
Local Open Scope N_scope.

Definition execute_dist_error (st : cstate) : cstate * response :=
  (st, mk_response CFatal [] 0 0 OFatal).

(* a request on a server whose dist client cannot be created: classes that are not executed never ask for it *)
Definition request_dist_error (cl : req_class) (o : oracle) (st : cstate) : cstate * response * list action :=
  match cl with
  | QCompile =>
      let '(st', r) := execute_dist_error st in
      (st', r, program (kind_of cl (o_lang o) r))
  | _ => request no_faults cl CCDefault o st
  end.

(* ---------- result keys read from preprocessor-cache FILES are untrusted ---------- *)

(* A preprocessor-cache entry is a file: the result key it names is an arbitrary byte string, not necessarily
   something `hash_key` produced (it may be empty, contain '/', "..", non-ASCII bytes ...).  `generate_hash_key`
   only uses it if it has the form of a digest — 64 lower-case hexadecimal digits — (fix "a malformed result key
   in a preprocessor cache entry is a miss, not a path"); any other entry reads as "no usable entry", like an
   unparsable one: the preprocessor runs and the entry is rewritten. *)
Definition is_hex_digit (c : N) : bool :=
  ((48 <=? c) && (c <=? 57)) || ((97 <=? c) && (c <=? 102)).

Definition wf_result_key (k : key) : bool :=
  (N.of_nat (length k) =? 64) && forallb is_hex_digit k.

(* what a well-formed entry FILE naming result key [k] for include state [m] amounts to *)
Definition read_entry_file (k : key) (m : N) : ppentry :=
  if wf_result_key k then PGood k m else PUnparse.

(* the cache state after the entry under [pk] was replaced (behind the server's back) by such a file *)
Definition forge_pp (pk : key) (k : key) (m : N) (st : cstate) : cstate :=
  {| cs_res := cs_res st; cs_pp := kv_set pk (read_entry_file k m) (cs_pp st); cs_ro := cs_ro st |}.
