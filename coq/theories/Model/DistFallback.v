(* Model/DistFallback.v — C13: `dist_or_local_compile` (src/compiler/compiler.rs, feature dist-client)
   as a function of a fault assignment ("script") over the stages of one distributed compile.

   Order of effects in the Rust code, modelled literally:

     generate_compile_commands(..)?                              -- s_gen      (Err => the request fails; also for a local-only build)
     dist_compile_cmd.and(dist_client) is None => local compile, DistType::NoDist          -- s_dist = false
     do_dist_compile:
        output paths as_dist_abs / into_dist_packagers(..)?      -- s_prep
        dist_client.put_toolchain(..).await?                     -- s_put
        dist_client.do_alloc_job(..).await?                      -- s_alloc    (Err | AllocJobResult::Fail | Success{need_toolchain})
        need_toolchain => do_submit_toolchain(..)?               -- s_submit   (Err | JobNotFound | CannotCache | Success)
        dist_client.do_run_job(..)?                              -- s_run      (Err | JobNotFound | Complete(code, outputs))
        for (path, data) in jc.outputs { push path; File::create; io::copy; length check }   -- write_loop, try_or_cleanup!
        outputs_rewriter.handle_outputs(..)  (Rust dep-info rewrite; no-op for C)           -- s_rewrite, try_or_cleanup!
        Ok((DistType::Ok(server_id), jc.output.into()))
     .or_else(e):  HttpClientError => Err(e);  lru_disk_cache::Error::FileTooLarge => Err("Could not cache dist toolchain ..");
                   anything else   => warn, compile_cmd.execute(..) locally, DistType::Error

   The local command (`SingleCompileCommand::execute` -> `run_input_output`) returns Err(ProcessError(output)) when the
   compiler's status is not success, Err(spawn error) when it cannot be started, Ok(output) otherwise.

   `fixed = false` is the pinned commit: `assert!(count == len)` after io::copy panics without cleaning up and the
   remote exit code is decoded with `to_local_orig` (S9).  `fixed = true` is the tree after the two `fix:` commits
   (length mismatch goes through try_or_cleanup!; `to_local`).

   Not modelled: what the build server computes (the remote exit code and the fetched outputs are inputs of the
   script), toolchain/inputs packaging, PathTransformer on Windows (on unix `to_local` cannot fail). *)
From Coq Require Import List NArith ZArith Bool.
From Sccache Require Import Model.DistStatus.
Import ListNotations.

(* ---- error classes as distinguished by the or_else handler ---- *)
Inductive eclass := EHttp4xx | ETooLarge | EOther.

(* ---- a tiny file system: output path id -> what the file holds ---- *)
Definition path := N.
Inductive content :=
| CPre (kind : N)  (* existed before the request (e.g. the object of an earlier build); kind = how its length
                     compares with what is written over it later: 0 shorter, 1 equal, 2 longer.  Nothing in the
                     model inspects it: File::create truncates, so the old length cannot matter — which is what
                     C13_effect_independent_of_preexisting states and the byte-exact harness listing checks *)
| CRemote     (* completely written from a fetched remote output *)
| CPartial    (* created by the client, remote data only partly written *)
| CLocal.     (* written by the local compiler *)
Definition fs := list (path * content).

Fixpoint fs_get (f : fs) (p : path) : option content :=
  match f with
  | [] => None
  | (q, c) :: r => if N.eqb q p then Some c else fs_get r p
  end.
Fixpoint fs_remove (p : path) (f : fs) : fs :=
  match f with
  | [] => []
  | (q, c) :: r => if N.eqb q p then fs_remove p r else (q, c) :: fs_remove p r
  end.
Definition fs_write (p : path) (c : content) (f : fs) : fs := (p, c) :: fs_remove p f.

(* ---- the script ---- *)
Inductive wres :=
| WOk         (* created and fully written, length as declared *)
| WCreate     (* File::create fails *)
| WCopy       (* io::copy fails part-way (corrupt / truncated zlib stream, disk full) *)
| WLen.       (* io::copy succeeds but the byte count differs from the declared length *)

Inductive alloc_res := AllocErr (c : eclass) | AllocFail | AllocOk (need_toolchain : bool).
Inductive submit_res := SubErr (c : eclass) | SubJobNotFound | SubCannotCache | SubOk.
Inductive run_res := RunErr (c : eclass) | RunJobNotFound | RunComplete (code : Z) (outs : list (path * wres)).
Inductive local_res :=
| LSpawnErr                                   (* the local compiler cannot be started *)
| LExit (raw : raw_status) (writes : list path).  (* it ran: wait status, files it wrote *)

Record script := {
  s_gen : bool;                 (* generate_compile_commands succeeds *)
  s_dist : bool;                (* a dist client is configured and a dist command could be built *)
  s_prep : option eclass;       (* None = ok *)
  s_put : option eclass;
  s_alloc : alloc_res;
  s_submit : submit_res;
  s_run : run_res;
  s_rewrite : option eclass;
  s_local : local_res }.

(* ---- the output-writing loop with try_or_cleanup! ---- *)
Definition cleanup (written : list path) (f : fs) : fs :=
  fold_left (fun f p => fs_remove p f) written f.

Inductive loop_res :=
| LoopDone (written : list path) (f : fs)
| LoopErr (f : fs)
| LoopPanic (f : fs).

Fixpoint write_loop (fixed : bool) (outs : list (path * wres)) (written : list path) (f : fs) : loop_res :=
  match outs with
  | [] => LoopDone written f
  | (p, w) :: rest =>
      (* output_paths.push(local_path)  -- "Do this first so cleanup works correctly" *)
      let written' := written ++ [p] in
      match w with
      | WCreate => LoopErr (cleanup written' f)
      | WCopy => LoopErr (cleanup written' (fs_write p CPartial f))
      | WLen =>
          let f' := fs_write p CRemote f in
          if fixed then LoopErr (cleanup written' f') else LoopPanic f'
      | WOk => write_loop fixed rest written' (fs_write p CRemote f)
      end
  end.

(* ---- do_dist_compile ---- *)
Inductive attempt :=
| AOk (code : Z) (f : fs)
| AErr (c : eclass) (f : fs)
| APanic (f : fs).

Definition dist_attempt (fixed : bool) (s : script) (f : fs) : attempt :=
  match s_prep s with Some c => AErr c f | None =>
  match s_put s with Some c => AErr c f | None =>
  match s_alloc s with
  | AllocErr c => AErr c f
  | AllocFail => AErr EOther f
  | AllocOk need =>
      match (if need then s_submit s else SubOk) with
      | SubErr c => AErr c f
      | SubJobNotFound => AErr EOther f
      | SubCannotCache => AErr EOther f
      | SubOk =>
          match s_run s with
          | RunErr c => AErr c f
          | RunJobNotFound => AErr EOther f
          | RunComplete code outs =>
              match write_loop fixed outs [] f with
              | LoopErr f' => AErr EOther f'
              | LoopPanic f' => APanic f'
              | LoopDone written f' =>
                  match s_rewrite s with
                  | Some c => AErr c (cleanup written f')
                  | None => AOk code f'
                  end
              end
          end
      end
  end end end.

(* ---- results ---- *)
Inductive dist_type := NoDist | DistOk | DistError.
Inductive errkind :=
| KHttp        (* HttpClientError passed through: server.rs answers retcode 1 *)
| KTooLarge    (* "Could not cache dist toolchain ... Increase toolchain_cache_size" *)
| KGen         (* generate_compile_commands failed *)
| KSpawn.      (* the local compiler could not be started *)
Inductive outcome :=
| OOk (dt : dist_type) (raw : raw_status)   (* Ok((cacheable, dt, output)) *)
| OProcErr (raw : raw_status)               (* Err(ProcessError(output)): the local compiler failed, its output is relayed *)
| OErr (k : errkind)
| OPanic.

Record result := { r_out : outcome; r_fs : fs; r_local_ran : bool }.

Definition run_local (dt : dist_type) (s : script) (f : fs) : result :=
  match s_local s with
  | LSpawnErr => {| r_out := OErr KSpawn; r_fs := f; r_local_ran := true |}
  | LExit raw ws =>
      {| r_out := if success raw then OOk dt raw else OProcErr raw;
         r_fs := fold_left (fun f p => fs_write p CLocal f) ws f;
         r_local_ran := true |}
  end.

Definition remote_status (fixed : bool) (code : Z) : raw_status :=
  if fixed then to_local code else to_local_orig code.

Definition dist_or_local (fixed : bool) (s : script) (f : fs) : result :=
  if negb (s_gen s) then {| r_out := OErr KGen; r_fs := f; r_local_ran := false |}
  else if negb (s_dist s) then run_local NoDist s f
  else match dist_attempt fixed s f with
       | AOk code f' => {| r_out := OOk DistOk (remote_status fixed code); r_fs := f'; r_local_ran := false |}
       | APanic f' => {| r_out := OPanic; r_fs := f'; r_local_ran := false |}
       | AErr EHttp4xx f' => {| r_out := OErr KHttp; r_fs := f'; r_local_ran := false |}
       | AErr ETooLarge f' => {| r_out := OErr KTooLarge; r_fs := f'; r_local_ran := false |}
       | AErr EOther f' => run_local DistError s f'
       end.

(* The oracle: the same request on a build without distributed compilation. *)
Definition local_only (s : script) (f : fs) : result :=
  if negb (s_gen s) then {| r_out := OErr KGen; r_fs := f; r_local_ran := false |}
  else run_local NoDist s f.

(* ---- what the client process sees (src/server.rs, compile task) ---- *)
Inductive client_code :=
| CcStatus (c : client_status)   (* the compiler's own status is relayed *)
| CcHttp                         (* retcode 1, "http error status" *)
| CcFatal.                       (* retcode -2, "sccache: encountered fatal error" (also a caught panic) *)

Definition client_sees (o : outcome) : client_code :=
  match o with
  | OOk _ raw => CcStatus (client_view raw)
  | OProcErr raw => CcStatus (client_view raw)
  | OErr KHttp => CcHttp
  | OErr _ => CcFatal
  | OPanic => CcFatal
  end.

(* ---- the first failing stage of a script, for stating "for every stage" ---- *)
Inductive stage := StPrep | StPut | StAlloc | StSubmit | StRun | StWrite (k : nat) | StRewrite.

Fixpoint first_bad (outs : list (path * wres)) (k : nat) : option nat :=
  match outs with
  | [] => None
  | (_, WOk) :: r => first_bad r (S k)
  | _ :: _ => Some k
  end.

Definition first_fault (s : script) : option (stage * eclass) :=
  match s_prep s with Some c => Some (StPrep, c) | None =>
  match s_put s with Some c => Some (StPut, c) | None =>
  match s_alloc s with
  | AllocErr c => Some (StAlloc, c)
  | AllocFail => Some (StAlloc, EOther)
  | AllocOk need =>
      match (if need then s_submit s else SubOk) with
      | SubErr c => Some (StSubmit, c)
      | SubJobNotFound => Some (StSubmit, EOther)
      | SubCannotCache => Some (StSubmit, EOther)
      | SubOk =>
          match s_run s with
          | RunErr c => Some (StRun, c)
          | RunJobNotFound => Some (StRun, EOther)
          | RunComplete _ outs =>
              match first_bad outs 0 with
              | Some k => Some (StWrite k, EOther)
              | None => match s_rewrite s with Some c => Some (StRewrite, c) | None => None end
              end
          end
      end
  end end end.

(* paths a remote answer makes the client touch / the ones whose data arrived intact *)
Definition run_outs (s : script) : list (path * wres) :=
  match s_run s with RunComplete _ outs => outs | _ => [] end.
Definition local_writes (s : script) : list path :=
  match s_local s with LExit _ ws => ws | LSpawnErr => [] end.
Definition is_remote_content (c : option content) : bool :=
  match c with Some CRemote | Some CPartial => true | _ => false end.

(* ---- get_cached_or_compile around it: a cache miss with CacheControl::Default, one declared output `obj` ---- *)
Inductive req_class :=
| QMiss (dt : dist_type)            (* CompileResult::CacheMiss(MissType::Normal, dt, ..): the entry is stored *)
| QCompileFailed (dt : dist_type)   (* status not success: nothing stored *)
| QProcErr
| QErr (k : errkind)
| QErrZip                           (* "failed to zip up compiler outputs": success reported but `obj` is missing *)
| QPanic.

Definition request_class (obj : path) (r : result) : req_class :=
  match r_out r with
  | OOk dt raw =>
      if success raw
      then match fs_get (r_fs r) obj with Some _ => QMiss dt | None => QErrZip end
      else QCompileFailed dt
  | OProcErr _ => QProcErr
  | OErr k => QErr k
  | OPanic => QPanic
  end.

(* the next identical request after a stored miss: a hit that restores what `obj` held *)
Definition second_request (obj : path) (r : result) : option content :=
  match request_class obj r with
  | QMiss _ => fs_get (r_fs r) obj
  | _ => None
  end.

(* ---- vocabulary of the statements in Properties/C13.v ---- *)
(* the same outcome, accounted under another DistType *)
Definition retag (dt : dist_type) (o : outcome) : outcome :=
  match o with OOk _ raw => OOk dt raw | _ => o end.
Definition retag_q (dt : dist_type) (q : req_class) : req_class :=
  match q with QMiss _ => QMiss dt | QCompileFailed _ => QCompileFailed dt | _ => q end.

(* output paths the client has pushed onto `output_paths` when the script's first fault strikes *)
Definition attempted (s : script) : list path :=
  match first_fault s with
  | Some (StWrite k, _) => map fst (firstn (S k) (run_outs s))
  | Some (StRewrite, _) => map fst (run_outs s)
  | _ => []
  end.

(* no file holds (complete or partial) data fetched from a build server *)
Definition no_remote (f : fs) : Prop := forall p, is_remote_content (fs_get f p) = false.
