(* Client.v — executable model of the sccache client/server wire protocol around a
   compile request, at BYTE granularity.

   Client side (src/client.rs, src/commands.rs):
     ServerConnection::read_one_response   read_exact(4) -> big-endian u32 length ->
                                           read_exact(len) -> bincode::deserialize
     request_compile                       first response; every failure is fatal
                                           ("Failed to send data to or receive data from server")
     handle_compile_response               CompileStarted: read the second response;
                                             Ok(CompileFinished) -> handle_compile_finished
                                             Ok(other)           -> bail!("unexpected response from server")
                                             Err(e), e is an io::Error of kind UnexpectedEof -> compile locally
                                             Err(e) otherwise    -> compile locally iff SCCACHE_IGNORE_SERVER_IO_ERROR=1
                                           UnhandledCompile      -> compile locally
                                           UnsupportedCompiler   -> bail!
     handle_compile_finished               exit status = retcode | -2 (signal) | -3 (neither)
     main                                  Err(_) -> exit 2
   What the client reads is a byte list plus HOW IT ENDS (clean EOF, connection
   reset, any other I/O error): `read_exact` loops over short reads, so the
   chunking of the stream is invisible to it (no ShortRead event is needed), and an
   ending is consulted only when the bytes run out.

   bincode 1.3 (`bincode::deserialize`: fixed-width little-endian integers, u32 enum
   variant index, u8 Option tag, u64 sequence length, trailing bytes allowed).  The
   three responses that never occur in a compile exchange (Stats, DistStatus,
   ShuttingDown: tags 2..4, large nested payloads) are decoded through an oracle
   `opq : N -> list N -> bool` ("does this payload decode"); every theorem
   quantifies over it.

   Server side (src/server.rs `SccacheService::bind`): tokio_util
   LengthDelimitedCodec (4-byte big-endian length, `max_frame_length`, default
   8 MiB, SCCACHE_MAX_FRAME_LENGTH) feeding BincodeCodec<Request>.  The decoder is
   modelled as the streaming state machine it is (Head / Data), one byte at a time:
   an oversized header or a payload that does not decode as a `Request` ends THAT
   connection's task (`forward` returns Err, the socket is dropped); nothing else is
   touched.  The only message that stops the server is a well-formed `Shutdown`. *)
From Coq Require Import List NArith Bool.
Import ListNotations.
Local Open Scope N_scope.

(* ---------- integers on the wire ---------- *)

Definition be32 (b0 b1 b2 b3 : N) : N := ((b0 * 256 + b1) * 256 + b2) * 256 + b3.
Definition le32 (b0 b1 b2 b3 : N) : N := be32 b3 b2 b1 b0.

Definition enc_be32 (n : N) : list N :=
  [ (n / 16777216) mod 256; (n / 65536) mod 256; (n / 256) mod 256; n mod 256 ].
Definition enc_le32 (n : N) : list N :=
  [ n mod 256; (n / 256) mod 256; (n / 65536) mod 256; (n / 16777216) mod 256 ].
Definition enc_le64 (n : N) : list N :=
  enc_le32 (n mod 4294967296) ++ enc_le32 (n / 4294967296).

Definition blen (l : list N) : N := N.of_nat (length l).

(* a length-prefixed frame as both sides write it *)
Definition frame (payload : list N) : list N := enc_be32 (blen payload) ++ payload.

(* exactly n bytes off the front, or None when fewer are there (structural in l: n may be 2^32) *)
Fixpoint splitN (l : list N) (n : N) : option (list N * list N) :=
  if n =? 0 then Some ([], l)
  else match l with
       | [] => None
       | x :: r => match splitN r (N.pred n) with
                   | Some (a, b) => Some (x :: a, b)
                   | None => None
                   end
       end.

(* ---------- bincode readers: option (value * rest) ---------- *)

Definition rd_u8 (l : list N) : option (N * list N) :=
  match l with x :: r => Some (x, r) | [] => None end.

Definition rd_u32 (l : list N) : option (N * list N) :=
  match l with a :: b :: c :: d :: r => Some (le32 a b c d, r) | _ => None end.

Definition rd_u64 (l : list N) : option (N * list N) :=
  match rd_u32 l with
  | Some (lo, r) => match rd_u32 r with
                    | Some (hi, r') => Some (lo + hi * 4294967296, r')
                    | None => None
                    end
  | None => None
  end.

(* Vec<u8> / &[u8]: u64 length, then the bytes *)
Definition rd_bytes (l : list N) : option (list N * list N) :=
  match rd_u64 l with Some (n, r) => splitN r n | None => None end.

(* Option<i32>: u8 tag 0 | 1, then the 32 bits (kept as the unsigned bit pattern) *)
Definition rd_opt32 (l : list N) : option (option N * list N) :=
  match rd_u8 l with
  | Some (t, r) =>
      if t =? 0 then Some (None, r)
      else if t =? 1 then match rd_u32 r with Some (v, r') => Some (Some v, r') | None => None end
      else None
  | None => None
  end.

(* OsString (serde, unix): enum { Unix(Vec<u8>) = 0, Windows(Vec<u16>) = 1 }; Windows is an error here *)
Definition rd_osstring (l : list N) : option (list N * list N) :=
  match rd_u32 l with
  | Some (t, r) => if t =? 0 then rd_bytes r else None
  | None => None
  end.

(* n items; fuel bounds the recursion (every item consumes at least one byte) *)
Fixpoint rd_many {A} (rd : list N -> option (A * list N)) (fuel : nat) (n : N) (l : list N)
  : option (list A * list N) :=
  if n =? 0 then Some ([], l)
  else match fuel with
       | O => None
       | S f => match rd l with
                | Some (a, r) => match rd_many rd f (N.pred n) r with
                                 | Some (xs, r') => Some (a :: xs, r')
                                 | None => None
                                 end
                | None => None
                end
       end.

Definition rd_vec {A} (rd : list N -> option (A * list N)) (l : list N) : option (list A * list N) :=
  match rd_u64 l with Some (n, r) => rd_many rd (length r) n r | None => None end.

Definition rd_pair {A B} (ra : list N -> option (A * list N)) (rb : list N -> option (B * list N))
  (l : list N) : option ((A * B) * list N) :=
  match ra l with
  | Some (a, r) => match rb r with Some (b, r') => Some ((a, b), r') | None => None end
  | None => None
  end.

(* ---------- protocol.rs ---------- *)

Inductive compile_response :=
| CompileStarted
| UnhandledCompile
| UnsupportedCompiler (msg : list N).

Record finished := {
  f_retcode : option N;     (* bit pattern of the i32 *)
  f_signal : option N;
  f_stdout : list N;
  f_stderr : list N;
  f_color : N;              (* ColorMode: 0 Off | 1 On | 2 Auto *)
}.

Inductive response :=
| RCompile (c : compile_response)      (* tag 0 *)
| RZeroStats                           (* tag 1 *)
| ROpaque (tag : N)                    (* tags 2,3,4: Stats, DistStatus, ShuttingDown *)
| RFinished (f : finished).            (* tag 5 *)

Definition decode_finished (r : list N) : option finished :=
  match rd_opt32 r with
  | Some (rc, r1) =>
    match rd_opt32 r1 with
    | Some (sg, r2) =>
      match rd_bytes r2 with
      | Some (so, r3) =>
        match rd_bytes r3 with
        | Some (se, r4) =>
          match rd_u32 r4 with
          | Some (cm, _) =>
              if cm <? 3 then Some {| f_retcode := rc; f_signal := sg; f_stdout := so; f_stderr := se; f_color := cm |}
              else None
          | None => None
          end
        | None => None
        end
      | None => None
      end
    | None => None
    end
  | None => None
  end.

Definition decode_response (opq : N -> list N -> bool) (p : list N) : option response :=
  match rd_u32 p with
  | None => None
  | Some (tag, r) =>
      if tag =? 0 then
        match rd_u32 r with
        | Some (t2, r2) =>
            if t2 =? 0 then Some (RCompile CompileStarted)
            else if t2 =? 1 then Some (RCompile UnhandledCompile)
            else if t2 =? 2 then
              match rd_osstring r2 with
              | Some (m, _) => Some (RCompile (UnsupportedCompiler m))
              | None => None
              end
            else None
        | None => None
        end
      else if tag =? 1 then Some RZeroStats
      else if tag =? 5 then
        match decode_finished r with Some f => Some (RFinished f) | None => None end
      else if tag <? 5 then (if opq tag r then Some (ROpaque tag) else None)
      else None
  end.

(* what the server writes (bincode::serialize), for the two responses of a compile exchange *)
Definition enc_opt32 (o : option N) : list N :=
  match o with None => [0] | Some v => 1 :: enc_le32 v end.
Definition enc_bytes (b : list N) : list N := enc_le64 (blen b) ++ b.

Definition encode_compile_response (c : compile_response) : list N :=
  enc_le32 0 ++
  match c with
  | CompileStarted => enc_le32 0
  | UnhandledCompile => enc_le32 1
  | UnsupportedCompiler m => enc_le32 2 ++ enc_le32 0 ++ enc_bytes m
  end.

Definition encode_finished (f : finished) : list N :=
  enc_le32 5 ++ enc_opt32 (f_retcode f) ++ enc_opt32 (f_signal f) ++
  enc_bytes (f_stdout f) ++ enc_bytes (f_stderr f) ++ enc_le32 (f_color f).

Inductive request :=
| ReqZeroStats | ReqGetStats | ReqDistStatus | ReqShutdown
| ReqCompile (exe cwd : list N) (args : list (list N)) (env : list (list N * list N)).

Definition decode_request (p : list N) : option request :=
  match rd_u32 p with
  | None => None
  | Some (tag, r) =>
      if tag =? 0 then Some ReqZeroStats
      else if tag =? 1 then Some ReqGetStats
      else if tag =? 2 then Some ReqDistStatus
      else if tag =? 3 then Some ReqShutdown
      else if tag =? 4 then
        match rd_osstring r with
        | Some (exe, r1) =>
          match rd_osstring r1 with
          | Some (cwd, r2) =>
            match rd_vec rd_osstring r2 with
            | Some (args, r3) =>
              match rd_vec (rd_pair rd_osstring rd_osstring) r3 with
              | Some (env, _) => Some (ReqCompile exe cwd args env)
              | None => None
              end
            | None => None
            end
          | None => None
          end
        | None => None
        end
      else None
  end.

(* ---------- the client ---------- *)

(* how the response stream ends once its bytes are used up *)
Inductive ending := Eof | Reset | OtherIo.

Inductive read_result :=
| ROk (r : response)
| RHeaderErr (e : ending)     (* read_exact of the 4 length bytes failed: io::Error, with context *)
| RBodyErr (e : ending)       (* read_exact of the payload failed: io::Error *)
| RDecodeErr.                 (* bincode error: NOT an io::Error for downcast_ref *)

(* ServerConnection::read_one_response; returns what is left of the stream *)
Definition read_one (opq : N -> list N -> bool) (bytes : list N) (e : ending) : read_result * list N :=
  match bytes with
  | b0 :: b1 :: b2 :: b3 :: r =>
      match splitN r (be32 b0 b1 b2 b3) with
      | Some (payload, rest) =>
          match decode_response opq payload with
          | Some resp => (ROk resp, rest)
          | None => (RDecodeErr, rest)
          end
      | None => (RBodyErr e, [])
      end
  | _ => (RHeaderErr e, [])
  end.

(* `e.downcast_ref::<io::Error>()` is Some with kind UnexpectedEof *)
Definition is_unexpected_eof (r : read_result) : bool :=
  match r with
  | RHeaderErr Eof | RBodyErr Eof => true
  | _ => false
  end.

Inductive local_reason := LUnhandled | LEofAfterAck | LIgnoredError.
Inductive error_reason := EBeforeAck | EUnexpectedFirst | EUnsupported | EUnexpectedSecond | EAfterAck.

Inductive outcome :=
| ReturnFinished (f : finished)       (* handle_compile_finished on a fully received CompileFinished *)
| RunLocally (w : local_reason)       (* the client spawns the ORIGINAL command and returns its status *)
| SccacheError (w : error_reason).    (* Err(_) out of run_command: exit status 2 *)

(* do_compile = request_compile ; handle_compile_response, on the response stream of one connection.
   ignore_io = (SCCACHE_IGNORE_SERVER_IO_ERROR == "1") *)
Definition client (opq : N -> list N -> bool) (ignore_io : bool) (bytes : list N) (e : ending) : outcome :=
  match read_one opq bytes e with
  | (ROk (RCompile CompileStarted), rest) =>
      match read_one opq rest e with
      | (ROk (RFinished f), _) => ReturnFinished f
      | (ROk _, _) => SccacheError EUnexpectedSecond
      | (r, _) =>
          if is_unexpected_eof r then RunLocally LEofAfterAck
          else if ignore_io then RunLocally LIgnoredError
          else SccacheError EAfterAck
      end
  | (ROk (RCompile UnhandledCompile), _) => RunLocally LUnhandled
  | (ROk (RCompile (UnsupportedCompiler _)), _) => SccacheError EUnsupported
  | (ROk _, _) => SccacheError EUnexpectedFirst
  | (_, _) => SccacheError EBeforeAck
  end.

(* handle_compile_finished's return value as a process exit status (exit(i32) keeps the low 8 bits) *)
Definition finished_exit (f : finished) : N :=
  match f_retcode f with
  | Some r => r mod 256
  | None => match f_signal f with
            | Some _ => 254     (* -2 *)
            | None => 253       (* -3 *)
            end
  end.

(* local = exit status of the original command when the client runs it itself
   (status.code(), or 2 when it was killed by a signal) *)
Definition exit_code (o : outcome) (local : N) : N :=
  match o with
  | ReturnFinished f => finished_exit f
  | RunLocally _ => local
  | SccacheError _ => 2
  end.

Definition ran_locally (o : outcome) : bool :=
  match o with RunLocally _ => true | _ => false end.

(* ---------- the server's per-connection decoder ---------- *)

Inductive close_reason := FrameTooBig | BadMessage.

Inductive dstate :=
| Head (got : list N)                 (* fewer than 4 length bytes so far *)
| Data (need : N) (got_rev : list N)  (* need > 0 more payload bytes; payload so far, reversed *)
| Closed (why : close_reason).

Record conn := {
  c_state : dstate;
  c_reqs : list request;              (* requests handed to the service, newest first *)
}.

Definition conn_init : conn := {| c_state := Head []; c_reqs := [] |}.

Definition on_frame (c : conn) (payload : list N) : conn :=
  match decode_request payload with
  | Some rq => {| c_state := Head []; c_reqs := rq :: c_reqs c |}
  | None => {| c_state := Closed BadMessage; c_reqs := c_reqs c |}
  end.

Definition step_byte (cap : N) (c : conn) (b : N) : conn :=
  match c_state c with
  | Closed _ => c
  | Head [b0; b1; b2] =>
      let n := be32 b0 b1 b2 b in
      if cap <? n then {| c_state := Closed FrameTooBig; c_reqs := c_reqs c |}
      else if n =? 0 then on_frame c []
      else {| c_state := Data n []; c_reqs := c_reqs c |}
  | Head got => {| c_state := Head (got ++ [b]); c_reqs := c_reqs c |}
  | Data need got =>
      if need =? 1 then on_frame c (rev (b :: got))
      else {| c_state := Data (N.pred need) (b :: got); c_reqs := c_reqs c |}
  end.

Definition feed (cap : N) (c : conn) (chunk : list N) : conn := fold_left (step_byte cap) chunk c.

Definition conn_closed (c : conn) : bool :=
  match c_state c with Closed _ => true | _ => false end.

Definition is_shutdown (r : request) : bool :=
  match r with ReqShutdown => true | _ => false end.

(* ---------- the server: connections by id, bytes arriving in any interleaving ---------- *)

Definition srv := list (N * conn).

Fixpoint srv_get (s : srv) (id : N) : conn :=
  match s with
  | [] => conn_init
  | (i, c) :: r => if i =? id then c else srv_get r id
  end.

Fixpoint srv_set (s : srv) (id : N) (c : conn) : srv :=
  match s with
  | [] => [(id, c)]
  | (i, c') :: r => if i =? id then (i, c) :: r else (i, c') :: srv_set r id c
  end.

(* one event: `chunk` arrives on connection `id` *)
Definition srv_step (cap : N) (s : srv) (ev : N * list N) : srv :=
  srv_set s (fst ev) (feed cap (srv_get s (fst ev)) (snd ev)).

Definition srv_run (cap : N) (evs : list (N * list N)) : srv := fold_left (srv_step cap) evs [].

(* the accept loop ends only through the Shutdown RPC (idle time-outs and signals are outside this model) *)
Definition srv_shutdown (s : srv) : bool :=
  existsb (fun ic => existsb is_shutdown (c_reqs (snd ic))) s.

(* ---------- declarative framing, for the statements ---------- *)

(* no complete frame and no oversized header at the front: the decoder waits for more *)
Definition incomplete (cap : N) (l : list N) : bool :=
  match l with
  | b0 :: b1 :: b2 :: b3 :: r =>
      let n := be32 b0 b1 b2 b3 in
      negb (cap <? n) && (blen r <? n)
  | _ => true
  end.

Definition oversized (cap : N) (l : list N) : bool :=
  match l with
  | b0 :: b1 :: b2 :: b3 :: _ => cap <? be32 b0 b1 b2 b3
  | _ => false
  end.

Definition bytes_ok (l : list N) : bool := forallb (fun b => b <? 256) l.

(* `l` starts with one complete length-prefixed frame carrying `p`, followed by `rest` *)
Definition framed (l p rest : list N) : Prop :=
  exists b0 b1 b2 b3, l = b0 :: b1 :: b2 :: b3 :: p ++ rest /\ be32 b0 b1 b2 b3 = blen p.

(* the client's view (no cap): fewer than 4 header bytes, or fewer payload bytes than the header announces *)
Definition cut_short (l : list N) : bool :=
  match l with
  | b0 :: b1 :: b2 :: b3 :: r => blen r <? be32 b0 b1 b2 b3
  | _ => true
  end.

(* a frame on the wire as (header, payload) *)
Definition wframe := (list N * list N)%type.
Definition wire (f : wframe) : list N := fst f ++ snd f.
Definition wf_wframe (cap : N) (f : wframe) : Prop :=
  exists b0 b1 b2 b3, fst f = [b0; b1; b2; b3] /\ be32 b0 b1 b2 b3 = blen (snd f) /\ blen (snd f) <= cap.
Definition flat (fs : list wframe) : list N := concat (map wire fs).

(* the bytes connection `id` received, in arrival order *)
Definition conn_bytes (evs : list (N * list N)) (id : N) : list N :=
  concat (map snd (filter (fun ev => fst ev =? id) evs)).

(* ================================================================================================
   Before a connection exists: commands.rs `connect_or_start_server` + client.rs `connect_with_retry`
   ("if no server is running the client starts one and proceeds").

     connect_to_server(addr)
       Ok                                   -> use it
       Err ConnectionRefused | TimedOut | (NotFound on a unix path)
                                            -> run_server_process(), then by its ServerStartup report:
            Ok { addr' }      addr' = addr  -> connect_with_retry
                              addr' <> addr -> bail ("Listening on address .. instead of ..")
            AddrInUse                       -> NOT an error: another client's server won the port
                                               ("possible parallel server bootstraps, retrying..") -> connect_with_retry
            TimedOut                        -> bail
            Err { reason }                  -> bail
          (run_server_process itself failing: `?`)
       Err anything else                    -> that error
     connect_with_retry: retry(Fixed(500ms).take(10), connect_to_server) = the first try plus one per
     delay = at most 11 tries; ANY connect error is retried; exhausted -> TimedOut error.            *)

Inductive conn_attempt := AOk | ARefused | AOtherErr.

Inductive startup_report :=
| SOk (same_addr : bool)
| SAddrInUse
| STimedOut
| SErr
| SSpawnErr.                  (* run_server_process returned Err (spawn / bind of the notify socket failed) *)

Inductive start_error :=
| EConnectFailed | EWrongAddr | EStartTimedOut | EStartFailed | ESpawnFailed | ERetryExhausted.

Definition retry_budget : nat := 11.

Definition attempt_ok (a : conn_attempt) : bool := match a with AOk => true | _ => false end.

(* `later` = what each successive connect attempt meets, in order *)
Definition connect_with_retry (later : list conn_attempt) : bool :=
  existsb attempt_ok (firstn retry_budget later).

(* None = a ServerConnection was obtained *)
Definition connect_or_start (first : conn_attempt) (rep : startup_report) (later : list conn_attempt)
  : option start_error :=
  match first with
  | AOk => None
  | AOtherErr => Some EConnectFailed
  | ARefused =>
      match rep with
      | SOk true | SAddrInUse => if connect_with_retry later then None else Some ERetryExhausted
      | SOk false => Some EWrongAddr
      | STimedOut => Some EStartTimedOut
      | SErr => Some EStartFailed
      | SSpawnErr => Some ESpawnFailed
      end
  end.

(* the whole `sccache <compiler> ...` process: obtain a connection, then do_compile on it *)
Inductive process_outcome :=
| PStartError (e : start_error)        (* Err out of run_command before any request: exit 2 *)
| PCompile (o : outcome).

Definition compile_process (opq : N -> list N -> bool) (ignore_io : bool)
  (first : conn_attempt) (rep : startup_report) (later : list conn_attempt)
  (bytes : list N) (e : ending) : process_outcome :=
  match connect_or_start first rep later with
  | Some err => PStartError err
  | None => PCompile (client opq ignore_io bytes e)
  end.

Definition process_exit (p : process_outcome) (local : N) : N :=
  match p with
  | PStartError _ => 2
  | PCompile o => exit_code o local
  end.

(* ================================================================================================
   server.rs `SccacheService::compiler_info`: the map of detected compilers is SHARED by all
   connections.  A request names a compiler path; the probe that detects the compiler runs with the
   REQUEST's environment / working directory, so whether it succeeds is a fact about the request
   (`q_probe_ok`), not about the path.  The map records `Some(entry)` (with the executable's mtime) after
   a successful probe and `None` after a failed one; a lookup is a hit only for `Some(entry)` with the
   current mtime — `None` entries are never answered from, the probe runs again.                   *)

Record compile_req := {
  q_path : list N;
  q_mtime : N;            (* mtime of the executable when the request arrives *)
  q_probe_ok : bool;      (* does detection succeed when run on behalf of THIS request *)
}.

Definition compilers := list (list N * option N).       (* path -> None | Some mtime *)

Fixpoint path_eqb (a b : list N) : bool :=
  match a, b with
  | [], [] => true
  | x :: a', y :: b' => (x =? y) && path_eqb a' b'
  | _, _ => false
  end.

Fixpoint cm_get (m : compilers) (p : list N) : option (option N) :=
  match m with
  | [] => None
  | (k, v) :: r => if path_eqb k p then Some v else cm_get r p
  end.

Definition cm_set (m : compilers) (p : list N) (v : option N) : compilers := (p, v) :: m.

(* true = the request is served (CompileStarted / UnhandledCompile follow from parse_arguments);
   false = Response::Compile(UnsupportedCompiler) *)
Definition compiler_info (m : compilers) (q : compile_req) : bool * compilers :=
  let probe := if q_probe_ok q then (true, cm_set m (q_path q) (Some (q_mtime q)))
               else (false, cm_set m (q_path q) None) in
  match cm_get m (q_path q) with
  | Some (Some mt) => if mt =? q_mtime q then (true, m) else probe
  | _ => probe
  end.

(* requests from any connections, in the order the service handles them *)
Fixpoint serve_all (m : compilers) (qs : list compile_req) : list bool * compilers :=
  match qs with
  | [] => ([], m)
  | q :: r => let '(a, m1) := compiler_info m q in
              let '(as_, m2) := serve_all m1 r in (a :: as_, m2)
  end.

(* ================================================================================================
   Which address the spawned server reports (server.rs `start_server`, net.rs `SocketAddr`).
   The client names the server by SCCACHE_SERVER_PORT or SCCACHE_SERVER_UDS (a path, spelled any way the
   user likes: through symlinked directories, with `..`, `.`, doubled separators; or an abstract name).
   start_server binds EXACTLY the address it was given (TcpListener::bind(addr), UnixListener::bind(path):
   no resolution of the path) and reports `local_addr()` rendered with Display — for a path socket the
   kernel hands back the sun_path it was given.  The client compares that rendering with the rendering of
   the address it asked for, as strings.                                                             *)

Inductive saddr :=
| TcpPort (port : N)
| UdsPath (path : list N)          (* the bytes of SCCACHE_SERVER_UDS, as spelled *)
| UdsAbstract (name : list N).

(* Display for SocketAddr; only its being a function of the address value matters here *)
Definition addr_string (a : saddr) : list N :=
  match a with
  | TcpPort p => [49; 50; 55; 46; 48; 46; 48; 46; 49; 58; p]      (* "127.0.0.1:" port *)
  | UdsPath p => p
  | UdsAbstract n => [92; 120; 48; 48] ++ n                        (* "\x00" name *)
  end.

(* the address the server binds for a requested one: the same value, not a normalised one *)
Definition server_binds (requested : saddr) : saddr := requested.

(* ServerStartup::Ok { addr: local_addr().to_string() } as judged by `addr.to_string() != actual_addr` *)
Definition report_of_started_server (requested : saddr) : startup_report :=
  SOk (path_eqb (addr_string requested) (addr_string (server_binds requested))).

(* ================================================================================================
   The client's ENVIRONMENT at a cold start (commands.rs `run_server_process`).  The only directory the
   client itself needs is the one for the start-up rendezvous socket (SCCACHE_STARTUP_NOTIFY):
   `tempfile::Builder::new().prefix("sccache").tempdir()`, i.e. a fresh directory in env::temp_dir()
   ($TMPDIR, else /tmp).  XDG_RUNTIME_DIR and HOME are not consulted: stale or unwritable values of them
   (after su / sudo -u / an ended login session) do not matter.  If the temporary directory itself is
   unusable the `?` makes the whole command fail (SSpawnErr): exit 2, never a false success.           *)

Inductive dir_state := DirUsable | DirUnusable.

Record client_env := {
  e_tmpdir : option dir_state;          (* None = unset: /tmp, taken to be usable *)
  e_xdg_runtime : option dir_state;
  e_home : option dir_state;
}.

Definition rendezvous_ok (e : client_env) : bool :=
  match e_tmpdir e with Some DirUnusable => false | _ => true end.

(* what the client learns from run_server_process, given what the spawned server would report *)
Definition spawn_report (e : client_env) (rep : startup_report) : startup_report :=
  if rendezvous_ok e then rep else SSpawnErr.

(* ================================================================================================
   The size of a result (server.rs: the response sink is the same LengthDelimitedCodec, so a
   CompileFinished whose encoding exceeds max_frame_length cannot be written: the sink errors, the
   connection task ends, the socket is dropped — AFTER CompileStarted went out).  The server never edits a
   result to make it fit: the client gets the whole CompileFinished or none.                          *)

Definition server_reply (cap : N) (f : finished) : list N :=
  frame (encode_compile_response CompileStarted) ++
  (if blen (encode_finished f) <=? cap then frame (encode_finished f) else []).

(* ================================================================================================
   What "the client runs the original command itself" is (commands.rs handle_compile_response, the code
   after the match): `creator.new_command_sync(exe).args(cmdline).current_dir(cwd)` spawned and waited
   for — the child INHERITS the client's whole environment (not the filtered `env_vars` that were put
   into the request: cmdline.rs drops SOURCE_DATE_EPOCH, PWD, LD_PRELOAD, ...) and the client's own
   stdin/stdout/stderr (no pipes, no post-processing such as stripping colour escapes).               *)

Definition env_list := list (list N * list N).

Record local_run := {
  lr_env : env_list;            (* environment of the compiler process *)
  lr_stdio_inherited : bool;    (* the compiler writes to the client's own stdout / stderr *)
}.

Definition fallback_run (client_env sent_env : env_list) : local_run :=
  {| lr_env := client_env; lr_stdio_inherited := true |}.

(* ================================================================================================
   Who owns a Unix socket PATH (server.rs start_server): a starting server unlinks whatever is at the
   path and binds it (under the path's lock); a server that exits — after --stop-server and its drain —
   does NOT touch the path.  So the path always leads to the server that bound it last.             *)

Inductive sock_event := SBind (server : N) | SExit (server : N).

Definition sock_step (owner : option N) (ev : sock_event) : option N :=
  match ev with
  | SBind s => Some s
  | SExit _ => owner
  end.

Definition sock_owner (evs : list sock_event) : option N := fold_left sock_step evs None.

Fixpoint last_bind (evs : list sock_event) (acc : option N) : option N :=
  match evs with
  | [] => acc
  | SBind s :: r => last_bind r (Some s)
  | SExit _ :: r => last_bind r acc
  end.
