(* LruLazy.v — the lazily opened disk cache (LazyDiskCache in src/cache/disk.rs) over Model/LruPut.v:
     Uninit { root, max_size }   --get_or_init-->   Init(LruDiskCache::new(&root, max_size)?)
   The open happens on the first request and may FAIL (the directory cannot be created: parent not mounted /
   not writable yet, something in the way, disk full); the `?` then returns the error to that request and the
   state stays as it was, so the next request retries the open on the SAME configured root.
   The open fault is an oracle: [ofail = true] = this request's open attempt (if one is made) fails. *)
From Coq Require Import List NArith Bool.
From Sccache Require Import Base.Sx Model.Lru Model.LruPut.
Import ListNotations.
Local Open Scope N_scope.

(* [dir] = what is on disk under the configured root while the cache is not open *)
Inductive lazy :=
| LUninit (root : list N) (c : N) (dir : st)
| LInit (root : list N) (s : st).

Definition lazy_root (l : lazy) : list N :=
  match l with LUninit r _ _ => r | LInit r _ => r end.

(* LazyDiskCache::get_or_init *)
Definition get_or_init (l : lazy) (ofail : bool) : lazy * bool :=
  match l with
  | LUninit root c dir => if ofail then (l, false) else (LInit root (reopen dir c), true)
  | LInit _ _ => (l, true)
  end.

Inductive lop :=
| LPut (k : key) (n : N) (wfault : option N) (ofail : bool)
| LGet (k : key) (ofail : bool).

Inductive lout := LOpenErr | LD (o : dout).

Definition lop_dop (o : lop) : dop * bool :=
  match o with
  | LPut k n wf f => (DPut k n wf, f)
  | LGet k f => (DGet k, f)
  end.

(* DiskCache::get / put: `lru.lock().unwrap().get_or_init()?` first, then the request *)
Definition lstep (l : lazy) (o : lop) : lazy * lout :=
  let '(d, f) := lop_dop o in
  let '(l1, ok) := get_or_init l f in
  if ok then
    match l1 with
    | LInit root s => let '(s', x) := dstep s d in (LInit root s', LD x)
    | LUninit _ _ _ => (l1, LOpenErr)
    end
  else (l1, LOpenErr).

Definition lrun (l : lazy) (ops : list lop) : lazy := fold_left (fun l o => fst (lstep l o)) ops l.

Fixpoint ltrace (l : lazy) (ops : list lop) : list (lout * lazy) :=
  match ops with
  | [] => []
  | o :: r => let '(l', x) := lstep l o in (x, l') :: ltrace l' r
  end.
