(* Model/ArgsInst.v — Model/Args.v instantiated with the tables generated from the repository working tree. *)
From Sccache Require Import Base.Sx Model.ArgTypes Model.Args Gen.C01ArgTables.

Definition the_tables : tables := {|
  t_gcc := gcc_args; t_clang := clang_args; t_main_dest := main_dest; t_x_dest := xclang_dest;
  t_xlang := x_lang_table; t_ext := ext_lang_table; t_lang_gcc := language_to_gcc_arg;
  t_lang_clang := language_to_clang_arg; t_arch_flag := arch_flag; t_expand_limit := expand_limit;
  t_rsp_literal := rsp_literal_chars |}.
