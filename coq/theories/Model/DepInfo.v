(* DepInfo.v — executable model of how sccache reads rustc's `--emit dep-info` output
   (src/compiler/rust.rs: parse_dep_info, parse_env_dep_info), and of the text rustc writes.

   Modelled literally:
     - `str::lines`: pieces end at '\n'; a piece that ended at '\n' also loses one trailing '\r'; a last piece
       without '\n' is kept as it is; an empty text has no lines;
     - parse_dep_info: only the FIRST line; everything after the first ": " (colon, space); the character loop
       with `current_dep`: "\ " is a space inside a name, any other '\' is kept, ' ' ends a name (also an empty
       one), the end of the line ends a name only if it is not empty; every name is joined to `cwd`
       (PathBuf::join) and the vector is sorted with Ord for PathBuf (no dedup);
     - parse_env_dep_info (the FIXED code): every line that starts with "# env-dep:"; the rest is split at
       the first '='; `VAR=value` gives (VAR, Some value), `VAR` alone gives (VAR, None)  — the unfixed code
       returned (VAR, "") for both `VAR` and `VAR=` (finding S13);
       [parse_env_dep_info_old] keeps the old behaviour for the refutation witness.

   The text is a byte string; the real functions take &str and work on chars, but every delimiter is ASCII, so on
   valid UTF-8 (read_to_string guarantees it) the byte-wise model is the same function. *)
From Coq Require Import List NArith Bool.
From Sccache Require Import Base.Sx Model.RustPath.
Import ListNotations.
Local Open Scope N_scope.

Definition NL : N := 10.
Definition CR : N := 13.
Definition SP : N := 32.
Definition BSL : N := 92.
Definition COLON : N := 58.
Definition EQS : N := 61.

(* ---------- str::lines ---------- *)

(* split_inclusive('\n'): (piece without its '\n', did it end with '\n') *)
Fixpoint pieces (s : bytes) : list (bytes * bool) :=
  match s with
  | [] => []
  | c :: r =>
      if c =? NL then ([], true) :: pieces r
      else match pieces r with
           | [] => [([c], false)]
           | (l, t) :: more => (c :: l, t) :: more
           end
  end.

Fixpoint strip_cr (l : bytes) : bytes :=
  match l with
  | [] => []
  | [c] => if c =? CR then [] else [c]
  | c :: r => c :: strip_cr r
  end.

Definition lines (s : bytes) : list bytes :=
  map (fun p : bytes * bool => if snd p then strip_cr (fst p) else fst p) (pieces s).

(* ---------- parse_dep_info ---------- *)

(* line[pos + 2..] for the first pos with line[pos..pos+2] = ": " *)
Fixpoint after_colon_space (l : bytes) : option bytes :=
  match l with
  | a :: ((b :: r) as t) => if (a =? COLON) && (b =? SP) then Some r else after_colon_space t
  | _ => None
  end.

Fixpoint split_deps (cur : bytes) (s : bytes) : list bytes :=
  match s with
  | [] => match cur with [] => [] | _ => [cur] end
  | c :: r =>
      if c =? BSL then
        match r with
        | d :: r' => if d =? SP then split_deps (cur ++ [SP]) r' else split_deps (cur ++ [BSL]) r
        | [] => split_deps (cur ++ [BSL]) r
        end
      else if c =? SP then cur :: split_deps [] r
      else split_deps (cur ++ [c]) r
  end.

Definition parse_dep_info (text cwd : bytes) : list bytes :=
  match lines text with
  | [] => []
  | line :: _ =>
      match after_colon_space line with
      | None => []
      | Some rest => sort_paths (map (path_join cwd) (split_deps [] rest))
      end
  end.

(* ---------- parse_env_dep_info ---------- *)

Definition env_dep_prefix : bytes := [35; 32; 101; 110; 118; 45; 100; 101; 112; 58].  (* "# env-dep:" *)

Fixpoint strip_prefix (p s : bytes) : option bytes :=
  match p, s with
  | [], _ => Some s
  | x :: p', y :: s' => if x =? y then strip_prefix p' s' else None
  | _ :: _, [] => None
  end.

(* splitn(2, '=') *)
Fixpoint split_eq (s : bytes) : bytes * option bytes :=
  match s with
  | [] => ([], None)
  | c :: r =>
      if c =? EQS then ([], Some r)
      else let '(a, b) := split_eq r in (c :: a, b)
  end.

Definition env_dep_of_line (line : bytes) : list (bytes * option bytes) :=
  match strip_prefix env_dep_prefix line with
  | Some rest => [split_eq rest]
  | None => []
  end.

Definition parse_env_dep_info (text : bytes) : list (bytes * option bytes) :=
  flat_map env_dep_of_line (lines text).

(* the code before the fix: an unset variable was given the value "" *)
Definition parse_env_dep_info_old (text : bytes) : list (bytes * bytes) :=
  map (fun kv => (fst kv, match snd kv with Some v => v | None => [] end)) (parse_env_dep_info text).

(* ---------- what rustc writes (rustc_interface::passes::write_out_deps) ---------- *)

(* escape_dep_filename: only spaces are escaped *)
Fixpoint escape_name (s : bytes) : bytes :=
  match s with
  | [] => []
  | c :: r => if c =? SP then BSL :: SP :: escape_name r else c :: escape_name r
  end.

(* escape_dep_env: '\n' -> "\n" (two characters), '\r' -> "\r", '\' -> "\\" *)
Fixpoint escape_env (s : bytes) : bytes :=
  match s with
  | [] => []
  | c :: r =>
      if c =? NL then BSL :: 110 :: escape_env r
      else if c =? CR then BSL :: 114 :: escape_env r
      else if c =? BSL then BSL :: BSL :: escape_env r
      else c :: escape_env r
  end.

Fixpoint join_sp (l : list bytes) : bytes :=
  match l with
  | [] => []
  | [x] => x
  | x :: r => x ++ [SP] ++ join_sp r
  end.

(* one `target: dep dep ...` rule followed by the blank line rustc puts after it *)
Definition print_rule (target : bytes) (fs : list bytes) : bytes :=
  escape_name target ++ [COLON; SP] ++ join_sp (map escape_name fs) ++ [NL; NL].

(* the phony `dep:` rule for every source file *)
Definition print_phony (f : bytes) : bytes := escape_name f ++ [COLON; NL].

Definition print_env_dep (kv : bytes * option bytes) : bytes :=
  env_dep_prefix ++ escape_env (fst kv) ++
  match snd kv with Some v => [EQS] ++ escape_env v | None => [] end ++ [NL].

Definition print_env_deps (l : list (bytes * option bytes)) : bytes :=
  match l with
  | [] => []
  | _ => [NL] ++ flat_map print_env_dep l
  end.

Definition print_dep_info (targets fs : list bytes) (envs : list (bytes * option bytes)) : bytes :=
  flat_map (fun t => print_rule t fs) targets ++ flat_map print_phony fs ++ print_env_deps envs.

(* what sccache gets back for an env-dep: rustc's escaping is not undone (it is injective, see Proofs) *)
Definition escape_env_dep (kv : bytes * option bytes) : bytes * option bytes :=
  (escape_env (fst kv), option_map escape_env (snd kv)).

(* ---------- well-formedness of the names rustc prints ---------- *)

Definition no_byte (b : N) (s : bytes) : bool := forallb (fun c => negb (c =? b)) s.

Definition last_byte (s : bytes) : option N :=
  match rev s with c :: _ => Some c | [] => None end.

(* a source path as rustc can print it unambiguously: not empty, no newline, and the last character is neither
   '\' (it would fuse with the separating space) nor '\r' (str::lines would strip it at the end of the line) *)
Definition dep_path_ok (p : bytes) : bool :=
  match last_byte p with
  | None => false
  | Some c => no_byte NL p && negb (c =? BSL) && negb (c =? CR)
  end.

Definition target_ok (t : bytes) : bool := no_byte NL t.

(* a variable name cannot contain '=' *)
Definition env_name_ok (kv : bytes * option bytes) : bool := no_byte EQS (fst kv).
