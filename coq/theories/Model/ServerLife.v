(* ServerLife.v — executable model of one sccache server's life cycle after start-up:
   idle timer, stop request, shutdown phase with its cap.

   Anchors: src/server.rs
     SccacheServer::run          select!{ accept loop, ShutdownOrInactive } ; then
                                 time::timeout(SHUTDOWN_TIMEOUT = 10 s, WaitUntilZero) ; then exit
     ShutdownOrInactive::poll    drain the message channel IN ORDER: Shutdown => ready at once;
                                 Request => timeout = sleep(timeout_dur) (a NEW deadline = now + T,
                                 unless T = 0: idle shutdown disabled); then poll the timer
     Service::call               start_send(ServerMessage::Request) on EVERY received request, before
                                 the request is handled; Request::Shutdown then sends Shutdown
     WaitUntilZero / ActiveInfo  every accepted connection's task owns a clone until the client
                                 closes the connection; ready when all are gone
   When run() leaves the select! the listener and the channel receiver are dropped: no new
   connections, later messages are discarded.  Connections that are still open when the cap
   expires are cut when the process exits (their clients see EOF: property C11).

   Time is an abstract clock (`LTick d`); the main future is polled at `LPoll` (serving) and
   `LWake` (shutdown phase) events, which a trace may place anywhere: a late poll is allowed,
   an early effect is not.  `llast_recv` is a history variable (never read by the steps).  *)
From Coq Require Import List NArith Bool.
Import ListNotations.
Local Open Scope N_scope.

Inductive reason := RIdle | RStop.

Inductive phase :=
| Serving
| Draining (since : N) (r : reason)
| Terminated (since fin : N) (r : reason) (cut : list (N * bool)).

Inductive msg := MRequest | MShutdown.

Inductive levent :=
| LTick (d : N)
| LAccept (c : N)
| LRequest (c : N) (stop : bool)   (* a request arrives on connection c *)
| LFinish (c : N)                  (* its response has been written *)
| LClose (c : N)                   (* the client closes connection c *)
| LPoll                            (* ShutdownOrInactive is polled *)
| LWake.                           (* the shutdown-phase wait is polled *)

Record lst := lmk {
  ltimeout : N;                 (* T, 0 = never idle out *)
  lcap : N;                     (* SHUTDOWN_TIMEOUT *)
  lnow : N;
  lphase : phase;
  ldeadline : option N;
  lqueue : list msg;
  lconns : list (N * bool);     (* open connections: id, request in flight *)
  llast_recv : N;               (* history: time of the last request received while serving (0 = start) *)
}.

Definition linit (t cap : N) : lst :=
  lmk t cap 0 Serving (if t =? 0 then None else Some t) [] [] 0.

Fixpoint has_conn (c : N) (l : list (N * bool)) : bool :=
  match l with
  | [] => false
  | (c', _) :: r => (c =? c') || has_conn c r
  end.

Fixpoint set_busy (c : N) (b : bool) (l : list (N * bool)) : list (N * bool) :=
  match l with
  | [] => []
  | (c', b') :: r => if c =? c' then (c', b) :: set_busy c b r else (c', b') :: set_busy c b r
  end.

Fixpoint del_conn (c : N) (l : list (N * bool)) : list (N * bool) :=
  match l with
  | [] => []
  | (c', b') :: r => if c =? c' then del_conn c r else (c', b') :: del_conn c r
  end.

(* the message loop of ShutdownOrInactive::poll: Some d' = still serving with deadline d';
   None = a Shutdown message was found *)
Fixpoint drain_queue (t now : N) (d : option N) (q : list msg) : option (option N) :=
  match q with
  | [] => Some d
  | MShutdown :: _ => None
  | MRequest :: r => drain_queue t now (if t =? 0 then d else Some (now + t)) r
  end.

Definition expired (d : option N) (now : N) : bool :=
  match d with Some x => x <=? now | None => false end.

Definition with_phase (s : lst) p := lmk (ltimeout s) (lcap s) (lnow s) p (ldeadline s) (lqueue s) (lconns s) (llast_recv s).
Definition with_conns (s : lst) l := lmk (ltimeout s) (lcap s) (lnow s) (lphase s) (ldeadline s) (lqueue s) l (llast_recv s).

Definition lstep (s : lst) (e : levent) : lst :=
  match e with
  | LTick d => lmk (ltimeout s) (lcap s) (lnow s + d) (lphase s) (ldeadline s) (lqueue s) (lconns s) (llast_recv s)
  | LAccept c =>
      match lphase s with
      | Serving => if has_conn c (lconns s) then s else with_conns s (lconns s ++ [(c, false)])
      | _ => s
      end
  | LRequest c stop =>
      if has_conn c (lconns s) then
        match lphase s with
        | Serving =>
            lmk (ltimeout s) (lcap s) (lnow s) Serving (ldeadline s)
                (lqueue s ++ MRequest :: (if stop then [MShutdown] else []))
                (set_busy c true (lconns s)) (lnow s)
        | Draining _ _ => with_conns s (set_busy c true (lconns s))   (* handled, but nobody listens to the channel *)
        | Terminated _ _ _ _ => s
        end
      else s
  | LFinish c => with_conns s (set_busy c false (lconns s))
  | LClose c => with_conns s (del_conn c (lconns s))
  | LPoll =>
      match lphase s with
      | Serving =>
          match drain_queue (ltimeout s) (lnow s) (ldeadline s) (lqueue s) with
          | None => lmk (ltimeout s) (lcap s) (lnow s) (Draining (lnow s) RStop) (ldeadline s) [] (lconns s) (llast_recv s)
          | Some d =>
              if expired d (lnow s)
              then lmk (ltimeout s) (lcap s) (lnow s) (Draining (lnow s) RIdle) d [] (lconns s) (llast_recv s)
              else lmk (ltimeout s) (lcap s) (lnow s) Serving d [] (lconns s) (llast_recv s)
          end
      | _ => s
      end
  | LWake =>
      match lphase s with
      | Draining since r =>
          match lconns s with
          | [] => with_phase s (Terminated since (lnow s) r [])
          | _ :: _ =>
              if since + lcap s <=? lnow s
              then lmk (ltimeout s) (lcap s) (lnow s) (Terminated since (lnow s) r (lconns s)) (ldeadline s) (lqueue s) [] (llast_recv s)
              else s
          end
      | _ => s
      end
  end.

Definition lexec (s : lst) (evs : list levent) : lst := fold_left lstep evs s.

(* ---------- prompt polling: the runtime polls the main future as soon as a message is queued
   or the timer fires, and the clock never runs past a pending wake-up ---------- *)

Definition must_poll (s : lst) : bool :=
  match lphase s with
  | Serving => negb (match lqueue s with [] => true | _ => false end) || expired (ldeadline s) (lnow s)
  | _ => false
  end.

Definition event_prompt (s : lst) (e : levent) : bool :=
  if must_poll s then match e with LPoll => true | _ => false end
  else match e, lphase s, ldeadline s with
       | LTick d, Serving, Some x => lnow s + d <=? x
       | _, _, _ => true
       end.

Fixpoint prompt (s : lst) (evs : list levent) : bool :=
  match evs with
  | [] => true
  | e :: r => event_prompt s e && prompt (lstep s e) r
  end.
