(* CompilerCache.v — executable model of the server's memoised compiler detection
   (src/server.rs `SccacheService::compiler_info`, the `compilers` map and its
   mtime re-validation) together with what a compile request does with the
   detected compiler (src/compiler/c.rs: `CCompiler::new` digests the executable,
   `parse_arguments` copies `executable` + `executable_digest` into the hasher,
   `hash_key` starts with the digest; src/compiler/compiler.rs
   `get_cached_or_compile`: preprocess with the remembered executable, look the key
   up, on a miss run the remembered executable and store).

   World
     path   = (directory id, file name id).  Directories are plain (never links).
     node   = regular file (bytes id, mtime) | symbolic link to a path.
     fs     = association list path -> node (first match wins).
     `resolve` follows final-component links with the kernel's limit of 40; it is
     what both `std::fs::metadata` (mtime) and `Path::canonicalize` (path) see, and
     what exec/open see (bytes).

   Server state
     comps  = the `compilers` map.  Key: see `ckey`.  Value `None` = "detection
              failed" (inserted, never used as a hit: the lookup treats it as absent,
              exactly like the `_ => None` arm), `Some entry` with
                ce_exe   the path the detected `Compiler` will EXECUTE (the path the
                         detection was asked for: `path1` in compiler_info),
                ce_id    its `executable_digest` = digest(bytes ++ version),
                ce_mtime the mtime recorded at detection.
     results = the result cache: key -> bytes id of the binary that produced the
              stored object.  No eviction (C07 is about eviction).

   `compiler_info`, literally, in the order of the code:
     1. compiler_proxies lookup — only rustup registers proxies (for rustc); on the
        C/C++ path the map stays empty, so `resolved_with_proxy = None`.  Left out.
     2. metadata(path): failure = `Err("cannot stat compiler ..")` returned at once, i.e. the
        request is answered "unsupported compiler"; nothing is changed, nothing is detected,
        nothing is inserted (not even the negative entry).
     3. canonicalize, kept only if the file name is unchanged ("clang multicall").
     4. dist_info: no dist client here, always None.  Left out.
     5. lookup; hit iff the entry's mtime equals the current one; else
     6. detect through the REQUESTED path (digest of the bytes now there): failure
        inserts None and answers "unsupported compiler"; success inserts the entry.

   The detection is NOT atomic (see "THE WINDOW" below): the mtime is read first, then
   the probe runs, then the executable is hashed, then the entry is recorded; the
   environment may change the file system while the probe runs (`CompileW p src env`).
   `variant` selects the code shape: VFixed (all C12 fixes), VAsFound (no re-stat after
   the detection), VLegacy (keyed by the resolved path only), VEarlyLate (digest first,
   mtime last).  Gen/C12Window.v (translator/c12_window.py) says which one the tree is.

   External functions are parameters: `detect` (bytes id -> identity digest, None =
   not recognisable as a compiler; a binary that is not recognisable also fails to
   preprocess) and `H` (identity, source -> result key).

   Not modelled: changes of the file system between the digest read, the re-stat and
   the preprocessor / compiler runs of the SAME request (one injection point per
   request: while the probe runs); links in directory components; rustup proxies; the
   dist toolchain archive; eviction from the result cache; two requests in flight at
   the same time. *)
From Coq Require Import List NArith Bool.
Import ListNotations.
Local Open Scope N_scope.

Definition path := (N * N)%type.
Definition path_eqb (a b : path) : bool := (fst a =? fst b) && (snd a =? snd b).

Inductive node :=
| File (bytes mtime : N)
| Link (target : path).

Definition fs := list (path * node).

Fixpoint flookup (p : path) (f : fs) : option node :=
  match f with
  | [] => None
  | (q, n) :: r => if path_eqb p q then Some n else flookup p r
  end.

Fixpoint fremove (p : path) (f : fs) : fs :=
  match f with
  | [] => []
  | (q, n) :: r => if path_eqb p q then fremove p r else (q, n) :: fremove p r
  end.

Definition fset (p : path) (n : node) (f : fs) : fs := (p, n) :: fremove p f.

(* Linux follows at most 40 links: a regular file reached after <= 40 hops. *)
Definition FUEL : nat := 41.

(* final path, bytes, mtime *)
Fixpoint resolve (fuel : nat) (f : fs) (p : path) : option (path * (N * N)) :=
  match fuel with
  | O => None
  | S k => match flookup p f with
           | None => None
           | Some (File b m) => Some (p, (b, m))
           | Some (Link t) => resolve k f t
           end
  end.

Definition stat (f : fs) (p : path) : option (N * N) :=
  match resolve FUEL f p with Some (_, bm) => Some bm | None => None end.

(* ---------- the compilers map ---------- *)

Record centry := { ce_exe : path; ce_id : N; ce_mtime : N }.

Definition ckeyt := (path * path)%type.
Definition ckey_eqb (a b : ckeyt) : bool := path_eqb (fst a) (fst b) && path_eqb (snd a) (snd b).
Definition cmap := list (ckeyt * option centry).

Fixpoint clookup (k : ckeyt) (c : cmap) : option (option centry) :=
  match c with
  | [] => None
  | (k', v) :: r => if ckey_eqb k k' then Some v else clookup k r
  end.

Fixpoint cremove (k : ckeyt) (c : cmap) : cmap :=
  match c with
  | [] => []
  | (k', v) :: r => if ckey_eqb k k' then cremove k r else (k', v) :: cremove k r
  end.

Definition cset (k : ckeyt) (v : option centry) (c : cmap) : cmap := (k, v) :: cremove k c.

(* key of a successful detection / of the lookup *)
Definition ckey (legacy : bool) (p r : path) : ckeyt := if legacy then (r, r) else (p, r).
(* key under which a FAILED detection is recorded: the code as found uses `path` *)
Definition ckey_neg (legacy : bool) (p r : path) : ckeyt := if legacy then (p, p) else (p, r).

Inductive info :=
| INoStat
| IErr
| IOk (exe : path) (id : N) (detected : bool).

(* What the environment can do to the file system while a request is being served. *)
Inductive eop :=
| ESwap (p : path) (b m : N)
| ERetarget (l t : path)
| ERemove (p : path)
| ETouch (p : path) (m : N).

Definition touch (f : fs) (p : path) (m : N) : fs :=
  match resolve FUEL f p with
  | Some (t, (b, _)) => fset t (File b m) f
  | None => f
  end.

Definition env_step (f : fs) (o : eop) : fs :=
  match o with
  | ESwap p b m => fset p (File b m) f
  | ERetarget l t => fset l (Link t) f
  | ERemove p => fremove p f
  | ETouch p m => touch f p m
  end.

Definition env_run (f : fs) (env : list eop) : fs := fold_left env_step env f.

(* The variants of the code that are modelled.
     VFixed     keyed by (requested, resolved); after the detection the path is stat'ed again and
                the result is only memoised if the mtime is still the one read before
     VAsFound   keyed by (requested, resolved); the result is always memoised with the mtime
                read BEFORE the detection (while the digest is read AFTER the probe)
     VLegacy    VAsFound, but keyed by the resolved path only (the code before the first fix)
     VEarlyLate keyed like VFixed; digest taken when the detection STARTS, mtime recorded is the
                one read when it has FINISHED (the shape that makes a swap during a detection
                permanent) *)
Inductive variant := VFixed | VAsFound | VLegacy | VEarlyLate.
Definition legacy_key (v : variant) : bool := match v with VLegacy => true | _ => false end.

Section Model.
  Variable detect : N -> option N.
  Variable H : N -> N -> N.

  (* THE WINDOW.  A detection is not atomic: [stat: mtime m] . [probe: run the binary at the
     path] . [digest: read the bytes at the path] . [record (identity, mtime)].  `env` is what the
     environment does to the file system while the probe runs (between the stat and the digest
     read); f2 is the file system the digest is read from, the entry is recorded in, and the
     request's preprocessor / compiler then run in.  A request that needs no detection (memo
     hit, path that cannot be stat'ed, binary that fails the probe at once) is answered in f,
     and `env` happens afterwards.
     Returns: new map, the file system in which the request is served, the answer. *)
  Definition compiler_info (v : variant) (c : cmap) (f : fs) (p : path) (env : list eop)
    : cmap * fs * info :=
    let f2 := env_run f env in
    match resolve FUEL f p with
    | None => (c, f, INoStat)
    | Some (t, (b, m)) =>
        let r := if snd t =? snd p then t else p in
        let k := ckey (legacy_key v) p r in
        let kn := ckey_neg (legacy_key v) p r in
        let redetect :=
          match detect b with
          | None => (cset kn None c, f, IErr)            (* the probe is run by the binary at the path NOW *)
          | Some _ =>
              match (match v with VEarlyLate => Some (b, m) | _ => stat f2 p end) with
              | None => (cset kn None c, f2, IErr)       (* nothing left to hash *)
              | Some (b2, _) =>
                  (* whatever is at the path now is hashed; if it is no compiler its digest (0 here)
                     never reaches a key: the request's preprocessor run fails first *)
                  let id := match detect b2 with Some i => i | None => 0 end in
                  let m2 := match stat f2 p with Some (_, x) => Some x | None => None end in
                  let ent x := Some {| ce_exe := p; ce_id := id; ce_mtime := x |} in
                  let c' :=
                    match v with
                    | VFixed => match m2 with
                                | Some x => if x =? m then cset k (ent m) c else cset k None c
                                | None => cset k None c
                                end
                    | VEarlyLate => cset k (ent (match m2 with Some x => x | None => m end)) c
                    | _ => cset k (ent m) c
                    end in
                  (c', f2, IOk p id true)
              end
          end in
        match clookup k c with
        | Some (Some e) => if ce_mtime e =? m then (c, f, IOk (ce_exe e) (ce_id e) false) else redetect
        | _ => redetect
        end
    end.

  (* the key the lookup uses, when the path can be stat'ed *)
  Definition req_key (v : variant) (f : fs) (p : path) : option ckeyt :=
    match resolve FUEL f p with
    | None => None
    | Some (t, _) => Some (ckey (legacy_key v) p (if snd t =? snd p then t else p))
    end.

  (* ---------- requests ---------- *)

  Inductive outcome :=
  | OUnsupported           (* the path cannot be stat'ed, or detection failed: the client runs
                              the compiler itself *)
  | OFail                  (* the remembered executable could not be run / failed to preprocess *)
  | OHit (producer : N)    (* stored object returned; producer = binary that made it *)
  | OMiss (producer : N).  (* compiled now by `producer`, stored *)

  Record state := { fsys : fs; comps : cmap; results : list (N * N) }.

  Fixpoint rlookup (k : N) (r : list (N * N)) : option N :=
    match r with
    | [] => None
    | (k', v) :: t => if k =? k' then Some v else rlookup k t
    end.

  (* what is recorded about one compile request *)
  Record event := {
    e_path : path;
    e_src : N;
    e_cur0 : option (N * N);     (* bytes and mtime seen through e_path when the request arrives (the stat) *)
    e_cur : option (N * N);      (* ... when the request is served (after the window, if it had one) *)
    e_ckey : option ckeyt;       (* key of the compilers map the request looked up *)
    e_id : option N;             (* identity digest that went into the key *)
    e_key : option N;            (* the result-cache key *)
    e_detected : bool;           (* compiler_info re-ran the detection *)
    e_exe : option path;         (* the path that was (or would be) executed *)
    e_ran : option N;            (* the bytes found there when the request was served *)
    e_out : outcome }.

  Inductive op :=
  | Swap (p : path) (b m : N)        (* mv/cp a binary onto p: p becomes a regular file *)
  | Retarget (l t : path)            (* ln -sfn t l *)
  | Remove (p : path)
  | Touch (p : path) (m : N)         (* utimes through links; contents unchanged *)
  | Compile (p : path) (src : N)
  | CompileW (p : path) (src : N) (env : list eop).   (* a request during whose detection `env` happens *)

  Definition mk_event p src cur0 cur ck id key det exe ran out : event :=
    {| e_path := p; e_src := src; e_cur0 := cur0; e_cur := cur; e_ckey := ck; e_id := id;
       e_key := key; e_detected := det; e_exe := exe; e_ran := ran; e_out := out |}.

  (* a request for which compiler_info answered (exe, id): preprocess with `exe` as found in
     fsv, look the key up, on a miss compile with it and store.  rs = result cache, c' = the
     compilers map and f' = the file system the request leaves behind. *)
  Definition serve (rs : list (N * N)) (c' : cmap) (f' fsv : fs) (p : path) (src : N)
             (cur0 : option (N * N)) (ck : option ckeyt) (exe : path) (id : N) (det : bool)
    : state * event :=
    let k := H id src in
    let ev ran out :=
      mk_event p src cur0 (stat fsv p) ck (Some id) (Some k) det (Some exe) ran out in
    let s' := {| fsys := f'; comps := c'; results := rs |} in
    match stat fsv exe with
    | None => (s', ev None OFail)
    | Some (b, _) =>
        match detect b with
        | None => (s', ev (Some b) OFail)
        | Some _ =>
            match rlookup k rs with
            | Some prod => (s', ev (Some b) (OHit prod))
            | None => ({| fsys := f'; comps := c'; results := (k, b) :: rs |}, ev (Some b) (OMiss b))
            end
        end
    end.

  Definition compile (v : variant) (s : state) (p : path) (src : N) (env : list eop) : state * event :=
    let f := fsys s in
    let f' := env_run f env in
    let '(c', fsv, i) := compiler_info v (comps s) f p env in
    let s' := {| fsys := f'; comps := c'; results := results s |} in
    match i with
    | INoStat =>
        (s', mk_event p src (stat f p) None (req_key v f p) None None false None None OUnsupported)
    | IErr =>
        (s', mk_event p src (stat f p) (stat fsv p) (req_key v f p) None None true None None OUnsupported)
    | IOk exe id det =>
        serve (results s) c' f' fsv p src (stat f p) (req_key v f p) exe id det
    end.

  Definition step (v : variant) (s : state) (o : op) : state * option event :=
    let with_fs f := {| fsys := f; comps := comps s; results := results s |} in
    match o with
    | Swap p b m => (with_fs (fset p (File b m) (fsys s)), None)
    | Retarget l t => (with_fs (fset l (Link t) (fsys s)), None)
    | Remove p => (with_fs (fremove p (fsys s)), None)
    | Touch p m => (with_fs (touch (fsys s) p m), None)
    | Compile p src => let '(s', e) := compile v s p src [] in (s', Some e)
    | CompileW p src env => let '(s', e) := compile v s p src env in (s', Some e)
    end.

  Fixpoint final (v : variant) (s : state) (ops : list op) : state :=
    match ops with
    | [] => s
    | o :: r => final v (fst (step v s o)) r
    end.

  Fixpoint exec (v : variant) (s : state) (ops : list op) : list event :=
    match ops with
    | [] => []
    | o :: r =>
        match snd (step v s o) with
        | Some e => e :: exec v (fst (step v s o)) r
        | None => exec v (fst (step v s o)) r
        end
    end.

  (* a freshly started server on file system f: nothing memoised, empty result cache *)
  Definition start (f : fs) : state := {| fsys := f; comps := []; results := [] |}.

  (* ---------- the property's premise, as a boolean on the recorded requests ----------
     "a content change of the file at a compiler path implies an mtime change", in its weakest
     useful form: compare each request only with the PREVIOUS request that looked up the same
     key (same requested path resolving to the same file): if the mtime it finds on arrival is
     the one the previous request was served under, the bytes are the same too.  Requests
     further back do not matter (A -> B -> C with A and C sharing an mtime is inside the
     premise as long as B was seen in between); a swap with a fresh mtime never violates it. *)
  Definition same_key (k : ckeyt) (e : event) : bool :=
    match e_ckey e with Some k' => ckey_eqb k k' | None => false end.

  (* rpast = the past, newest first *)
  Definition last_same (k : ckeyt) (rpast : list event) : option event := find (same_key k) rpast.

  Definition agree (prev ev : event) : bool :=
    match e_cur prev, e_cur0 ev with
    | Some (b1, m1), Some (b2, m2) => implb (m1 =? m2) (b1 =? b2)
    | _, _ => true
    end.

  Definition link_ok (rpast : list event) (ev : event) : bool :=
    match e_ckey ev with
    | Some k => match last_same k rpast with Some e0 => agree e0 ev | None => true end
    | None => true
    end.

  Fixpoint tracks (rpast : list event) (evs : list event) : bool :=
    match evs with
    | [] => true
    | ev :: r => link_ok rpast ev && tracks (ev :: rpast) r
    end.

  Definition mtime_tracks_content (evs : list event) : bool := tracks [] evs.

  Definition wf_history (v : variant) (f : fs) (ops : list op) : bool :=
    mtime_tracks_content (exec v (start f) ops).

  (* histories without a window *)
  Definition windowless (ops : list op) : bool :=
    forallb (fun o => match o with CompileW _ _ (_ :: _) => false | _ => true end) ops.

  (* ---------- collision-freeness of the two digests on what a history touches ----------
     BLAKE3 cannot be injective on all inputs; what the property needs is: no two of
     the binaries in play share an identity digest, and no two (identity, source)
     pairs in play share a result key. *)
  Definition fs_bytes (f : fs) : list N :=
    flat_map (fun pn => match snd pn with File b _ => [b] | Link _ => [] end) f.
  Definition eop_bytes (o : eop) : list N := match o with ESwap _ b _ => [b] | _ => [] end.
  Definition op_bytes (o : op) : list N :=
    match o with Swap _ b _ => [b] | CompileW _ _ env => flat_map eop_bytes env | _ => [] end.
  Definition op_srcs (o : op) : list N :=
    match o with Compile _ s => [s] | CompileW _ s _ => [s] | _ => [] end.
  Definition bytes_in_play (f : fs) (ops : list op) : list N := fs_bytes f ++ flat_map op_bytes ops.
  Definition srcs_in_play (ops : list op) : list N := flat_map op_srcs ops.

  Definition collision_free_in_play (f : fs) (ops : list op) : bool :=
    let B := bytes_in_play f ops in
    let S := srcs_in_play ops in
    forallb (fun b1 => forallb (fun b2 =>
      match detect b1, detect b2 with
      | Some i1, Some i2 =>
          implb (i1 =? i2) (b1 =? b2) &&
          forallb (fun s1 => forallb (fun s2 =>
            implb (H i1 s1 =? H i2 s2) ((i1 =? i2) && (s1 =? s2))) S) S
      | _, _ => true
      end) B) B.

  (* ---------- what the property demands of one served request ---------- *)
  Definition served (e : event) : option N :=
    match e_out e with OHit p => Some p | OMiss p => Some p | _ => None end.

  (* the identity in the key is the identity of the bytes now at the path (a file that is no
     compiler has none: such a request fails, see `good` / C12_identity_is_current) *)
  Definition identity_current (e : event) : bool :=
    match e_id e, e_cur e with
    | Some id, Some (b, _) => match detect b with Some id' => id =? id' | None => true end
    | Some _, None => false
    | None, _ => true
    end.

  (* whatever is returned was produced by the bytes now at the path *)
  Definition producer_current (e : event) : bool :=
    match served e, e_cur e with
    | Some prod, Some (b, _) => prod =? b
    | Some _, None => false
    | None, _ => true
    end.
End Model.

