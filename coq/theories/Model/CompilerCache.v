(* CompilerCache.v — executable model of the server's memoised compiler detection
   (src/server.rs `SccacheService::compiler_info`, the `compilers` map and its
   mtime re-validation) together with what a compile request does with the
   detected compiler (src/compiler/c.rs: `CCompiler::new` digests the executable,
   `parse_arguments` copies `executable` + `executable_digest` into the hasher,
   `hash_key` starts with the digest; src/compiler/compiler.rs
   `get_cached_or_compile`: preprocess with the remembered executable, look the key
   up, on a miss run the remembered executable and store).

   World
     path   = (directory id, file name id).  Directories are plain (never links).
     node   = regular file (bytes id, mtime) | symbolic link to a path.
     fs     = association list path -> node (first match wins).
     `resolve` follows final-component links with the kernel's limit of 40; it is
     what both `std::fs::metadata` (mtime) and `Path::canonicalize` (path) see, and
     what exec/open see (bytes).

   Server state
     comps  = the `compilers` map.  Key: see `ckey`.  Value `None` = "detection
              failed" (inserted, never used as a hit: the lookup treats it as absent,
              exactly like the `_ => None` arm), `Some entry` with
                ce_exe   the path the detected `Compiler` will EXECUTE (the path the
                         detection was asked for: `path1` in compiler_info),
                ce_id    its `executable_digest` = digest(bytes ++ version),
                ce_mtime the mtime recorded at detection.
     results = the result cache: key -> bytes id of the binary that produced the
              stored object.  No eviction (C07 is about eviction).

   `compiler_info`, literally, in the order of the code:
     1. compiler_proxies lookup — only rustup registers proxies (for rustc); on the
        C/C++ path the map stays empty, so `resolved_with_proxy = None`.  Left out.
     2. metadata(path): failure = `Err("cannot stat compiler ..")` returned at once, i.e. the
        request is answered "unsupported compiler"; nothing is changed, nothing is detected,
        nothing is inserted (not even the negative entry).
     3. canonicalize, kept only if the file name is unchanged ("clang multicall").
     4. dist_info: no dist client here, always None.  Left out.
     5. lookup; hit iff the entry's mtime equals the current one; else
     6. detect through the REQUESTED path (digest of the bytes now there): failure
        inserts None and answers "unsupported compiler"; success inserts the entry.

   `legacy = true` is the code as found (map keyed by the resolved path only: a
   request through another link to the same file reuses an entry whose ce_exe is the
   first link); `legacy = false` is the code after the fix (keyed by requested path
   AND resolved path).

   External functions are parameters: `detect` (bytes id -> identity digest, None =
   not recognisable as a compiler; a binary that is not recognisable also fails to
   preprocess) and `H` (identity, source -> result key).

   Not modelled: the window between the `metadata` call and the digest read
   (compiler_info is atomic here); links in directory components; rustup proxies;
   the dist toolchain archive; eviction from the result cache; concurrent requests. *)
From Coq Require Import List NArith Bool.
Import ListNotations.
Local Open Scope N_scope.

Definition path := (N * N)%type.
Definition path_eqb (a b : path) : bool := (fst a =? fst b) && (snd a =? snd b).

Inductive node :=
| File (bytes mtime : N)
| Link (target : path).

Definition fs := list (path * node).

Fixpoint flookup (p : path) (f : fs) : option node :=
  match f with
  | [] => None
  | (q, n) :: r => if path_eqb p q then Some n else flookup p r
  end.

Fixpoint fremove (p : path) (f : fs) : fs :=
  match f with
  | [] => []
  | (q, n) :: r => if path_eqb p q then fremove p r else (q, n) :: fremove p r
  end.

Definition fset (p : path) (n : node) (f : fs) : fs := (p, n) :: fremove p f.

(* Linux follows at most 40 links: a regular file reached after <= 40 hops. *)
Definition FUEL : nat := 41.

(* final path, bytes, mtime *)
Fixpoint resolve (fuel : nat) (f : fs) (p : path) : option (path * (N * N)) :=
  match fuel with
  | O => None
  | S k => match flookup p f with
           | None => None
           | Some (File b m) => Some (p, (b, m))
           | Some (Link t) => resolve k f t
           end
  end.

Definition stat (f : fs) (p : path) : option (N * N) :=
  match resolve FUEL f p with Some (_, bm) => Some bm | None => None end.

(* ---------- the compilers map ---------- *)

Record centry := { ce_exe : path; ce_id : N; ce_mtime : N }.

Definition ckeyt := (path * path)%type.
Definition ckey_eqb (a b : ckeyt) : bool := path_eqb (fst a) (fst b) && path_eqb (snd a) (snd b).
Definition cmap := list (ckeyt * option centry).

Fixpoint clookup (k : ckeyt) (c : cmap) : option (option centry) :=
  match c with
  | [] => None
  | (k', v) :: r => if ckey_eqb k k' then Some v else clookup k r
  end.

Fixpoint cremove (k : ckeyt) (c : cmap) : cmap :=
  match c with
  | [] => []
  | (k', v) :: r => if ckey_eqb k k' then cremove k r else (k', v) :: cremove k r
  end.

Definition cset (k : ckeyt) (v : option centry) (c : cmap) : cmap := (k, v) :: cremove k c.

(* key of a successful detection / of the lookup *)
Definition ckey (legacy : bool) (p r : path) : ckeyt := if legacy then (r, r) else (p, r).
(* key under which a FAILED detection is recorded: the code as found uses `path` *)
Definition ckey_neg (legacy : bool) (p r : path) : ckeyt := if legacy then (p, p) else (p, r).

Inductive info :=
| INoStat
| IErr
| IOk (exe : path) (id : N) (detected : bool).

Section Model.
  Variable detect : N -> option N.
  Variable H : N -> N -> N.

  Definition compiler_info (legacy : bool) (c : cmap) (f : fs) (p : path) : cmap * info :=
    match resolve FUEL f p with
    | None => (c, INoStat)
    | Some (t, (b, m)) =>
        let r := if snd t =? snd p then t else p in
        let k := ckey legacy p r in
        let redetect :=
          match detect b with
          | None => (cset (ckey_neg legacy p r) None c, IErr)
          | Some id => (cset k (Some {| ce_exe := p; ce_id := id; ce_mtime := m |}) c, IOk p id true)
          end in
        match clookup k c with
        | Some (Some e) => if ce_mtime e =? m then (c, IOk (ce_exe e) (ce_id e) false) else redetect
        | _ => redetect
        end
    end.

  (* ---------- requests ---------- *)

  Inductive outcome :=
  | OUnsupported           (* the path cannot be stat'ed, or detection failed: the client runs
                              the compiler itself *)
  | OFail                  (* the remembered executable could not be run / failed to preprocess *)
  | OHit (producer : N)    (* stored object returned; producer = binary that made it *)
  | OMiss (producer : N).  (* compiled now by `producer`, stored *)

  Record state := { fsys : fs; comps : cmap; results : list (N * N) }.

  Fixpoint rlookup (k : N) (r : list (N * N)) : option N :=
    match r with
    | [] => None
    | (k', v) :: t => if k =? k' then Some v else rlookup k t
    end.

  (* what is recorded about one compile request *)
  Record event := {
    e_path : path;
    e_src : N;
    e_cur : option (N * N);      (* bytes and mtime seen through e_path when the request is served *)
    e_id : option N;             (* identity digest that went into the key *)
    e_key : option N;            (* the result-cache key *)
    e_detected : bool;           (* compiler_info re-ran the detection *)
    e_exe : option path;         (* the path that was (or would be) executed *)
    e_ran : option N;            (* the bytes found there when the request was served *)
    e_out : outcome }.

  Inductive op :=
  | Swap (p : path) (b m : N)        (* mv/cp a binary onto p: p becomes a regular file *)
  | Retarget (l t : path)            (* ln -sfn t l *)
  | Remove (p : path)
  | Touch (p : path) (m : N)         (* utimes through links; contents unchanged *)
  | Compile (p : path) (src : N).

  Definition touch (f : fs) (p : path) (m : N) : fs :=
    match resolve FUEL f p with
    | Some (t, (b, _)) => fset t (File b m) f
    | None => f
    end.

  Definition compile (legacy : bool) (s : state) (p : path) (src : N) : state * event :=
    let cur := stat (fsys s) p in
    let '(c', i) := compiler_info legacy (comps s) (fsys s) p in
    let s' := {| fsys := fsys s; comps := c'; results := results s |} in
    let ev id key det exe ran out :=
      {| e_path := p; e_src := src; e_cur := cur; e_id := id; e_key := key;
         e_detected := det; e_exe := exe; e_ran := ran; e_out := out |} in
    match i with
    | INoStat => (s', ev None None false None None OUnsupported)
    | IErr => (s', ev None None true None None OUnsupported)
    | IOk exe id det =>
        let k := H id src in
        match stat (fsys s) exe with
        | None => (s', ev (Some id) (Some k) det (Some exe) None OFail)
        | Some (b, _) =>
            match detect b with
            | None => (s', ev (Some id) (Some k) det (Some exe) (Some b) OFail)
            | Some _ =>
                match rlookup k (results s) with
                | Some prod => (s', ev (Some id) (Some k) det (Some exe) (Some b) (OHit prod))
                | None =>
                    ({| fsys := fsys s; comps := c'; results := (k, b) :: results s |},
                     ev (Some id) (Some k) det (Some exe) (Some b) (OMiss b))
                end
            end
        end
    end.

  Definition step (legacy : bool) (s : state) (o : op) : state * option event :=
    let with_fs f := {| fsys := f; comps := comps s; results := results s |} in
    match o with
    | Swap p b m => (with_fs (fset p (File b m) (fsys s)), None)
    | Retarget l t => (with_fs (fset l (Link t) (fsys s)), None)
    | Remove p => (with_fs (fremove p (fsys s)), None)
    | Touch p m => (with_fs (touch (fsys s) p m), None)
    | Compile p src => let '(s', e) := compile legacy s p src in (s', Some e)
    end.

  Fixpoint final (legacy : bool) (s : state) (ops : list op) : state :=
    match ops with
    | [] => s
    | o :: r => final legacy (fst (step legacy s o)) r
    end.

  Fixpoint exec (legacy : bool) (s : state) (ops : list op) : list event :=
    match ops with
    | [] => []
    | o :: r =>
        match snd (step legacy s o) with
        | Some e => e :: exec legacy (fst (step legacy s o)) r
        | None => exec legacy (fst (step legacy s o)) r
        end
    end.

  (* a freshly started server on file system f: nothing memoised, empty result cache *)
  Definition start (f : fs) : state := {| fsys := f; comps := []; results := [] |}.

  (* ---------- the property's premise, as a boolean on the recorded requests ----------
     "a content change of the file at a compiler path implies an mtime change":
     whenever two requests name the same compiler path and see the same mtime there,
     they see the same bytes there. *)
  Definition agree (a b : event) : bool :=
    match e_cur a, e_cur b with
    | Some (b1, m1), Some (b2, m2) =>
        implb (path_eqb (e_path a) (e_path b) && (m1 =? m2)) (b1 =? b2)
    | _, _ => true
    end.

  Definition mtime_tracks_content (evs : list event) : bool :=
    forallb (fun a => forallb (agree a) evs) evs.

  Definition wf_history (legacy : bool) (f : fs) (ops : list op) : bool :=
    mtime_tracks_content (exec legacy (start f) ops).

  (* ---------- collision-freeness of the two digests on what a history touches ----------
     BLAKE3 cannot be injective on all inputs; what the property needs is: no two of
     the binaries in play share an identity digest, and no two (identity, source)
     pairs in play share a result key. *)
  Definition fs_bytes (f : fs) : list N :=
    flat_map (fun pn => match snd pn with File b _ => [b] | Link _ => [] end) f.
  Definition op_bytes (o : op) : list N := match o with Swap _ b _ => [b] | _ => [] end.
  Definition op_srcs (o : op) : list N := match o with Compile _ s => [s] | _ => [] end.
  Definition bytes_in_play (f : fs) (ops : list op) : list N := fs_bytes f ++ flat_map op_bytes ops.
  Definition srcs_in_play (ops : list op) : list N := flat_map op_srcs ops.

  Definition collision_free_in_play (f : fs) (ops : list op) : bool :=
    let B := bytes_in_play f ops in
    let S := srcs_in_play ops in
    forallb (fun b1 => forallb (fun b2 =>
      match detect b1, detect b2 with
      | Some i1, Some i2 =>
          implb (i1 =? i2) (b1 =? b2) &&
          forallb (fun s1 => forallb (fun s2 =>
            implb (H i1 s1 =? H i2 s2) ((i1 =? i2) && (s1 =? s2))) S) S
      | _, _ => true
      end) B) B.

  (* ---------- what the property demands of one served request ---------- *)
  Definition served (e : event) : option N :=
    match e_out e with OHit p => Some p | OMiss p => Some p | _ => None end.

  (* the identity in the key is the identity of the bytes now at the path *)
  Definition identity_current (e : event) : bool :=
    match e_id e, e_cur e with
    | Some id, Some (b, _) => match detect b with Some id' => id =? id' | None => false end
    | Some _, None => false
    | None, _ => true
    end.

  (* whatever is returned was produced by the bytes now at the path *)
  Definition producer_current (e : event) : bool :=
    match served e, e_cur e with
    | Some prod, Some (b, _) => prod =? b
    | Some _, None => false
    | None, _ => true
    end.
End Model.

