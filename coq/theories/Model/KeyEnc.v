(* KeyEnc.v — executable model of the two C/C++ cache-key functions of sccache:

     src/compiler/c.rs                  hash_key                              (the result key)
     src/compiler/preprocessor_cache.rs preprocessor_cache_entry_hash_key     (the preprocessor-level key)

   Both feed a fixed sequence of components into one BLAKE3 state and render the digest with util::hex.  The model
   computes the PRE-IMAGE (the exact byte string fed to BLAKE3) as a list of pieces; the hash itself is a Section
   variable.  Everything that is read off the sources on every run — the ORDER of the components, CACHE_VERSION,
   FORMAT_VERSION, the two CACHED_ENV_VARS allow-lists, the Language::as_str table — is a field of [spec]; the
   translator (translator/c02_hashspec.py) instantiates it as Gen/C02HashSpec.the_spec, and the encoders INTERPRET the
   translated component order ([shape_c], [shape_p]).

   What `OsString::hash(&mut HashToDigest{..})` feeds was determined through the harness (leg "lp"): the length as
   8 little-endian bytes, then the bytes; no terminator. *)
From Coq Require Import List NArith Bool.
From Sccache Require Import Base.Sx.
Import ListNotations.
Local Open Scope N_scope.

Definition bytes := list N.

(* ------------------------------------------------------------------ byte-level helpers *)

Fixpoint le_bytes (k : nat) (n : N) : bytes :=
  match k with
  | O => []
  | S k' => (n mod 256) :: le_bytes k' (n / 256)
  end.

(* usize::to_ne_bytes on x86-64 / aarch64 (little endian, 8 bytes) *)
Definition le64 (n : N) : bytes := le_bytes 8 n.

(* <[u8] as Hash>::hash : write_length_prefix(len) ; write(bytes) *)
Definition lp (s : bytes) : bytes := le64 (N.of_nat (length s)) ++ s.

Fixpoint prefixb (p s : bytes) : bool :=
  match p, s with
  | [], _ => true
  | x :: p', y :: s' => N.eqb x y && prefixb p' s'
  | _ :: _, [] => false
  end.

Fixpoint contains (p s : bytes) : bool :=
  prefixb p s || match s with [] => false | _ :: s' => contains p s' end.

(* [strip_prefix a t] = Some s  iff  t = a ++ s *)
Fixpoint strip_prefix (a t : bytes) : option bytes :=
  match a, t with
  | [], _ => Some t
  | x :: a', y :: t' => if N.eqb x y then strip_prefix a' t' else None
  | _ :: _, [] => None
  end.

Definition is_hex (c : N) : bool :=
  ((48 <=? c) && (c <=? 57)) || ((97 <=? c) && (c <=? 102)).

Definition is_hex64 (h : bytes) : bool :=
  Nat.eqb (length h) 64 && forallb is_hex h.

Definition nonul (s : bytes) : bool := forallb (fun c => negb (N.eqb c 0)) s.

(* shorter than 2^56 bytes: the top byte of the 8-byte length is zero *)
Definition small (s : bytes) : bool := N.of_nat (length s) <? 72057594037927936.

Definition str_ok (s : bytes) : bool := nonul s && small s.

(* "__TIME__" *)
Definition time_pat : bytes := [95; 95; 84; 73; 77; 69; 95; 95].

(* ------------------------------------------------------------------ the translated description of the code *)

(* how a string is fed: through Hash (length-prefixed) or raw *)
Inductive mode := LP | Raw.

(* statements inside `for (var, val) in env_vars { if CACHED_ENV_VARS.contains(var) { ... } }` *)
Inductive envc :=
| EName (m : mode)      (* var.hash(..) *)
| EVal (m : mode)       (* val.hash(..) *)
| ELit (b : bytes).     (* m.update(b"..") *)

(* top-level statements that feed the digest, in source order *)
Inductive comp :=
| CDigest               (* m.update(compiler_digest.as_bytes()) *)
| CPlusplus             (* m.update(&[plusplus as u8]) *)
| CVersion              (* m.update(CACHE_VERSION) *)
| CFmtVersion           (* m.update(&[FORMAT_VERSION]) *)
| CLang                 (* m.update(language.as_str().as_bytes()) *)
| CArgs (m : mode)      (* for arg in arguments { arg.hash(..) } *)
| CExtra                (* for hash in extra_hashes { m.update(hash.as_bytes()) } *)
| CEnv (inner : list envc)
| CPP                   (* m.update(preprocessor_output) *)
| CPath                 (* encode_path(&mut buf, input_file); m.update(&buf) *)
| CInputDigest.         (* m.update(digest-of-the-input-file.as_bytes()) *)

Record spec := {
  version : bytes;                    (* c.rs CACHE_VERSION *)
  fmt_version : bytes;                (* preprocessor_cache.rs FORMAT_VERSION, one byte *)
  allow_main : list bytes;            (* c.rs CACHED_ENV_VARS *)
  allow_pp : list bytes;              (* preprocessor_cache.rs CACHED_ENV_VARS *)
  tags : list (bytes * bytes);        (* (Language variant name, Language::as_str) *)
  shape_c : list comp;                (* statements of hash_key *)
  shape_p : list comp;                (* statements of preprocessor_cache_entry_hash_key *)
  time_gate : bool                    (* the pp-level key is None when the input file mentions __TIME__ *)
}.

(* the component orders the theorems are proved for *)
Definition expected_env : list envc := [EName LP; ELit [61]; EVal LP].
Definition expected_shape_c : list comp :=
  [CDigest; CPlusplus; CVersion; CLang; CArgs LP; CExtra; CEnv expected_env; CPP].
Definition expected_shape_p : list comp :=
  [CDigest; CPlusplus; CFmtVersion; CLang; CArgs LP; CExtra; CEnv expected_env; CPath; CInputDigest].

(* ------------------------------------------------------------------ requests *)

(* One record for both keys: hash_key reads the first seven fields, the pp-level key reads everything but [pp]. *)
Record creq := {
  digest : bytes;                     (* compiler_digest / executable_digest *)
  plusplus : bool;
  lang : bytes;                       (* the Language variant, by name *)
  args : list bytes;
  extra : list bytes;                 (* extra_hashes *)
  env : list (bytes * bytes);         (* the whole environment, in order *)
  pp : bytes;                         (* preprocessor output *)
  path : bytes;                       (* absolute input path  (pp-level key only) *)
  input : bytes;                      (* contents of the input file (pp-level key only) *)
  ignore_time : bool                  (* config.ignore_time_macros (pp-level key only) *)
}.

Definition allowed (al : list bytes) (k : bytes) : bool := existsb (bytes_eqb k) al.

Definition fenv (al : list bytes) (r : creq) : list (bytes * bytes) :=
  filter (fun kv => allowed al (fst kv)) (env r).

Definition tag_entry (sp : spec) (l : bytes) : option (bytes * bytes) :=
  find (fun e => bytes_eqb (fst e) l) (tags sp).

Definition tag_of (sp : spec) (l : bytes) : bytes :=
  match tag_entry sp l with Some e => snd e | None => [] end.

Definition lang_known (sp : spec) (l : bytes) : bool :=
  match tag_entry sp l with Some _ => true | None => false end.

(* ------------------------------------------------------------------ the encoders *)

Inductive piece :=
| Lit (b : bytes)       (* bytes fed as they are *)
| Dig (c : bytes).      (* the 64 hex characters of the digest of c *)

Definition put (m : mode) (s : bytes) : bytes :=
  match m with LP => lp s | Raw => s end.

Definition env_item (inner : list envc) (kv : bytes * bytes) : bytes :=
  concat (map (fun c => match c with
                        | EName m => put m (fst kv)
                        | EVal m => put m (snd kv)
                        | ELit b => b
                        end) inner).

Definition comp_piece (sp : spec) (al : list bytes) (r : creq) (c : comp) : piece :=
  match c with
  | CDigest => Lit (digest r)
  | CPlusplus => Lit [if plusplus r then 1 else 0]
  | CVersion => Lit (version sp)
  | CFmtVersion => Lit (fmt_version sp)
  | CLang => Lit (tag_of sp (lang r))
  | CArgs m => Lit (concat (map (put m) (args r)))
  | CExtra => Lit (concat (extra r))
  | CEnv inner => Lit (concat (map (env_item inner) (fenv al r)))
  | CPP => Lit (pp r)
  | CPath => Lit (path r)
  | CInputDigest => Dig (input r)
  end.

Definition pieces_c (sp : spec) (r : creq) : list piece :=
  map (comp_piece sp (allow_main sp) r) (shape_c sp).

Definition pieces_p (sp : spec) (r : creq) : list piece :=
  map (comp_piece sp (allow_pp sp) r) (shape_p sp).

(* preprocessor_cache_entry_hash_key returns Ok(None) when !ignore_time_macros and the finder saw __TIME__
   (for an input read in one chunk, i.e. < 128 KiB, "saw" = "contains"; chunking is C04's subject) *)
Definition gated (sp : spec) (r : creq) : bool :=
  time_gate sp && negb (ignore_time r) && contains time_pat (input r).

Section Hash.
  (* util::hex(BLAKE3(.)) : 64 characters of [0-9a-f] *)
  Variable H : bytes -> bytes.

  Definition flatten (ps : list piece) : bytes :=
    concat (map (fun p => match p with Lit b => b | Dig c => H c end) ps).

  Definition encode_c (sp : spec) (r : creq) : bytes := flatten (pieces_c sp r).
  Definition encode_pp (sp : spec) (r : creq) : bytes := flatten (pieces_p sp r).

  Definition key (sp : spec) (r : creq) : bytes := H (encode_c sp r).
  Definition pp_key (sp : spec) (r : creq) : option bytes :=
    if gated sp r then None else Some (H (encode_pp sp r)).
End Hash.

(* ------------------------------------------------------------------ canonical components *)

Definition canon_c (sp : spec) (r : creq) :=
  (digest r, plusplus r, tag_of sp (lang r), args r, extra r, fenv (allow_main sp) r, pp r).

Definition canon_p (sp : spec) (r : creq) :=
  (digest r, plusplus r, tag_of sp (lang r), args r, extra r, fenv (allow_pp sp) r, path r, input r).

(* ------------------------------------------------------------------ decidable side conditions on a spec *)

(* Languages that share a tag on purpose.  CudaFE is produced only by cudafe.rs (compiler kind cudafe++), whose
   executable is not one that ever compiles Language::Cuda, so the two never meet under one compiler digest; the
   statistics key "cuda [cudafe++]" is pinned by tests/system.rs. *)
Definition driver_bound_aliases : list (bytes * bytes) :=
  [ ([67; 117; 100; 97], [67; 117; 100; 97; 70; 69]) ].   (* Cuda, CudaFE *)

Definition alias_exempt (a b : bytes) : bool :=
  existsb (fun p => (bytes_eqb (fst p) a && bytes_eqb (snd p) b)
                    || (bytes_eqb (fst p) b && bytes_eqb (snd p) a)) driver_bound_aliases.

(* text by which one tag extends another must not look like the start of what may follow a tag:
   not a hex digit (an extra hash), first byte >= 8 and no NUL (a length prefix) *)
Definition ext_ok (s : bytes) : bool :=
  match s with
  | [] => true
  | x :: _ => nonul s && negb (is_hex x) && (8 <=? x)
  end.

Definition tag_pair_ok (e1 e2 : bytes * bytes) : bool :=
  (if bytes_eqb (snd e1) (snd e2)
   then bytes_eqb (fst e1) (fst e2) || alias_exempt (fst e1) (fst e2) else true)
  && match strip_prefix (snd e2) (snd e1) with Some s => ext_ok s | None => true end.

Definition tags_ok (sp : spec) : bool :=
  forallb (fun e1 => forallb (tag_pair_ok e1) (tags sp)) (tags sp).

Definition allow_ok (sp : spec) : bool :=
  forallb str_ok (allow_main sp) && forallb str_ok (allow_pp sp).

(* S16: every variable of the main key is also part of the preprocessor-level key *)
Definition env_covers (sp : spec) : bool :=
  forallb (allowed (allow_pp sp)) (allow_main sp).

Definition spec_good (sp : spec) : Prop :=
  shape_c sp = expected_shape_c /\ shape_p sp = expected_shape_p /\ tags_ok sp = true /\ allow_ok sp = true.

(* ------------------------------------------------------------------ well-formed requests *)

(* [text] does not start with text that would turn this language's tag into another language's tag *)
Definition no_tag_ext (sp : spec) (l : bytes) (text : bytes) : bool :=
  forallb (fun e => match strip_prefix (tag_of sp l) (snd e) with
                    | Some (x :: s) => negb (prefixb (x :: s) text)
                    | _ => true
                    end) (tags sp).

Definition env_ok (al : list bytes) (r : creq) : bool :=
  forallb (fun kv => negb (allowed al (fst kv)) || str_ok (snd kv)) (env r).

Definition common_ok (sp : spec) (r : creq) : bool :=
  is_hex64 (digest r) && lang_known sp (lang r) && forallb str_ok (args r) && forallb is_hex64 (extra r).

(* what argv / envp (C strings, ARG_MAX) and a compiler's -E output guarantee, plus [no_tag_ext] *)
Definition pp_ok (sp : spec) (r : creq) : bool :=
  nonul (pp r) && no_tag_ext sp (lang r) (pp r).

Definition wf_c (sp : spec) (r : creq) : bool :=
  common_ok sp r && env_ok (allow_main sp) r && pp_ok sp r.

(* the preprocessed text does not begin with 64 hex digits (so it cannot be taken for one more extra hash) *)
Definition nohex64 (t : bytes) : bool := negb (is_hex64 (firstn 64 t)).

Definition abs_path (p : bytes) : bool :=
  match p with 47 :: _ => true | _ => false end.

Definition path_ok (sp : spec) (r : creq) : bool :=
  abs_path (path r) && nonul (path r) && no_tag_ext sp (lang r) (path r).

Definition wf_p (sp : spec) (r : creq) : bool :=
  common_ok sp r && env_ok (allow_pp sp) r && path_ok sp r.
