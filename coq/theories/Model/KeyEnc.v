(* KeyEnc.v — executable model of the two C/C++ cache-key functions of sccache:

     src/compiler/c.rs                  hash_key                              (the result key)
     src/compiler/preprocessor_cache.rs preprocessor_cache_entry_hash_key     (the preprocessor-level key)

   Both feed a fixed sequence of components into one BLAKE3 state and render the digest with util::hex.  The model
   computes the PRE-IMAGE (the exact byte string fed to BLAKE3) as a list of pieces; the hash itself is a Section
   variable.  Everything that is read off the sources on every run — the ORDER of the components, CACHE_VERSION,
   FORMAT_VERSION, the two CACHED_ENV_VARS allow-lists, the Language::as_str table — is a field of [spec]; the
   translator (translator/c02_hashspec.py) instantiates it as Gen/C02HashSpec.the_spec, and the encoders INTERPRET the
   translated component order ([shape_c], [shape_p]).

   What `OsString::hash(&mut HashToDigest{..})` feeds was determined through the harness (leg "lp"): the length as
   8 little-endian bytes, then the bytes; no terminator. *)
From Coq Require Import List NArith Bool.
From Coq Require String.
Import String.StringSyntax.
From Sccache Require Import Base.Sx.
Import ListNotations.
Local Open Scope N_scope.

Definition bytes := list N.

(* ------------------------------------------------------------------ byte-level helpers *)

Fixpoint le_bytes (k : nat) (n : N) : bytes :=
  match k with
  | O => []
  | S k' => (n mod 256) :: le_bytes k' (n / 256)
  end.

(* usize::to_ne_bytes on x86-64 / aarch64 (little endian, 8 bytes) *)
Definition le64 (n : N) : bytes := le_bytes 8 n.

(* <[u8] as Hash>::hash : write_length_prefix(len) ; write(bytes) *)
Definition lp (s : bytes) : bytes := le64 (N.of_nat (length s)) ++ s.

Fixpoint prefixb (p s : bytes) : bool :=
  match p, s with
  | [], _ => true
  | x :: p', y :: s' => N.eqb x y && prefixb p' s'
  | _ :: _, [] => false
  end.

Fixpoint contains (p s : bytes) : bool :=
  prefixb p s || match s with [] => false | _ :: s' => contains p s' end.

(* [strip_prefix a t] = Some s  iff  t = a ++ s *)
Fixpoint strip_prefix (a t : bytes) : option bytes :=
  match a, t with
  | [], _ => Some t
  | x :: a', y :: t' => if N.eqb x y then strip_prefix a' t' else None
  | _ :: _, [] => None
  end.

Definition is_hex (c : N) : bool :=
  ((48 <=? c) && (c <=? 57)) || ((97 <=? c) && (c <=? 102)).

Definition is_hex64 (h : bytes) : bool :=
  Nat.eqb (length h) 64 && forallb is_hex h.

Definition nonul (s : bytes) : bool := forallb (fun c => negb (N.eqb c 0)) s.

(* shorter than 2^56 bytes: the top byte of the 8-byte length is zero *)
Definition small (s : bytes) : bool := N.of_nat (length s) <? 72057594037927936.

Definition str_ok (s : bytes) : bool := nonul s && small s.

(* "__TIME__", "__DATE__", "__TIMESTAMP__" *)
Definition time_pat : bytes := [95; 95; 84; 73; 77; 69; 95; 95].
Definition date_pat : bytes := [95; 95; 68; 65; 84; 69; 95; 95].
Definition stamp_pat : bytes := [95; 95; 84; 73; 77; 69; 83; 84; 65; 77; 80; 95; 95].

(* Digest::delimiter(name) = "\0SCCACHE\0" name "\0" *)
Definition delimiter (name : bytes) : bytes := [0; 83; 67; 67; 65; 67; 72; 69; 0] ++ name ++ [0].

(* ------------------------------------------------------------------ the translated description of the code *)

(* how a string is fed: through Hash (length-prefixed) or raw *)
Inductive mode := LP | Raw.

(* statements inside `for (var, val) in env_vars { if CACHED_ENV_VARS.contains(var) { ... } }` *)
Inductive envc :=
| EName (m : mode)      (* var.hash(..) *)
| EVal (m : mode)       (* val.hash(..) *)
| ELit (b : bytes).     (* m.update(b"..") *)

(* top-level statements that feed the digest, in source order *)
Inductive comp :=
| CDigest               (* m.update(compiler_digest.as_bytes()) *)
| CPlusplus             (* m.update(&[plusplus as u8]) *)
| CVersion              (* m.update(CACHE_VERSION) *)
| CFmtVersion           (* m.update(&[FORMAT_VERSION]) *)
| CLang                 (* m.update(language.as_str().as_bytes()) *)
| CArgs (m : mode)      (* for arg in arguments { arg.hash(..) } *)
| CExtra                (* for hash in extra_hashes { m.update(hash.as_bytes()) } *)
| CEnv (inner : list envc)
| CPP                   (* m.update(preprocessor_output) *)
| CPath                 (* encode_path(&mut buf, input_file); m.update(&buf) *)
| CInputDigest          (* m.update(digest-of-the-input-file.as_bytes())                     (before f36dfcd) *)
| CInputDigestT.        (* the same, the digest being include_file_digest(content digest, finder, mtime):
                           content digest, plus "-" digest(date / SOURCE_DATE_EPOCH / mtime) when the file mentions
                           __DATE__ or __TIMESTAMP__ *)

Record spec := {
  version : bytes;                    (* c.rs CACHE_VERSION *)
  fmt_version : bytes;                (* preprocessor_cache.rs FORMAT_VERSION, one byte *)
  allow_main : list bytes;            (* c.rs CACHED_ENV_VARS *)
  allow_pp : list bytes;              (* preprocessor_cache.rs CACHED_ENV_VARS *)
  tags : list (bytes * bytes);        (* (Language variant name, Language::as_str) *)
  shape_c : list comp;                (* statements of hash_key *)
  shape_p : list comp;                (* statements of preprocessor_cache_entry_hash_key *)
  time_gate : bool                    (* the pp-level key is None when the input file mentions __TIME__ *)
}.

(* the component orders the theorems are proved for *)
Definition expected_env : list envc := [EName LP; ELit [61]; EVal LP].
Definition expected_shape_c : list comp :=
  [CDigest; CPlusplus; CVersion; CLang; CArgs LP; CExtra; CEnv expected_env; CPP].
Definition expected_shape_p : list comp :=
  [CDigest; CPlusplus; CFmtVersion; CLang; CArgs LP; CExtra; CEnv expected_env; CPath; CInputDigestT].

(* ------------------------------------------------------------------ requests *)

(* One record for both keys: hash_key reads the first seven fields, the pp-level key reads everything but [pp]. *)
Record creq := {
  digest : bytes;                     (* compiler_digest / executable_digest *)
  plusplus : bool;
  lang : bytes;                       (* the Language variant, by name *)
  args : list bytes;
  extra : list bytes;                 (* extra_hashes *)
  env : list (bytes * bytes);         (* the whole environment, in order *)
  pp : bytes;                         (* preprocessor output *)
  path : bytes;                       (* absolute input path  (pp-level key only) *)
  input : bytes;                      (* contents of the input file (pp-level key only) *)
  ignore_time : bool;                 (* config.ignore_time_macros (pp-level key only) *)
  (* what the expansions of __DATE__ / __TIMESTAMP__ in the input file depend on (pp-level key only) *)
  date : N * N * N;                   (* today's local date: year, month, day *)
  sde : option bytes;                 (* SOURCE_DATE_EPOCH in the server's environment *)
  mtime : N * N                       (* modification time of the input file: seconds, nanoseconds *)
}.

Definition allowed (al : list bytes) (k : bytes) : bool := existsb (bytes_eqb k) al.

Definition fenv (al : list bytes) (r : creq) : list (bytes * bytes) :=
  filter (fun kv => allowed al (fst kv)) (env r).

Definition tag_entry (sp : spec) (l : bytes) : option (bytes * bytes) :=
  find (fun e => bytes_eqb (fst e) l) (tags sp).

Definition tag_of (sp : spec) (l : bytes) : bytes :=
  match tag_entry sp l with Some e => snd e | None => [] end.

Definition lang_known (sp : spec) (l : bytes) : bool :=
  match tag_entry sp l with Some _ => true | None => false end.

(* ------------------------------------------------------------------ the encoders *)

Inductive piece :=
| Lit (b : bytes)       (* bytes fed as they are *)
| Dig (c : bytes).      (* the 64 hex characters of the digest of c *)

Definition put (m : mode) (s : bytes) : bytes :=
  match m with LP => lp s | Raw => s end.

Definition env_item (inner : list envc) (kv : bytes * bytes) : bytes :=
  concat (map (fun c => match c with
                        | EName m => put m (fst kv)
                        | EVal m => put m (snd kv)
                        | ELit b => b
                        end) inner).

(* include_file_digest: which time macros the scan saw (one chunk: "saw" = "contains") *)
Definition has_date (r : creq) : bool := contains date_pat (input r).
Definition has_stamp (r : creq) : bool := contains stamp_pat (input r).
Definition salted (r : creq) : bool := negb (ignore_time r) && (has_date r || has_stamp r).

Definition sde_bytes (r : creq) : bytes := match sde r with Some s => s | None => [] end.

(* what is fed to the inner `time_digest`:
     date:       delimiter "date", year (i32), month (u32), day (u32) little endian, SOURCE_DATE_EPOCH if set
     timestamp:  delimiter "timestamp", Timestamp{seconds: i64, nanoseconds: u32} through Hash *)
Definition time_pre (r : creq) : bytes :=
  (if has_date r
   then delimiter [100; 97; 116; 101]
        ++ le_bytes 4 (fst (fst (date r))) ++ le_bytes 4 (snd (fst (date r))) ++ le_bytes 4 (snd (date r))
        ++ sde_bytes r
   else [])
  ++ (if has_stamp r
      then delimiter [116; 105; 109; 101; 115; 116; 97; 109; 112]
           ++ le_bytes 8 (fst (mtime r)) ++ le_bytes 4 (snd (mtime r))
      else []).

Definition input_digest_pieces (r : creq) : list piece :=
  if salted r then [Dig (input r); Lit [45]; Dig (time_pre r)] else [Dig (input r)].

Definition comp_pieces (sp : spec) (al : list bytes) (r : creq) (c : comp) : list piece :=
  match c with
  | CDigest => [Lit (digest r)]
  | CPlusplus => [Lit [if plusplus r then 1 else 0]]
  | CVersion => [Lit (version sp)]
  | CFmtVersion => [Lit (fmt_version sp)]
  | CLang => [Lit (tag_of sp (lang r))]
  | CArgs m => [Lit (concat (map (put m) (args r)))]
  | CExtra => [Lit (concat (extra r))]
  | CEnv inner => [Lit (concat (map (env_item inner) (fenv al r)))]
  | CPP => [Lit (pp r)]
  | CPath => [Lit (path r)]
  | CInputDigest => [Dig (input r)]
  | CInputDigestT => input_digest_pieces r
  end.

Definition pieces_c (sp : spec) (r : creq) : list piece :=
  flat_map (comp_pieces sp (allow_main sp) r) (shape_c sp).

Definition pieces_p (sp : spec) (r : creq) : list piece :=
  flat_map (comp_pieces sp (allow_pp sp) r) (shape_p sp).

(* preprocessor_cache_entry_hash_key returns Ok(None) when !ignore_time_macros and the finder saw __TIME__
   (for an input read in one chunk, i.e. < 128 KiB, "saw" = "contains"; chunking is C04's subject) *)
Definition gated (sp : spec) (r : creq) : bool :=
  time_gate sp && negb (ignore_time r) && contains time_pat (input r).

Section Hash.
  (* util::hex(BLAKE3(.)) : 64 characters of [0-9a-f] *)
  Variable H : bytes -> bytes.

  Definition flatten (ps : list piece) : bytes :=
    concat (map (fun p => match p with Lit b => b | Dig c => H c end) ps).

  Definition encode_c (sp : spec) (r : creq) : bytes := flatten (pieces_c sp r).
  Definition encode_pp (sp : spec) (r : creq) : bytes := flatten (pieces_p sp r).

  Definition key (sp : spec) (r : creq) : bytes := H (encode_c sp r).
  Definition pp_key (sp : spec) (r : creq) : option bytes :=
    if gated sp r then None else Some (H (encode_pp sp r)).
End Hash.

(* ------------------------------------------------------------------ canonical components *)

Definition canon_c (sp : spec) (r : creq) :=
  (digest r, plusplus r, tag_of sp (lang r), args r, extra r, fenv (allow_main sp) r, pp r).

(* what the key sees of date / SOURCE_DATE_EPOCH / mtime: nothing unless the file mentions the macro (and time
   macros are not ignored); an unset SOURCE_DATE_EPOCH and an empty one are not told apart *)
Definition salt_view (r : creq) : option (option (N * N * N * bytes) * option (N * N)) :=
  if salted r
  then Some (if has_date r then Some (date r, sde_bytes r) else None,
             if has_stamp r then Some (mtime r) else None)
  else None.

Definition canon_p (sp : spec) (r : creq) :=
  (digest r, plusplus r, tag_of sp (lang r), args r, extra r, fenv (allow_pp sp) r, path r, input r, salt_view r).

(* ------------------------------------------------------------------ decidable side conditions on a spec *)

(* Languages that share a tag on purpose.  CudaFE is produced only by cudafe.rs (compiler kind cudafe++), whose
   executable is not one that ever compiles Language::Cuda, so the two never meet under one compiler digest; the
   statistics key "cuda [cudafe++]" is pinned by tests/system.rs. *)
Definition driver_bound_aliases : list (bytes * bytes) :=
  [ ([67; 117; 100; 97], [67; 117; 100; 97; 70; 69]) ].   (* Cuda, CudaFE *)

Definition alias_exempt (a b : bytes) : bool :=
  existsb (fun p => (bytes_eqb (fst p) a && bytes_eqb (snd p) b)
                    || (bytes_eqb (fst p) b && bytes_eqb (snd p) a)) driver_bound_aliases.

(* text by which one tag extends another must not look like the start of what may follow a tag:
   not a hex digit (an extra hash), first byte >= 8 and no NUL (a length prefix) *)
Definition ext_ok (s : bytes) : bool :=
  match s with
  | [] => true
  | x :: _ => nonul s && negb (is_hex x) && (8 <=? x)
  end.

Definition tag_pair_ok (e1 e2 : bytes * bytes) : bool :=
  (if bytes_eqb (snd e1) (snd e2)
   then bytes_eqb (fst e1) (fst e2) || alias_exempt (fst e1) (fst e2) else true)
  && match strip_prefix (snd e2) (snd e1) with Some s => ext_ok s | None => true end.

Definition tags_ok (sp : spec) : bool :=
  forallb (fun e1 => forallb (tag_pair_ok e1) (tags sp)) (tags sp).

Definition allow_ok (sp : spec) : bool :=
  forallb str_ok (allow_main sp) && forallb str_ok (allow_pp sp).

(* S16: every variable of the main key is also part of the preprocessor-level key *)
Definition env_covers (sp : spec) : bool :=
  forallb (allowed (allow_pp sp)) (allow_main sp).

(* The variables the property counts as result-affecting at the pinned commit.  An allow-list may grow; dropping one
   of these from it breaks [required_ok] (and the monitors, which use the union). *)
Definition required_main : list bytes :=
  [ bs "SCCACHE_C_CUSTOM_CACHE_BUSTER"; bs "MACOSX_DEPLOYMENT_TARGET"; bs "IPHONEOS_DEPLOYMENT_TARGET";
    bs "TVOS_DEPLOYMENT_TARGET"; bs "WATCHOS_DEPLOYMENT_TARGET"; bs "SDKROOT"; bs "CCC_OVERRIDE_OPTIONS" ].
Definition required_pp : list bytes :=
  required_main ++ [ bs "CPATH"; bs "C_INCLUDE_PATH"; bs "CPLUS_INCLUDE_PATH"; bs "OBJC_INCLUDE_PATH";
                     bs "OBJCPLUS_INCLUDE_PATH" ].

Definition required_ok (sp : spec) : bool :=
  forallb (allowed (allow_main sp)) required_main && forallb (allowed (allow_pp sp)) required_pp.

(* --- the C-vs-C++ driver mode at its source (compiler.rs detect_c_compiler): the detection script prints
   `compiler_id=<kind>`; each kind builds a compiler whose plusplus() is what hash_key mixes in.  The translated table
   is (kind, compiler struct, plusplus). *)
Definition ends_pp (k : bytes) : bool :=
  match rev k with 43 :: 43 :: _ => true | _ => false end.

Definition driver_pp (t : list (bytes * bytes * bool)) (k : bytes) : option bool :=
  match find (fun e => bytes_eqb (fst (fst e)) k) t with
  | Some e => Some (snd e)
  | None => None
  end.

(* a kind is a C++ driver iff its name ends in "++"; every "++" id the script can print is handled *)
Definition drivers_ok (ids : list bytes) (t : list (bytes * bytes * bool)) : bool :=
  forallb (fun e => Bool.eqb (snd e) (ends_pp (fst (fst e)))) t
  && forallb (fun i => negb (ends_pp i) || match driver_pp t i with Some _ => true | None => false end) ids.

(* c.rs generate_hash_key may filter the client environment before it calls the key functions: then the filter must
   keep every variable of BOTH allow-lists (else e.g. CPATH never reaches the preprocessor-level key) *)
Definition prefilter_ok (pf : option (list bytes)) (sp : spec) : bool :=
  match pf with
  | None => true
  | Some l => forallb (allowed l) (allow_main sp) && forallb (allowed l) (allow_pp sp)
  end.

(* --- which arguments are hashed (c.rs generate_hash_key): both keys get a CONCATENATION of lists of the parsed
   request, translated into the_flow_c / the_flow_p *)
Inductive seg :=
| SPre          (* parsed_args.preprocessor_args *)
| SArch         (* parsed_args.arch_args: the (-arch, architecture) pairs in the order of the command line *)
| SCommon       (* parsed_args.common_args *)
| SProfile      (* the absolute object path, for -fprofile-generate / --coverage builds *)
| SCwd          (* the working directory, unless hash_working_directory is off *)
| SOther.       (* anything else: a list that is sorted, de-duplicated, filtered, computed ... *)

Record parsed := {
  pa_pre : list bytes;
  pa_arch : list bytes;
  pa_common : list bytes;
  pa_profile : option bytes;
  pa_cwd : option bytes
}.

Definition opt_list (o : option bytes) : list bytes := match o with Some x => [x] | None => [] end.

Definition seg_args (p : parsed) (s : seg) : list bytes :=
  match s with
  | SPre => pa_pre p
  | SArch => pa_arch p
  | SCommon => pa_common p
  | SProfile => opt_list (pa_profile p)
  | SCwd => opt_list (pa_cwd p)
  | SOther => []
  end.

Definition hashed_args (flow : list seg) (p : parsed) : list bytes := concat (map (seg_args p) flow).

Definition expected_flow_c : list seg := [SCommon; SArch; SProfile].
Definition expected_flow_p : list seg := [SPre; SArch; SCommon; SProfile; SCwd].

(* --- extra hashed files: util::hash_all turns the LIST of files into the list of digests handed to the key
   functions.  InOrder = position i holds the digest of file i (whatever order the hashing tasks finish in). *)
Inductive order_mode := InOrder | OtherOrder.

Definition extra_digests (m : order_mode) (H : bytes -> bytes) (contents : list bytes) : list bytes :=
  match m with
  | InOrder => map H contents
  | OtherOrder => []          (* some permutation that depends on scheduling: nothing is claimed *)
  end.

(* --- file-content digests (compiler binary, extra hashed files, the input of the preprocessor-level key): the bytes
   arrive from a reader in PIECES (one per successful read); the loop of Digest::reader_sync_with feeds each piece
   and stops at the first empty one (= end of file) *)
Inductive loop_mode := StopAtEof | OtherLoop.

Fixpoint loop_fed (ps : list bytes) : bytes :=
  match ps with
  | [] => []
  | [] :: _ => []
  | p :: r => p ++ loop_fed r
  end.

Definition reader_digest (m : loop_mode) (H : bytes -> bytes) (ps : list bytes) : bytes :=
  match m with
  | StopAtEof => H (loop_fed ps)
  | OtherLoop => []
  end.

Definition nonempty (p : bytes) : bool := match p with [] => false | _ => true end.

(* --- the input path of the preprocessor-level key: AsGiven = cwd joined with the path of the command line (the path
   itself when absolute), NOT resolved through the file system *)
Inductive path_mode := AsGiven | OtherPath.

Definition input_path_of (m : path_mode) (cwd inp : bytes) : bytes :=
  match m with
  | AsGiven => if (match inp with c :: _ => N.eqb c 47 | [] => false end) then inp else cwd ++ [47] ++ inp
  | OtherPath => []
  end.

Definition spec_good (sp : spec) : Prop :=
  shape_c sp = expected_shape_c /\ shape_p sp = expected_shape_p /\ tags_ok sp = true /\ allow_ok sp = true.

(* ------------------------------------------------------------------ well-formed requests *)

(* [text] does not start with text that would turn this language's tag into another language's tag *)
Definition no_tag_ext (sp : spec) (l : bytes) (text : bytes) : bool :=
  forallb (fun e => match strip_prefix (tag_of sp l) (snd e) with
                    | Some (x :: s) => negb (prefixb (x :: s) text)
                    | _ => true
                    end) (tags sp).

Definition env_ok (al : list bytes) (r : creq) : bool :=
  forallb (fun kv => negb (allowed al (fst kv)) || str_ok (snd kv)) (env r).

Definition common_ok (sp : spec) (r : creq) : bool :=
  is_hex64 (digest r) && lang_known sp (lang r) && forallb str_ok (args r) && forallb is_hex64 (extra r).

(* what argv / envp (C strings, ARG_MAX) and a compiler's -E output guarantee, plus [no_tag_ext] *)
Definition pp_ok (sp : spec) (r : creq) : bool :=
  nonul (pp r) && no_tag_ext sp (lang r) (pp r).

Definition wf_c (sp : spec) (r : creq) : bool :=
  common_ok sp r && env_ok (allow_main sp) r && pp_ok sp r.

(* the preprocessed text does not begin with 64 hex digits (so it cannot be taken for one more extra hash) *)
Definition nohex64 (t : bytes) : bool := negb (is_hex64 (firstn 64 t)).

Definition abs_path (p : bytes) : bool :=
  match p with c :: _ => N.eqb c 47 | [] => false end.

(* for the input path (which is followed by a digest, not by the end of the pre-image) the path must not even be a
   proper prefix of such an extension *)
Definition no_tag_ext_path (sp : spec) (l : bytes) (p : bytes) : bool :=
  forallb (fun e => match strip_prefix (tag_of sp l) (snd e) with
                    | Some (x :: s) => negb (prefixb (x :: s) p) && negb (prefixb p (x :: s))
                    | _ => true
                    end) (tags sp).

(* the path does not end in 64 hex digits and "-" (it is followed by  digest  or  digest "-" digest, undelimited) *)
Definition path_tail_ok (p : bytes) : bool :=
  match rev p with
  | 45 :: t => negb (is_hex64 (rev (firstn 64 t)))
  | _ => true
  end.

Definition path_ok (sp : spec) (r : creq) : bool :=
  abs_path (path r) && nonul (path r) && no_tag_ext_path sp (lang r) (path r) && path_tail_ok (path r).

(* year, month, day and nanoseconds fit 32 bits, seconds 64 bits (pre-epoch mtimes are not modelled) *)
Definition time_ok (r : creq) : bool :=
  (fst (fst (date r)) <? 4294967296) && (snd (fst (date r)) <? 4294967296) && (snd (date r) <? 4294967296)
  && (fst (mtime r) <? 18446744073709551616) && (snd (mtime r) <? 4294967296).

Definition wf_p (sp : spec) (r : creq) : bool :=
  common_ok sp r && env_ok (allow_pp sp) r && path_ok sp r && time_ok r.

(* the extra-hash / preprocessor-output boundary is unambiguous for a pair of requests *)
Definition extra_pp_ok (r1 r2 : creq) : bool :=
  Nat.eqb (length (extra r1)) (length (extra r2)) || (nohex64 (pp r1) && nohex64 (pp r2)).

(* ------------------------------------------------------------------ record updates, pair families *)

Definition set_digest (r : creq) (x : bytes) : creq :=
  {| digest := x; plusplus := plusplus r; lang := lang r; args := args r; extra := extra r; env := env r;
     pp := pp r; path := path r; input := input r; ignore_time := ignore_time r;
     date := date r; sde := sde r; mtime := mtime r |}.
Definition set_plusplus (r : creq) (x : bool) : creq :=
  {| digest := digest r; plusplus := x; lang := lang r; args := args r; extra := extra r; env := env r;
     pp := pp r; path := path r; input := input r; ignore_time := ignore_time r;
     date := date r; sde := sde r; mtime := mtime r |}.
Definition set_lang (r : creq) (x : bytes) : creq :=
  {| digest := digest r; plusplus := plusplus r; lang := x; args := args r; extra := extra r; env := env r;
     pp := pp r; path := path r; input := input r; ignore_time := ignore_time r;
     date := date r; sde := sde r; mtime := mtime r |}.
Definition set_args (r : creq) (x : list bytes) : creq :=
  {| digest := digest r; plusplus := plusplus r; lang := lang r; args := x; extra := extra r; env := env r;
     pp := pp r; path := path r; input := input r; ignore_time := ignore_time r;
     date := date r; sde := sde r; mtime := mtime r |}.
Definition set_extra (r : creq) (x : list bytes) : creq :=
  {| digest := digest r; plusplus := plusplus r; lang := lang r; args := args r; extra := x; env := env r;
     pp := pp r; path := path r; input := input r; ignore_time := ignore_time r;
     date := date r; sde := sde r; mtime := mtime r |}.
Definition set_env (r : creq) (x : list (bytes * bytes)) : creq :=
  {| digest := digest r; plusplus := plusplus r; lang := lang r; args := args r; extra := extra r; env := x;
     pp := pp r; path := path r; input := input r; ignore_time := ignore_time r;
     date := date r; sde := sde r; mtime := mtime r |}.
Definition set_pp (r : creq) (x : bytes) : creq :=
  {| digest := digest r; plusplus := plusplus r; lang := lang r; args := args r; extra := extra r; env := env r;
     pp := x; path := path r; input := input r; ignore_time := ignore_time r;
     date := date r; sde := sde r; mtime := mtime r |}.
Definition set_path (r : creq) (x : bytes) : creq :=
  {| digest := digest r; plusplus := plusplus r; lang := lang r; args := args r; extra := extra r; env := env r;
     pp := pp r; path := x; input := input r; ignore_time := ignore_time r;
     date := date r; sde := sde r; mtime := mtime r |}.
Definition set_input (r : creq) (x : bytes) : creq :=
  {| digest := digest r; plusplus := plusplus r; lang := lang r; args := args r; extra := extra r; env := env r;
     pp := pp r; path := path r; input := x; ignore_time := ignore_time r;
     date := date r; sde := sde r; mtime := mtime r |}.

Definition set_times (r : creq) (d : N * N * N) (s : option bytes) (m : N * N) : creq :=
  {| digest := digest r; plusplus := plusplus r; lang := lang r; args := args r; extra := extra r; env := env r;
     pp := pp r; path := path r; input := input r; ignore_time := ignore_time r;
     date := d; sde := s; mtime := m |}.

(* exactly one of the seven hashed components of the result key differs *)
Definition one_differs_c (sp : spec) (r1 r2 : creq) : Prop :=
  let d := digest r1 = digest r2 in
  let p := plusplus r1 = plusplus r2 in
  let t := tag_of sp (lang r1) = tag_of sp (lang r2) in
  let a := args r1 = args r2 in
  let x := extra r1 = extra r2 in
  let e := fenv (allow_main sp) r1 = fenv (allow_main sp) r2 in
  let q := pp r1 = pp r2 in
  (~ d /\ p /\ t /\ a /\ x /\ e /\ q) \/ (d /\ ~ p /\ t /\ a /\ x /\ e /\ q) \/
  (d /\ p /\ ~ t /\ a /\ x /\ e /\ q) \/ (d /\ p /\ t /\ ~ a /\ x /\ e /\ q) \/
  (d /\ p /\ t /\ a /\ ~ x /\ e /\ q) \/ (d /\ p /\ t /\ a /\ x /\ ~ e /\ q) \/
  (d /\ p /\ t /\ a /\ x /\ e /\ ~ q).

(* exactly one of the nine hashed components of the preprocessor-level key differs *)
Definition one_differs_p (sp : spec) (r1 r2 : creq) : Prop :=
  let d := digest r1 = digest r2 in
  let p := plusplus r1 = plusplus r2 in
  let t := tag_of sp (lang r1) = tag_of sp (lang r2) in
  let a := args r1 = args r2 in
  let x := extra r1 = extra r2 in
  let e := fenv (allow_pp sp) r1 = fenv (allow_pp sp) r2 in
  let q := path r1 = path r2 in
  let i := input r1 = input r2 in
  let s := salt_view r1 = salt_view r2 in
  (~ d /\ p /\ t /\ a /\ x /\ e /\ q /\ i /\ s) \/ (d /\ ~ p /\ t /\ a /\ x /\ e /\ q /\ i /\ s) \/
  (d /\ p /\ ~ t /\ a /\ x /\ e /\ q /\ i /\ s) \/ (d /\ p /\ t /\ ~ a /\ x /\ e /\ q /\ i /\ s) \/
  (d /\ p /\ t /\ a /\ ~ x /\ e /\ q /\ i /\ s) \/ (d /\ p /\ t /\ a /\ x /\ ~ e /\ q /\ i /\ s) \/
  (d /\ p /\ t /\ a /\ x /\ e /\ ~ q /\ i /\ s) \/ (d /\ p /\ t /\ a /\ x /\ e /\ q /\ ~ i /\ s) \/
  (d /\ p /\ t /\ a /\ x /\ e /\ q /\ i /\ ~ s).
