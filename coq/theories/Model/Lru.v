(* Lru.v — executable model of sccache's LruDiskCache (src/lru_disk_cache/mod.rs
   with lru_cache.rs underneath), at the granularity of its public API.

   Modelled literally, in the order the code performs its effects:
     - LruCache: `index` is the LinkedHashMap (oldest first), `measure` is
       current_measure (kept separately from the list, as the code does),
       `lru_insert` includes the trailing `while size > capacity { remove_lru }`
       which drops index entries WITHOUT deleting files;
     - LruDiskCache: make_space (refuse / evict oldest and delete its file),
       insert_by (forget old entry, write, measure, add_file), prepare_add /
       commit / abandon with the `pending` bookkeeping, get (refresh + utimes),
       remove, init (walk, drop temp files, drop oversized files, add in
       ascending mtime order).
   The file system is a finite map from relative path to (size, mtime); mtimes
   are values of a logical clock that advances on every file-touching API call
   (the harness rewrites real mtimes to the same logical values after checking
   which files the real code touched).  Temp files are carried by the live
   handles.  *)
From Coq Require Import List NArith Bool.
From Sccache Require Import Base.Sx.
Import ListNotations.
Local Open Scope N_scope.

Definition key := list N.

(* ---------- ordered finite maps on keys (association lists) ---------- *)

Fixpoint bytes_ltb (a b : list N) : bool :=
  match a, b with
  | [], [] => false
  | [], _ :: _ => true
  | _ :: _, [] => false
  | x :: a', y :: b' => if x <? y then true else if y <? x then false else bytes_ltb a' b'
  end.

Fixpoint alookup {V} (k : key) (l : list (key * V)) : option V :=
  match l with
  | [] => None
  | (k', v) :: r => if bytes_eqb k k' then Some v else alookup k r
  end.

Fixpoint aremove {V} (k : key) (l : list (key * V)) : list (key * V) :=
  match l with
  | [] => []
  | (k', v) :: r => if bytes_eqb k k' then aremove k r else (k', v) :: aremove k r
  end.

Definition amem {V} (k : key) (l : list (key * V)) : bool :=
  match alookup k l with Some _ => true | None => false end.

(* insert keeping the list sorted by key (canonical directory listing) *)
Fixpoint ains {V} (k : key) (v : V) (l : list (key * V)) : list (key * V) :=
  match l with
  | [] => [(k, v)]
  | (k', v') :: r =>
      if bytes_eqb k k' then (k, v) :: r
      else if bytes_ltb k k' then (k, v) :: (k', v') :: r
      else (k', v') :: ains k v r
  end.

Fixpoint remove_first (k : key) (l : list key) : list key :=
  match l with
  | [] => []
  | k' :: r => if bytes_eqb k k' then r else k' :: remove_first k r
  end.

Fixpoint hlookup {V} (h : N) (l : list (N * V)) : option V :=
  match l with
  | [] => None
  | (h', v) :: r => if h =? h' then Some v else hlookup h r
  end.

Fixpoint hremove {V} (h : N) (l : list (N * V)) : list (N * V) :=
  match l with
  | [] => []
  | (h', v) :: r => if h =? h' then hremove h r else (h', v) :: hremove h r
  end.

Fixpoint hset {V} (h : N) (v : V) (l : list (N * V)) : list (N * V) :=
  match l with
  | [] => []
  | (h', v') :: r => if h =? h' then (h', v) :: r else (h', v') :: hset h v r
  end.

(* ---------- state ---------- *)

Record handle := { h_key : key; h_reserved : N; h_written : N }.

Record st := {
  cap : N;
  index : list (key * N);          (* LinkedHashMap: least recently used first *)
  measure : N;                     (* LruCache.current_measure *)
  pending : list key;              (* LruDiskCache.pending *)
  pending_size : N;                (* LruDiskCache.pending_size *)
  files : list (key * (N * N));    (* non-temp regular files: rel path -> (size, mtime) *)
  handles : list (N * handle);     (* live LruDiskCacheAddEntry values, each owning a temp file *)
  next_h : N;
  clock : N
}.

Definition set_lru (s : st) (idx : list (key * N)) (m : N) : st :=
  {| cap := cap s; index := idx; measure := m; pending := pending s;
     pending_size := pending_size s; files := files s; handles := handles s;
     next_h := next_h s; clock := clock s |}.

Definition set_files (s : st) (fs : list (key * (N * N))) : st :=
  {| cap := cap s; index := index s; measure := measure s; pending := pending s;
     pending_size := pending_size s; files := fs; handles := handles s;
     next_h := next_h s; clock := clock s |}.

Definition set_pending (s : st) (p : list key) (ps : N) : st :=
  {| cap := cap s; index := index s; measure := measure s; pending := p;
     pending_size := ps; files := files s; handles := handles s;
     next_h := next_h s; clock := clock s |}.

Definition set_handles (s : st) (hs : list (N * handle)) (nh : N) : st :=
  {| cap := cap s; index := index s; measure := measure s; pending := pending s;
     pending_size := pending_size s; files := files s; handles := hs;
     next_h := nh; clock := clock s |}.

Definition tick (s : st) : st :=
  {| cap := cap s; index := index s; measure := measure s; pending := pending s;
     pending_size := pending_size s; files := files s; handles := handles s;
     next_h := next_h s; clock := clock s + 1 |}.

(* LruDiskCache::size() *)
Definition size (s : st) : N := measure s + pending_size s.

(* ---------- LruCache ---------- *)

(* LruCache::remove *)
Definition lru_remove (s : st) (k : key) : st :=
  match alookup k (index s) with
  | Some sz => set_lru s (aremove k (index s)) (measure s - sz)
  | None => s
  end.

(* trailing loop of LruCache::insert: drops entries, deletes no file *)
Fixpoint lru_trim (idx : list (key * N)) (m c : N) : list (key * N) * N :=
  if m <=? c then (idx, m)
  else match idx with
       | [] => ([], m)
       | (_, sz) :: r => lru_trim r (m - sz) c
       end.

(* LruCache::insert: add the new size, subtract the old one if present,
   LinkedHashMap::insert (existing key: new value, moved to the back), trim *)
Definition lru_insert (s : st) (k : key) (v : N) : st :=
  let m1 := measure s + v in
  let m2 := match alookup k (index s) with Some old => m1 - old | None => m1 end in
  let idx := aremove k (index s) ++ [(k, v)] in
  let '(idx', m3) := lru_trim idx m2 (cap s) in
  set_lru s idx' m3.

(* LruCache::get (get_refresh): move to the back *)
Definition lru_get (s : st) (k : key) : option (st * N) :=
  match alookup k (index s) with
  | Some sz => Some (set_lru s (aremove k (index s) ++ [(k, sz)]) (measure s), sz)
  | None => None
  end.

(* ---------- LruDiskCache ---------- *)

(* the eviction loop of make_space: `while self.size() + size > capacity` remove_lru
   and delete its file (a missing file is tolerated).  [extra] = pending_size + size.
   Returns false if the index ran empty first (Err(FileTooLarge)). *)
Fixpoint evict (idx : list (key * N)) (m : N) (fs : list (key * (N * N))) (extra c : N)
  : bool * (list (key * N) * N * list (key * (N * N))) :=
  if m + extra <=? c then (true, (idx, m, fs))
  else match idx with
       | [] => (false, ([], m, fs))
       | (k, sz) :: r => evict r (m - sz) (aremove k fs) extra c
       end.

Definition make_space (s : st) (need : N) : bool * st :=
  if negb (need <=? cap s) || negb (pending_size s + need <=? cap s) then (false, s)
  else
    let '(ok, (idx, m, fs)) := evict (index s) (measure s) (files s) (pending_size s + need) (cap s) in
    (ok, set_files (set_lru s idx m) fs).

Inductive res := ROk | RTooLarge | RNotInCache | RIoErr | RBadHandle.

(* insert_by: [declared] is Some for insert_bytes / insert_file (size known before
   writing), None for insert_with; the writer leaves [written] bytes and then
   reports failure iff [fail]. *)
Definition insert_by (s : st) (k : key) (declared : option N) (written : N) (fail : bool)
  : st * res * option key :=
  let too_large := match declared with Some d => negb (d <=? cap s) | None => false end in
  if too_large then (s, RTooLarge, None)
  else
    let s1 := lru_remove s k in
    if fail then (set_files s1 (aremove k (files s1)), RIoErr, None)
    else
      let s2 := set_files s1 (ains k (written, clock s1 + 1) (files s1)) in
      let sz := match declared with Some d => d | None => written end in
      let '(ok, s3) := make_space s2 sz in
      if ok then (tick (lru_insert s3 k sz), ROk, Some k)
      else (set_files s3 (aremove k (files s3)), RTooLarge, None).

Definition prepare_add (s : st) (k : key) (n : N) : st * res :=
  let '(ok, s1) := make_space s n in
  if ok then
    let s2 := set_pending s1 (pending s1 ++ [k]) (pending_size s1 + n) in
    (set_handles s2 (handles s2 ++ [(next_h s2, {| h_key := k; h_reserved := n; h_written := 0 |})])
                 (next_h s2 + 1), ROk)
  else (s1, RTooLarge).

Definition write_tmp (s : st) (h m : N) : st * res :=
  match hlookup h (handles s) with
  | Some hd => (set_handles s (hset h {| h_key := h_key hd; h_reserved := h_reserved hd;
                                         h_written := h_written hd + m |} (handles s)) (next_h s), ROk)
  | None => (s, RBadHandle)
  end.

Definition release (s : st) (hd : handle) : st :=
  set_pending s (remove_first (h_key hd) (pending s)) (pending_size s - h_reserved hd).

Definition commit (s : st) (h : N) : st * res * option key :=
  match hlookup h (handles s) with
  | None => (s, RBadHandle, None)
  | Some hd =>
      let s0 := set_handles s (hremove h (handles s)) (next_h s) in
      let s1 := release s0 hd in
      let '(ok, s2) := make_space s1 (h_written hd) in
      if ok then
        let s3 := tick (set_files s2 (ains (h_key hd) (h_written hd, clock s2 + 1) (files s2))) in
        (lru_insert s3 (h_key hd) (h_written hd), ROk, Some (h_key hd))
      else (s2, RTooLarge, None)
  end.

Definition abandon (s : st) (h : N) : st * res :=
  match hlookup h (handles s) with
  | None => (s, RBadHandle)
  | Some hd => (release (set_handles s (hremove h (handles s)) (next_h s)) hd, ROk)
  end.

Definition get (s : st) (k : key) : st * res * option key :=
  match lru_get s k with
  | None => (s, RNotInCache, None)
  | Some (s1, _) =>
      match alookup k (files s1) with
      | None => (s1, RIoErr, None)
      | Some (sz, _) => (tick (set_files s1 (ains k (sz, clock s1 + 1) (files s1))), ROk, Some k)
      end
  end.

Definition remove (s : st) (k : key) : st * res :=
  match alookup k (index s) with
  | None => (s, ROk)
  | Some _ =>
      let s1 := lru_remove s k in
      match alookup k (files s1) with
      | None => (s1, RIoErr)
      | Some _ => (set_files s1 (aremove k (files s1)), ROk)
      end
  end.

(* ---------- init / reopen ---------- *)

(* stable insertion sort by mtime, oldest first (get_all_files) *)
Fixpoint ins_mtime (e : key * (N * N)) (l : list (key * (N * N))) : list (key * (N * N)) :=
  match l with
  | [] => [e]
  | e' :: r => if snd (snd e) <? snd (snd e') then e :: e' :: r else e' :: ins_mtime e r
  end.

Definition sort_mtime (l : list (key * (N * N))) : list (key * (N * N)) :=
  fold_right ins_mtime [] l.

(* TEMPFILE_PREFIX; Gen/Consts.v re-reads it from the source and Proofs/GenOk.v checks they agree *)
Definition tempfile_prefix : list N := [46; 115; 99; 99; 97; 99; 104; 101; 116; 109; 112].  (* ".sccachetmp" *)

Fixpoint starts_with (p l : list N) : bool :=
  match p, l with
  | [], _ => true
  | x :: p', y :: l' => (x =? y) && starts_with p' l'
  | _ :: _, [] => false
  end.

(* Path::file_name of a relative path: the part after the last '/' *)
Fixpoint file_name_aux (l acc : list N) : list N :=
  match l with
  | [] => acc
  | c :: r => if c =? 47 then file_name_aux r [] else file_name_aux r (acc ++ [c])
  end.
Definition file_name (k : key) : list N := file_name_aux k [].

Definition is_temp (k : key) : bool := starts_with tempfile_prefix (file_name k).

Definition init_add (s : st) (e : key * (N * N)) : st :=
  let '(k, (sz, _)) := e in
  if is_temp k then set_files s (aremove k (files s))
  else if negb (sz <=? cap s) then set_files s (aremove k (files s))
  else
    let '(ok, s1) := make_space s sz in
    if ok then lru_insert s1 k sz else s1.

(* LruDiskCache::new on the directory left by [s] (temp files of live handles
   are still there and are deleted by init; the handles themselves are gone) *)
Definition reopen (s : st) (c : N) : st :=
  let s0 := {| cap := c; index := []; measure := 0; pending := []; pending_size := 0;
               files := files s; handles := []; next_h := next_h s; clock := clock s |} in
  fold_left init_add (sort_mtime (files s)) s0.

Definition empty (c : N) : st :=
  {| cap := c; index := []; measure := 0; pending := []; pending_size := 0;
     files := []; handles := []; next_h := 0; clock := 0 |}.

(* ---------- operations ---------- *)

Inductive op :=
| InsertBytes (k : key) (n : N)
| InsertWith (k : key) (n : N) (fail : bool)
| InsertFile (k : key) (n : N)
| PrepareAdd (k : key) (n : N)
| WriteTmp (h m : N)
| Commit (h : N)
| Abandon (h : N)
| Get (k : key)
| Remove (k : key)
| Contains (k : key)
| ExternalDelete (k : key)
| Reopen (c : N).

Inductive out :=
| ORes (r : res) (touched : option key)
| OBool (b : bool).

Definition step (s : st) (o : op) : st * out :=
  match o with
  | InsertBytes k n => let '(s', r, t) := insert_by s k (Some n) n false in (s', ORes r t)
  | InsertWith k n f => let '(s', r, t) := insert_by s k None n f in (s', ORes r t)
  | InsertFile k n => let '(s', r, t) := insert_by s k (Some n) n false in (s', ORes r t)
  | PrepareAdd k n => let '(s', r) := prepare_add s k n in (s', ORes r None)
  | WriteTmp h m => let '(s', r) := write_tmp s h m in (s', ORes r None)
  | Commit h => let '(s', r, t) := commit s h in (s', ORes r t)
  | Abandon h => let '(s', r) := abandon s h in (s', ORes r None)
  | Get k => let '(s', r, t) := get s k in (s', ORes r t)
  | Remove k => let '(s', r) := remove s k in (s', ORes r None)
  | Contains k => (s, OBool (amem k (index s)))
  | ExternalDelete k => (set_files s (aremove k (files s)), ORes ROk None)
  | Reopen c => (reopen s c, ORes ROk None)
  end.

Definition run (s : st) (ops : list op) : st := fold_left (fun s o => fst (step s o)) ops s.

(* run collecting (output, state-after) for every op *)
Fixpoint trace (s : st) (ops : list op) : list (out * st) :=
  match ops with
  | [] => []
  | o :: r => let '(s', x) := step s o in (x, s') :: trace s' r
  end.
