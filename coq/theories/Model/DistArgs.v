(* Model/DistArgs.v — C13: the local and the remote command line synthesised by
   `gcc::generate_compile_commands` (src/compiler/gcc.rs; called for gcc with `language_to_gcc_arg`
   and for clang with `language_to_clang_arg`) from an already parsed `ParsedArguments`.
   The argument parser itself is property C01's model.

   Strings are byte lists.  A remote command only exists when every string that has to travel is
   valid UTF-8 (`OsString::into_string().ok()?`, `Path::to_str()` in the unix PathTransformer) and the
   working directory is absolute (`as_dist_abs`).

   `fixed = false`: the pinned commit.  `fixed = true`: after
     fix: dist: do not append -cpp-output to objective-c++-header
     fix: dist: pass the -arch arguments to the remote compiler as well   *)
From Coq Require Import List NArith Bool.
From Coq Require String.
Import String.StringSyntax.
From Sccache Require Import Base.Sx.
Import ListNotations.
Local Open Scope N_scope.
Local Open Scope string_scope.

Definition bytes := list N.

(* ---- UTF-8 validity as core::str::from_utf8 decides it ---- *)
Definition in_range (lo hi x : N) : bool := (lo <=? x) && (x <=? hi).
Definition cont (x : N) : bool := in_range 128 191 x.

Fixpoint utf8_valid (l : bytes) : bool :=
  match l with
  | [] => true
  | b :: r =>
      if b <=? 127 then utf8_valid r
      else if in_range 194 223 b then
        match r with c1 :: r' => cont c1 && utf8_valid r' | _ => false end
      else if b =? 224 then
        match r with c1 :: c2 :: r' => in_range 160 191 c1 && cont c2 && utf8_valid r' | _ => false end
      else if in_range 225 236 b || in_range 238 239 b then
        match r with c1 :: c2 :: r' => cont c1 && cont c2 && utf8_valid r' | _ => false end
      else if b =? 237 then
        match r with c1 :: c2 :: r' => in_range 128 159 c1 && cont c2 && utf8_valid r' | _ => false end
      else if b =? 240 then
        match r with c1 :: c2 :: c3 :: r' => in_range 144 191 c1 && cont c2 && cont c3 && utf8_valid r' | _ => false end
      else if in_range 241 243 b then
        match r with c1 :: c2 :: c3 :: r' => cont c1 && cont c2 && cont c3 && utf8_valid r' | _ => false end
      else if b =? 244 then
        match r with c1 :: c2 :: c3 :: r' => in_range 128 143 c1 && cont c2 && cont c3 && utf8_valid r' | _ => false end
      else false
  end.

Definition all_utf8 (l : list bytes) : bool := forallb utf8_valid l.

(* ---- compiler::Language ---- *)
Inductive language :=
| LC | LCxx | LGenericHeader | LCHeader | LCxxHeader | LObjC | LObjCxx | LObjCxxHeader
| LCuda | LCudaFE | LPtx | LCubin | LRust | LHip.

Definition language_eqb (a b : language) : bool :=
  match a, b with
  | LC, LC | LCxx, LCxx | LGenericHeader, LGenericHeader | LCHeader, LCHeader | LCxxHeader, LCxxHeader
  | LObjC, LObjC | LObjCxx, LObjCxx | LObjCxxHeader, LObjCxxHeader | LCuda, LCuda | LCudaFE, LCudaFE
  | LPtx, LPtx | LCubin, LCubin | LRust, LRust | LHip, LHip => true
  | _, _ => false
  end.

(* language_to_gcc_arg / language_to_clang_arg *)
Definition language_to_arg (is_gcc : bool) (l : language) : option bytes :=
  match l with
  | LC => Some (bs "c")
  | LCHeader => Some (bs "c-header")
  | LCxx => Some (bs "c++")
  | LCxxHeader => Some (bs "c++-header")
  | LObjC => Some (bs "objective-c")
  | LObjCxx => Some (bs "objective-c++")
  | LObjCxxHeader => Some (bs "objective-c++-header")
  | LCuda => Some (if is_gcc then bs "cu" else bs "cuda")
  | LCudaFE => None
  | LPtx => None
  | LCubin => None
  | LRust => None
  | LHip => Some (bs "hip")
  | LGenericHeader => None
  end.

Record parsed := {
  p_input : bytes;
  p_dd : bool;                    (* double_dash_input *)
  p_lang : language;
  p_cflag : bytes;                (* compilation_flag: -c, -S, ... *)
  p_out : option bytes;           (* outputs.get("obj").path *)
  p_pre : list bytes;             (* preprocessor_args *)
  p_dep : list bytes;             (* dependency_args *)
  p_unhashed : list bytes;
  p_common : list bytes;
  p_arch : list bytes;
  p_suppress_rio : bool }.        (* suppress_rewrite_includes_only *)

Record env := {
  e_gcc : bool;                   (* CCompilerKind::Gcc (true) / Clang (false) *)
  e_rio : bool;                   (* rewrite_includes_only *)
  e_exe : bytes;
  e_cwd : bytes;
  e_vars : list (bytes * bytes) }.

(* the arguments that enter the hash key (c.rs: common_args ++ arch_args) *)
Definition hashed_args (p : parsed) : list bytes := p_common p ++ p_arch p.

Definition xlang (l : option bytes) : list bytes :=
  match l with Some s => [bs "-x"; s] | None => [] end.

Definition local_args (e : env) (p : parsed) (out : bytes) : list bytes :=
  xlang (language_to_arg (e_gcc e) (p_lang p))
  ++ [p_cflag p; bs "-o"; out]
  ++ p_pre p ++ p_dep p ++ p_unhashed p ++ p_common p ++ p_arch p
  ++ (if p_dd p then [bs "--"] else [])
  ++ [p_input p].

Definition mem_bytes (x : bytes) (l : list bytes) : bool := existsb (bytes_eqb x) l.

Definition has_verbose (args : list bytes) : bool :=
  mem_bytes (bs "-v") args || mem_bytes (bs "--verbose") args.

(* the `-x` value for the remote side; outer None = the closure's `?` gives up (no dist command) *)
Definition dist_lang (fixed : bool) (e : env) (l : language) : option (option bytes) :=
  let a := language_to_arg (e_gcc e) l in
  if e_rio e then Some a
  else match l with
       | LC => Some (Some (bs "cpp-output"))
       | LGenericHeader | LCHeader | LCxxHeader => Some a
       | LObjCxxHeader =>
           if fixed then Some a
           else match a with Some s => Some (Some (s ++ bs "-cpp-output")) | None => None end
       | _ => match a with Some s => Some (Some (s ++ bs "-cpp-output")) | None => None end
       end.

Definition pp_flags (e : env) (p : parsed) : list bytes :=
  if e_gcc e
  then (if e_rio e && negb (p_suppress_rio p) then [bs "-fdirectives-only"] else []) ++ [bs "-fpreprocessed"]
  else [].

Definition is_abs (pth : bytes) : bool :=
  match pth with 47 :: _ => true | _ => false end.

Record dist_cmd := { d_exe : bytes; d_args : list bytes; d_env : list (bytes * bytes); d_cwd : bytes }.

Definition dist_command (fixed : bool) (e : env) (p : parsed) (out : bytes) : option dist_cmd :=
  if has_verbose (local_args e p out) || language_eqb (p_lang p) LCuda then None
  else match dist_lang fixed e (p_lang p) with
       | None => None
       | Some dl =>
           if utf8_valid (p_cflag p) && utf8_valid (p_input p) && utf8_valid out
              && all_utf8 (p_common p) && (negb fixed || all_utf8 (p_arch p))
              && utf8_valid (e_exe e)
              && forallb (fun kv => utf8_valid (fst kv) && utf8_valid (snd kv)) (e_vars e)
              && is_abs (e_cwd e) && utf8_valid (e_cwd e)
           then Some {| d_exe := e_exe e;
                        d_args := xlang dl ++ [p_cflag p; p_input p; bs "-o"; out] ++ pp_flags e p
                                  ++ p_common p ++ (if fixed then p_arch p else []);
                        d_env := e_vars e;
                        d_cwd := e_cwd e |}
           else None
       end.

(* Result<(local command, Option<dist command>)> : None = Err("Missing object file output") *)
Definition generate (fixed : bool) (e : env) (p : parsed) : option (list bytes * option dist_cmd) :=
  match p_out p with
  | None => None
  | Some out => Some (local_args e p out, dist_command fixed e p out)
  end.

(* `-x` names that gcc / clang accept for already-preprocessed or header input
   (gcc "Overall Options"; clang Types.def) — the reference the remote `-x` value is checked against *)
Definition known_x_langs : list bytes :=
  map bs ["c"; "c-header"; "cpp-output"; "c++"; "c++-header"; "c++-cpp-output";
          "objective-c"; "objective-c-header"; "objective-c-cpp-output";
          "objective-c++"; "objective-c++-header"; "objective-c++-cpp-output";
          "cu"; "cuda"; "cuda-cpp-output"; "hip"; "hip-cpp-output"].
