(* RustToolchain.v — the rustc side of C12, two small executable models.

   (1) PROXY WORLD.  A compiler path that is a rustup proxy leads to the rustc of the toolchain rustup
   currently selects (`rustup which rustc`: rustup default / override / rust-toolchain / RUSTUP_TOOLCHAIN).
   src/server.rs compiler_info, proxy branch: for EVERY request the registered proxy is asked again
   (RustupProxy::resolve_proxied_executable spawns `rustup which rustc` and stats the answer), the
   `compilers` map is looked up under (proxy path, resolved rustc) and the entry is reused iff the resolved
   rustc's mtime is the recorded one; otherwise the toolchain is detected again (Rust::new: identity =
   digests of the sysroot's shared libraries).  A request straight through a toolchain's rustc (no proxy)
   is keyed (that path, that path).  `memo = true` is the shape in which the proxy remembers rustup's first
   answer for as long as that rustc exists (seed class C12-7).
   World: toolchain directory t -> option (build id, mtime of its rustc); `dflt` = rustup's selection.
   Left out (the generators respect it): a selection that points to a toolchain that is not installed
   (the code then falls back to the entry of the very first detection), changes of the proxy file itself
   (C-path model + e2e-rustup scenario), the detection window (Model/CompilerCache.v).

   (2) IDENTITY OF A RUSTC.  Rust::new hashes the files <sysroot>/lib/*.so — regular files AND symbolic
   links to regular files (`t.is_file() || t.is_symlink() && p.is_file()`), sorted by path.  `follow =
   false` is the shape that takes regular files only (seed class C12-8). *)
From Coq Require Import List NArith Bool.
Import ListNotations.
Local Open Scope N_scope.

(* ---------------------------------------------------------------- (1) *)

Definition PROXY : N := 1000.      (* the path id of the proxy; toolchain rustc paths are < 1000 *)

Definition tcs := list (N * (N * N)).            (* toolchain -> (build, mtime) *)

Fixpoint tlookup (t : N) (l : tcs) : option (N * N) :=
  match l with
  | [] => None
  | (t', v) :: r => if t =? t' then Some v else tlookup t r
  end.

Fixpoint tremove (t : N) (l : tcs) : tcs :=
  match l with
  | [] => []
  | (t', v) :: r => if t =? t' then tremove t r else (t', v) :: tremove t r
  end.

Definition rkey := (N * N)%type.                  (* (requested path, resolved rustc) *)
Definition rkey_eqb (a b : rkey) : bool := (fst a =? fst b) && (snd a =? snd b).

Record rentry := { re_exe : N; re_id : N; re_mtime : N }.

Fixpoint elookup (k : rkey) (l : list (rkey * rentry)) : option rentry :=
  match l with
  | [] => None
  | (k', v) :: r => if rkey_eqb k k' then Some v else elookup k r
  end.

Fixpoint eremove (k : rkey) (l : list (rkey * rentry)) : list (rkey * rentry) :=
  match l with
  | [] => []
  | (k', v) :: r => if rkey_eqb k k' then eremove k r else (k', v) :: eremove k r
  end.

Record rstate := {
  r_tcs : tcs;
  r_dflt : N;
  r_memo : option N;                       (* what the proxy object remembers (memo variant only) *)
  r_held : option (N * N * N * N);         (* a detection in flight: (toolchain, src, identity taken at its start, mtime read at its start) *)
  r_comps : list (rkey * rentry);
  r_results : list (N * N) }.

Inductive rop :=
| RDefault (t : N)                          (* rustup default / override / rust-toolchain edit *)
| RInstall (t b m : N)                      (* (re)install toolchain t: its rustc is build b, mtime m *)
| RReq (src : N)                            (* compile through the proxy *)
| RReqDirect (t src : N)                    (* compile through toolchain t's own rustc *)
| RHoldBegin (t src : N)                    (* a request through toolchain t's rustc whose DETECTION starts now and is long:
                                               the build in place names its sysroot (that fixes the identity), then the
                                               libraries are hashed ... *)
| RHoldEnd.                                 (* ... and now it is over: re-stat, memoise if unchanged, compile *)

Inductive routcome := RUnsupported | RPending | RHit (producer : N) | RMiss (producer : N).

Record revent := {
  v_direct : option N;                       (* Some t = requested through toolchain t's rustc *)
  v_src : N;
  v_sel : N;                                 (* the toolchain the requested path leads to NOW *)
  v_cur : option (N * N);                    (* build and mtime of that toolchain's rustc *)
  v_used : option N;                         (* the toolchain the server resolved the request to *)
  v_id : option N;
  v_key : option N;
  v_held : bool;                             (* the request overlapped its own long detection (RHoldBegin / RHoldEnd) *)
  v_out : routcome }.

Fixpoint rrlookup (k : N) (r : list (N * N)) : option N :=
  match r with
  | [] => None
  | (k', v) :: t => if k =? k' then Some v else rrlookup k t
  end.

Section Proxy.
  Variable ident : N -> N.                   (* build -> identity (digests of its sysroot libraries) *)
  Variable H : N -> N -> N.

  (* serve a request that the server resolved to toolchain `used`, requested through path `req` *)
  Definition rset (s : rstate) (memo' : option N) (held' : option (N * N * N * N))
             (comps' : list (rkey * rentry)) (res' : list (N * N)) : rstate :=
    {| r_tcs := r_tcs s; r_dflt := r_dflt s; r_memo := memo'; r_held := held'; r_comps := comps';
       r_results := res' |}.

  (* serve a request that the server resolved to toolchain `used`, requested through path `req`;
     forced = Some id: the identity is not the server's own finding but the one of a detection the
     request joined (join variant only) *)
  Definition rserve (s : rstate) (memo' : option N) (direct : option N) (req used sel src : N)
             (held : bool) (forced : option N) : rstate * revent :=
    let cur := tlookup sel (r_tcs s) in
    let ev used' id key out :=
      {| v_direct := direct; v_src := src; v_sel := sel; v_cur := cur; v_used := used';
         v_id := id; v_key := key; v_held := held; v_out := out |} in
    match tlookup used (r_tcs s) with
    | None => (rset s memo' (r_held s) (r_comps s) (r_results s), ev None None None RUnsupported)
    | Some (b, m) =>
        let k := (req, used) in
        let '(comps', id) :=
          match forced with
          | Some id0 => (r_comps s, id0)
          | None =>
              match elookup k (r_comps s) with
              | Some e => if re_mtime e =? m then (r_comps s, re_id e)
                          else ((k, {| re_exe := used; re_id := ident b; re_mtime := m |}) :: eremove k (r_comps s), ident b)
              | None => ((k, {| re_exe := used; re_id := ident b; re_mtime := m |}) :: eremove k (r_comps s), ident b)
              end
          end in
        let key := H id src in
        match rrlookup key (r_results s) with
        | Some prod =>
            (rset s memo' (r_held s) comps' (r_results s), ev (Some used) (Some id) (Some key) (RHit prod))
        | None =>
            (* the remembered executable is the resolved rustc = toolchain `used`: it compiles *)
            (rset s memo' (r_held s) comps' ((key, b) :: r_results s), ev (Some used) (Some id) (Some key) (RMiss b))
        end
    end.

  (* does a request through toolchain t's rustc find a usable memo entry? *)
  Definition memo_hit (s : rstate) (t : N) : bool :=
    match tlookup t (r_tcs s), elookup (t, t) (r_comps s) with
    | Some (_, m), Some e => re_mtime e =? m
    | _, _ => false
    end.

  (* memo: the proxy remembers rustup's answer (seed class C12-7).  join: a request that misses the memo while a
     detection for its key is in flight waits for it and takes ITS result (seed class C12-10). *)
  Definition rstep (memo join : bool) (s : rstate) (o : rop) : rstate * option revent :=
    match o with
    | RDefault t =>
        ({| r_tcs := r_tcs s; r_dflt := t; r_memo := r_memo s; r_held := r_held s; r_comps := r_comps s;
            r_results := r_results s |}, None)
    | RInstall t b m =>
        ({| r_tcs := (t, (b, m)) :: tremove t (r_tcs s); r_dflt := r_dflt s; r_memo := r_memo s;
            r_held := r_held s; r_comps := r_comps s; r_results := r_results s |}, None)
    | RReq src =>
        let fresh := r_dflt s in
        let used :=
          if memo then
            match r_memo s with
            | Some t0 => match tlookup t0 (r_tcs s) with Some _ => t0 | None => fresh end
            | None => fresh
            end
          else fresh in
        let memo' := if memo then (match tlookup used (r_tcs s) with Some _ => Some used | None => None end)
                     else None in
        let '(s', e) := rserve s memo' None PROXY used fresh src false None in (s', Some e)
    | RReqDirect t src =>
        let forced :=
          if join then
            match r_held s with
            | Some (t0, _, id0, _) => if (t0 =? t) && negb (memo_hit s t) then Some id0 else None
            | None => None
            end
          else None in
        let '(s', e) := rserve s (r_memo s) (Some t) t t t src false forced in (s', Some e)
    | RHoldBegin t src =>
        match r_held s, tlookup t (r_tcs s) with
        | None, Some (b0, m0) =>
            if memo_hit s t
            then let '(s', e) := rserve s (r_memo s) (Some t) t t t src true None in (s', Some e)
            else (rset s (r_memo s) (Some (t, src, ident b0, m0)) (r_comps s) (r_results s),
                  Some {| v_direct := Some t; v_src := src; v_sel := t; v_cur := Some (b0, m0); v_used := Some t;
                          v_id := Some (ident b0); v_key := None; v_held := true; v_out := RPending |})
        | None, None =>
            let '(s', e) := rserve s (r_memo s) (Some t) t t t src true None in (s', Some e)
        | Some _, _ => (s, None)                 (* one long detection at a time *)
        end
    | RHoldEnd =>
        match r_held s with
        | None => (s, None)
        | Some (t, src, id0, m0) =>
            let k := (t, t) in
            let cur := tlookup t (r_tcs s) in
            (* the re-stat: memoise only if the rustc still has the mtime read before the detection *)
            let comps' :=
              match cur with
              | Some (_, m1) => if m1 =? m0
                                then (k, {| re_exe := t; re_id := id0; re_mtime := m0 |}) :: eremove k (r_comps s)
                                else eremove k (r_comps s)
              | None => eremove k (r_comps s)
              end in
            let key := H id0 src in
            let ev out := {| v_direct := Some t; v_src := src; v_sel := t; v_cur := cur; v_used := Some t;
                             v_id := Some id0; v_key := Some key; v_held := true; v_out := out |} in
            match cur with
            | None => (rset s (r_memo s) None comps' (r_results s), Some (ev RUnsupported))
            | Some (b1, _) =>
                match rrlookup key (r_results s) with
                | Some prod => (rset s (r_memo s) None comps' (r_results s), Some (ev (RHit prod)))
                | None => (rset s (r_memo s) None comps' ((key, b1) :: r_results s), Some (ev (RMiss b1)))
                end
            end
        end
    end.

  Fixpoint rexec (memo join : bool) (s : rstate) (ops : list rop) : list revent :=
    match ops with
    | [] => []
    | o :: r =>
        match snd (rstep memo join s o) with
        | Some e => e :: rexec memo join (fst (rstep memo join s o)) r
        | None => rexec memo join (fst (rstep memo join s o)) r
        end
    end.

  Definition rstart : rstate :=
    {| r_tcs := []; r_dflt := 0; r_memo := None; r_held := None; r_comps := []; r_results := [] |}.

  (* the sources of requests with a long detection are not requested otherwise: such a request is keyed on the
     build that was in place when its detection started and compiled by the one in place when it ended, and what
     it leaves in the result cache is not covered by the property (it overlapped the change) *)
  Definition held_srcs (ops : list rop) : list N :=
    flat_map (fun o => match o with RHoldBegin _ s => [s] | _ => [] end) ops.
  Definition plain_srcs (ops : list rop) : list N :=
    flat_map (fun o => match o with RReq s => [s] | RReqDirect _ s => [s] | _ => [] end) ops.
  Definition held_srcs_reserved (ops : list rop) : bool :=
    forallb (fun s => negb (existsb (N.eqb s) (held_srcs ops))) (plain_srcs ops).

  (* premise: at one toolchain's rustc, the same mtime means the same build (over what requests saw) *)
  Definition ragree (a b : revent) : bool :=
    match v_cur a, v_cur b with
    | Some (b1, m1), Some (b2, m2) => implb ((v_sel a =? v_sel b) && (m1 =? m2)) (b1 =? b2)
    | _, _ => true
    end.
  Definition rwf (evs : list revent) : bool := forallb (fun a => forallb (ragree a) evs) evs.

  Definition rserved (e : revent) : option N :=
    match v_out e with RHit p => Some p | RMiss p => Some p | _ => None end.

  (* the request was resolved to the toolchain its path leads to now, keyed on that build's identity,
     and what it hands back was made by that build *)
  Definition rright (e : revent) : bool :=
    match v_cur e with
    | Some (b, _) =>
        match v_used e, v_id e, rserved e with
        | Some u, Some id, Some prod => (u =? v_sel e) && (id =? ident b) && (prod =? b)
        | _, _, _ => false
        end
    | None => match rserved e with None => true | Some _ => false end
    end.

  Definition builds_of (ops : list rop) : list N :=
    flat_map (fun o => match o with RInstall _ b _ => [b] | _ => [] end) ops.
  Definition rsrcs_of (ops : list rop) : list N :=
    flat_map (fun o => match o with RReq s => [s] | RReqDirect _ s => [s] | RHoldBegin _ s => [s] | _ => [] end) ops.
  Definition rcollision_free (ops : list rop) : bool :=
    let B := builds_of ops in let S := rsrcs_of ops in
    forallb (fun b1 => forallb (fun b2 =>
      implb (ident b1 =? ident b2) (b1 =? b2) &&
      forallb (fun s1 => forallb (fun s2 =>
        implb (H (ident b1) s1 =? H (ident b2) s2) ((ident b1 =? ident b2) && (s1 =? s2))) S) S) B) B.
End Proxy.

(* ---------------------------------------------------------------- (2) *)

Inductive lib_entry :=
| LFile (is_so : bool) (content : N)                  (* a regular file *)
| LLink (is_so : bool) (target : option N)            (* a symbolic link; Some c = to a regular file with content c *)
| LDir.

(* what the dynamic loader finds under the .so names of the directory *)
Definition lib_contents (es : list lib_entry) : list N :=
  flat_map (fun e => match e with
                     | LFile true c => [c]
                     | LLink true (Some c) => [c]
                     | _ => []
                     end) es.

(* what Rust::new hashes (entries are in path order) *)
Definition lib_hashed (follow : bool) (es : list lib_entry) : list N :=
  flat_map (fun e => match e with
                     | LFile true c => [c]
                     | LLink true (Some c) => if follow then [c] else []
                     | _ => []
                     end) es.

Definition rust_identity (dg : N -> N) (follow : bool) (es : list lib_entry) : list N :=
  map dg (lib_hashed follow es).
