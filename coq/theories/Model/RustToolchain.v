(* RustToolchain.v — the rustc side of C12, two small executable models.

   (1) PROXY WORLD.  A compiler path that is a rustup proxy leads to the rustc of the toolchain rustup
   currently selects (`rustup which rustc`: rustup default / override / rust-toolchain / RUSTUP_TOOLCHAIN).
   src/server.rs compiler_info, proxy branch: for EVERY request the registered proxy is asked again
   (RustupProxy::resolve_proxied_executable spawns `rustup which rustc` and stats the answer), the
   `compilers` map is looked up under (proxy path, resolved rustc) and the entry is reused iff the resolved
   rustc's mtime is the recorded one; otherwise the toolchain is detected again (Rust::new: identity =
   digests of the sysroot's shared libraries).  A request straight through a toolchain's rustc (no proxy)
   is keyed (that path, that path).  `memo = true` is the shape in which the proxy remembers rustup's first
   answer for as long as that rustc exists (seed class C12-7).
   World: toolchain directory t -> option (build id, mtime of its rustc); `dflt` = rustup's selection.
   Left out (the generators respect it): a selection that points to a toolchain that is not installed
   (the code then falls back to the entry of the very first detection), changes of the proxy file itself
   (C-path model + e2e-rustup scenario), the detection window (Model/CompilerCache.v).

   (2) IDENTITY OF A RUSTC.  Rust::new hashes the files <sysroot>/lib/*.so — regular files AND symbolic
   links to regular files (`t.is_file() || t.is_symlink() && p.is_file()`), sorted by path.  `follow =
   false` is the shape that takes regular files only (seed class C12-8). *)
From Coq Require Import List NArith Bool.
Import ListNotations.
Local Open Scope N_scope.

(* ---------------------------------------------------------------- (1) *)

Definition PROXY : N := 1000.      (* the path id of the proxy; toolchain rustc paths are < 1000 *)

Definition tcs := list (N * (N * N)).            (* toolchain -> (build, mtime) *)

Fixpoint tlookup (t : N) (l : tcs) : option (N * N) :=
  match l with
  | [] => None
  | (t', v) :: r => if t =? t' then Some v else tlookup t r
  end.

Fixpoint tremove (t : N) (l : tcs) : tcs :=
  match l with
  | [] => []
  | (t', v) :: r => if t =? t' then tremove t r else (t', v) :: tremove t r
  end.

Definition rkey := (N * N)%type.                  (* (requested path, resolved rustc) *)
Definition rkey_eqb (a b : rkey) : bool := (fst a =? fst b) && (snd a =? snd b).

Record rentry := { re_exe : N; re_id : N; re_mtime : N }.

Fixpoint elookup (k : rkey) (l : list (rkey * rentry)) : option rentry :=
  match l with
  | [] => None
  | (k', v) :: r => if rkey_eqb k k' then Some v else elookup k r
  end.

Fixpoint eremove (k : rkey) (l : list (rkey * rentry)) : list (rkey * rentry) :=
  match l with
  | [] => []
  | (k', v) :: r => if rkey_eqb k k' then eremove k r else (k', v) :: eremove k r
  end.

Record rstate := {
  r_tcs : tcs;
  r_dflt : N;
  r_memo : option N;                       (* what the proxy object remembers (memo variant only) *)
  r_comps : list (rkey * rentry);
  r_results : list (N * N) }.

Inductive rop :=
| RDefault (t : N)                          (* rustup default / override / rust-toolchain edit *)
| RInstall (t b m : N)                      (* (re)install toolchain t: its rustc is build b, mtime m *)
| RReq (src : N)                            (* compile through the proxy *)
| RReqDirect (t src : N).                   (* compile through toolchain t's own rustc *)

Inductive routcome := RUnsupported | RHit (producer : N) | RMiss (producer : N).

Record revent := {
  v_direct : option N;                       (* Some t = requested through toolchain t's rustc *)
  v_src : N;
  v_sel : N;                                 (* the toolchain the requested path leads to NOW *)
  v_cur : option (N * N);                    (* build and mtime of that toolchain's rustc *)
  v_used : option N;                         (* the toolchain the server resolved the request to *)
  v_id : option N;
  v_key : option N;
  v_out : routcome }.

Fixpoint rrlookup (k : N) (r : list (N * N)) : option N :=
  match r with
  | [] => None
  | (k', v) :: t => if k =? k' then Some v else rrlookup k t
  end.

Section Proxy.
  Variable ident : N -> N.                   (* build -> identity (digests of its sysroot libraries) *)
  Variable H : N -> N -> N.

  (* serve a request that the server resolved to toolchain `used`, requested through path `req` *)
  Definition rserve (s : rstate) (memo' : option N) (direct : option N) (req used sel src : N)
    : rstate * revent :=
    let cur := tlookup sel (r_tcs s) in
    let ev used' id key out :=
      {| v_direct := direct; v_src := src; v_sel := sel; v_cur := cur; v_used := used';
         v_id := id; v_key := key; v_out := out |} in
    match tlookup used (r_tcs s) with
    | None =>
        ({| r_tcs := r_tcs s; r_dflt := r_dflt s; r_memo := memo'; r_comps := r_comps s;
            r_results := r_results s |}, ev None None None RUnsupported)
    | Some (b, m) =>
        let k := (req, used) in
        let '(comps', id) :=
          match elookup k (r_comps s) with
          | Some e => if re_mtime e =? m then (r_comps s, re_id e)
                      else ((k, {| re_exe := used; re_id := ident b; re_mtime := m |}) :: eremove k (r_comps s), ident b)
          | None => ((k, {| re_exe := used; re_id := ident b; re_mtime := m |}) :: eremove k (r_comps s), ident b)
          end in
        let key := H id src in
        match rrlookup key (r_results s) with
        | Some prod =>
            ({| r_tcs := r_tcs s; r_dflt := r_dflt s; r_memo := memo'; r_comps := comps';
                r_results := r_results s |}, ev (Some used) (Some id) (Some key) (RHit prod))
        | None =>
            (* the remembered executable is the resolved rustc = toolchain `used`: it compiles *)
            ({| r_tcs := r_tcs s; r_dflt := r_dflt s; r_memo := memo'; r_comps := comps';
                r_results := (key, b) :: r_results s |}, ev (Some used) (Some id) (Some key) (RMiss b))
        end
    end.

  Definition rstep (memo : bool) (s : rstate) (o : rop) : rstate * option revent :=
    match o with
    | RDefault t =>
        ({| r_tcs := r_tcs s; r_dflt := t; r_memo := r_memo s; r_comps := r_comps s;
            r_results := r_results s |}, None)
    | RInstall t b m =>
        ({| r_tcs := (t, (b, m)) :: tremove t (r_tcs s); r_dflt := r_dflt s; r_memo := r_memo s;
            r_comps := r_comps s; r_results := r_results s |}, None)
    | RReq src =>
        let fresh := r_dflt s in
        let used :=
          if memo then
            match r_memo s with
            | Some t0 => match tlookup t0 (r_tcs s) with Some _ => t0 | None => fresh end
            | None => fresh
            end
          else fresh in
        let memo' := if memo then (match tlookup used (r_tcs s) with Some _ => Some used | None => None end)
                     else None in
        let '(s', e) := rserve s memo' None PROXY used fresh src in (s', Some e)
    | RReqDirect t src =>
        let '(s', e) := rserve s (r_memo s) (Some t) t t t src in (s', Some e)
    end.

  Fixpoint rexec (memo : bool) (s : rstate) (ops : list rop) : list revent :=
    match ops with
    | [] => []
    | o :: r =>
        match snd (rstep memo s o) with
        | Some e => e :: rexec memo (fst (rstep memo s o)) r
        | None => rexec memo (fst (rstep memo s o)) r
        end
    end.

  Definition rstart : rstate :=
    {| r_tcs := []; r_dflt := 0; r_memo := None; r_comps := []; r_results := [] |}.

  (* premise: at one toolchain's rustc, the same mtime means the same build (over what requests saw) *)
  Definition ragree (a b : revent) : bool :=
    match v_cur a, v_cur b with
    | Some (b1, m1), Some (b2, m2) => implb ((v_sel a =? v_sel b) && (m1 =? m2)) (b1 =? b2)
    | _, _ => true
    end.
  Definition rwf (evs : list revent) : bool := forallb (fun a => forallb (ragree a) evs) evs.

  Definition rserved (e : revent) : option N :=
    match v_out e with RHit p => Some p | RMiss p => Some p | RUnsupported => None end.

  (* the request was resolved to the toolchain its path leads to now, keyed on that build's identity,
     and what it hands back was made by that build *)
  Definition rright (e : revent) : bool :=
    match v_cur e with
    | Some (b, _) =>
        match v_used e, v_id e, rserved e with
        | Some u, Some id, Some prod => (u =? v_sel e) && (id =? ident b) && (prod =? b)
        | _, _, _ => false
        end
    | None => match rserved e with None => true | Some _ => false end
    end.

  Definition builds_of (ops : list rop) : list N :=
    flat_map (fun o => match o with RInstall _ b _ => [b] | _ => [] end) ops.
  Definition rsrcs_of (ops : list rop) : list N :=
    flat_map (fun o => match o with RReq s => [s] | RReqDirect _ s => [s] | _ => [] end) ops.
  Definition rcollision_free (ops : list rop) : bool :=
    let B := builds_of ops in let S := rsrcs_of ops in
    forallb (fun b1 => forallb (fun b2 =>
      implb (ident b1 =? ident b2) (b1 =? b2) &&
      forallb (fun s1 => forallb (fun s2 =>
        implb (H (ident b1) s1 =? H (ident b2) s2) ((ident b1 =? ident b2) && (s1 =? s2))) S) S) B) B.
End Proxy.

(* ---------------------------------------------------------------- (2) *)

Inductive lib_entry :=
| LFile (is_so : bool) (content : N)                  (* a regular file *)
| LLink (is_so : bool) (target : option N)            (* a symbolic link; Some c = to a regular file with content c *)
| LDir.

(* what the dynamic loader finds under the .so names of the directory *)
Definition lib_contents (es : list lib_entry) : list N :=
  flat_map (fun e => match e with
                     | LFile true c => [c]
                     | LLink true (Some c) => [c]
                     | _ => []
                     end) es.

(* what Rust::new hashes (entries are in path order) *)
Definition lib_hashed (follow : bool) (es : list lib_entry) : list N :=
  flat_map (fun e => match e with
                     | LFile true c => [c]
                     | LLink true (Some c) => if follow then [c] else []
                     | _ => []
                     end) es.

Definition rust_identity (dg : N -> N) (follow : bool) (es : list lib_entry) : list N :=
  map dg (lib_hashed follow es).
