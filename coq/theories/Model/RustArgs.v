(* RustArgs.v — executable model of `parse_arguments` in src/compiler/rust.rs together with the generic argument
   iterator of src/compiler/args.rs (ArgInfo::cmp, bsearch, ArgInfo::process, ArgsIter::next, normalize), over the
   table `ARGS` that the translator copies from rust.rs (Gen/C05ArgTable.v).

   Literal points:
     - ArgInfo::cmp does prefix matching only for CanBeSeparated / Concatenated entries; with a delimiter the
       character after the flag is COMPARED with the delimiter (so the result can be Less/Greater, not Equal);
     - bsearch prefers a match found to the right of a matching middle element;
     - process: `-C` at the very end of the command line (no value, no delimiter) becomes a value "" with the
       disposition Concatenated; the value of a take_arg is parsed by the FromArg impl of its type and an error
       there is "argument parse";
     - parse_arguments: the order of the checks, early returns on the first offending argument, `--color` is
       dropped from the argument list, externs are sorted, static libraries are looked up in the -L native=/all=
       directories in the order lib<name>.a, <name>.lib, <name>.a.
   Values printed back (`into_arg_os_string`) differ from the input for --crate-type (sorted, `lib` -> `rlib`,
   duplicates removed), -l (`name` -> `dylib=name`) and -L (`path` -> `all=path`).

   Not modelled: arguments that are not valid UTF-8 (the real code matches on a lossy conversion);
   `--target X` where `X.json` exists in the server's working directory (ArgTarget::Unsure). *)
From Coq Require Import List NArith Bool.
From Coq Require String.
Import String.StringSyntax.
From Sccache Require Import Base.Sx Model.RustPath Gen.C05ArgTable.
Import ListNotations.
Local Open Scope N_scope.

Definition EQC : N := 61.
Definition COMMA : N := 44.
Definition DASH : N := 45.

Definition beq (a b : bytes) : bool := bytes_eqb a b.

Fixpoint starts_with (p s : bytes) : bool :=
  match p, s with
  | [], _ => true
  | x :: p', y :: s' => (x =? y) && starts_with p' s'
  | _ :: _, [] => false
  end.

(* splitn(2, c) *)
Fixpoint split_first (c : N) (s : bytes) : bytes * option bytes :=
  match s with
  | [] => ([], None)
  | x :: r =>
      if x =? c then ([], Some r)
      else let '(a, b) := split_first c r in (x :: a, b)
  end.

(* split(c): n separators give n+1 pieces *)
Fixpoint split_all (c : N) (s : bytes) : list bytes :=
  match s with
  | [] => [[]]
  | x :: r =>
      if x =? c then [] :: split_all c r
      else match split_all c r with
           | [] => [[x]]
           | p :: more => (x :: p) :: more
           end
  end.

Fixpoint join_with (sep : bytes) (l : list bytes) : bytes :=
  match l with
  | [] => []
  | [x] => x
  | x :: r => x ++ sep ++ join_with sep r
  end.

(* sets of strings (HashSet<String>) are kept as sorted lists without duplicates *)
Fixpoint set_insert (x : bytes) (l : list bytes) : list bytes :=
  match l with
  | [] => [x]
  | y :: r =>
      match bytes_cmp x y with
      | Lt => x :: y :: r
      | Eq => y :: r
      | Gt => y :: set_insert x r
      end
  end.

Definition set_of (l : list bytes) : list bytes := fold_left (fun acc x => set_insert x acc) l [].
Definition set_mem (x : bytes) (l : list bytes) : bool := existsb (beq x) l.

(* `-l KIND=NAME`: the kinds whose archive is looked up and hashed: `static`, and `static:` followed by modifiers
   (`static:+whole-archive`, `static:-bundle`, ...; since the fix of finding C05-S24) *)
Definition is_static_kind (kind : bytes) : bool :=
  bytes_eqb kind (bs "static") || starts_with (bs "static:") kind.

(* ---------- parsed values ---------- *)

Inductive argval : Type :=
| VRaw (s : bytes)                                        (* OsString / PathBuf / String *)
| VCrateTypes (rlib staticlib : bool) (others : list bytes)
| VKind (kind name : bytes)                               (* ArgLinkLibrary / ArgLinkPath *)
| VOpt (opt : bytes) (value : option bytes)               (* ArgCodegen / ArgUnstable *)
| VExt (name path : bytes)                                (* ArgExtern *)
| VTarget (is_path : bool) (s : bytes).                   (* ArgTarget::Path / ::Name *)

(* Path::extension() == Some("json") *)
Definition rsplit_dot (name : bytes) : option (bytes * bytes) :=
  (* (before, after) the LAST '.' *)
  let fix go (s : bytes) : option (bytes * bytes) :=
    match s with
    | [] => None
    | c :: r =>
        match go r with
        | Some (b, a) => Some (c :: b, a)
        | None => if c =? DOT then Some ([], r) else None
        end
    end in
  go name.

Definition extension_is (ext p : bytes) : bool :=
  match rev (components p) with
  | CNormal name :: _ =>
      if is_dotdot name then false
      else match rsplit_dot name with
           | Some (before, after) => match before with [] => false | _ => beq after ext end
           | None => false
           end
  | _ => false
  end.

Definition parse_crate_types (s : bytes) : argval :=
  fold_left
    (fun acc ty =>
       match acc with
       | VCrateTypes r st o =>
           if beq ty (bs "lib") || beq ty (bs "rlib") then VCrateTypes true st o
           else if beq ty (bs "staticlib") then VCrateTypes r true o
           else VCrateTypes r st (set_insert ty o)
       | _ => acc
       end)
    (split_all COMMA s) (VCrateTypes false false []).

(* FromArg::process; None = Err(..) *)
Definition parse_val (vt : vtype) (s : bytes) : option argval :=
  match vt with
  | VOsString | VPathBuf | VString => Some (VRaw s)
  | VArgCrateTypes => Some (parse_crate_types s)
  | VArgLinkLibrary =>
      match split_first EQC s with
      | (kind, Some name) => Some (VKind kind name)
      | (name, None) => Some (VKind (bs "dylib") name)
      end
  | VArgLinkPath =>
      match split_first EQC s with
      | (kind, Some path) => Some (VKind kind path)
      | (path, None) => Some (VKind (bs "all") path)
      end
  | VArgCodegen | VArgUnstable =>
      let '(opt, value) := split_first EQC s in Some (VOpt opt value)
  | VArgExtern =>
      match split_first EQC s with
      | (name, Some path) => Some (VExt name path)
      | (_, None) => None
      end
  | VArgTarget => Some (VTarget (extension_is (bs "json") s) s)
  end.

(* IntoArg::into_arg_os_string *)
Definition into_arg (v : argval) : bytes :=
  match v with
  | VRaw s => s
  | VCrateTypes r st others =>
      join_with [COMMA]
        (set_of (others ++ (if r then [bs "rlib"] else []) ++ (if st then [bs "staticlib"] else [])))
  | VKind k n => k ++ [EQC] ++ n
  | VOpt o (Some v) => o ++ [EQC] ++ v
  | VOpt o None => o
  | VExt n p => n ++ [EQC] ++ p
  | VTarget _ s => s
  end.

(* ---------- Argument<ArgData> ---------- *)

Inductive argument : Type :=
| ARaw (s : bytes)
| AUnknownFlag (s : bytes)
| AFlag (s : bytes) (a : adata)
| AWithValue (s : bytes) (a : adata) (v : argval) (d : disp).

Definition flag_str (i : arginfo) : bytes :=
  match i with IFlag s _ => s | ITake s _ _ _ => s end.

Definition byte_at (n : nat) (s : bytes) : option N := nth_error s n.

(* ArgInfo::cmp *)
Definition ai_cmp (i : arginfo) (arg : bytes) : comparison :=
  let default := bytes_cmp (flag_str i) arg in
  match i with
  | ITake s _ (CanBeSeparated None) _ | ITake s _ (Concatenated None) _ =>
      if starts_with s arg then Eq else default
  | ITake s _ (CanBeSeparated (Some d)) _ | ITake s _ (Concatenated (Some d)) _ =>
      if Nat.ltb (length s) (length arg) && starts_with s arg then
        match byte_at (length s) arg with
        | Some c => N.compare c d
        | None => default
        end
      else default
  | _ => default
  end.

Fixpoint bsearch (fuel : nat) (key : bytes) (items : list arginfo) : option arginfo :=
  match fuel with
  | O => None
  | S fuel' =>
      match items with
      | [] => None
      | _ =>
          let middle := Nat.div (length items) 2 in
          match nth_error items middle with
          | None => None
          | Some it =>
              match ai_cmp it key with
              | Eq =>
                  let after := if Nat.eqb (length items) 1 then None
                               else bsearch fuel' key (skipn (S middle) items) in
                  match after with Some x => Some x | None => Some it end
              | Gt => bsearch fuel' key (firstn middle items)
              | Lt => bsearch fuel' key (skipn (S middle) items)
              end
          end
      end
  end.

Definition search (key : bytes) : option arginfo := bsearch (S (length ARGS)) key ARGS.

Inductive presult : Type :=
| POk (a : argument)
| PErrEnd          (* ArgParseError::UnexpectedEndOfArgs *)
| PErrOther.       (* any other ArgParseError *)

(* ArgInfo::process for the two basic dispositions; returns whether the next argument was taken *)
Definition process_separated (s : bytes) (vt : vtype) (a : adata) (next : option bytes) : presult * bool :=
  match next with
  | Some n =>
      (match parse_val vt n with
       | Some v => POk (AWithValue s a v Separated)
       | None => PErrOther
       end, true)
  | None => (PErrEnd, false)
  end.

Definition process_concatenated (s : bytes) (vt : vtype) (a : adata) (d : option N) (arg : bytes) : presult :=
  let len := length s in
  let len := match d with
             | Some dc => match byte_at len arg with
                          | Some c => if c =? dc then S len else len
                          | None => len
                          end
             | None => len
             end in
  match parse_val vt (skipn len arg) with
  | Some v => POk (AWithValue s a v (Concatenated d))
  | None => PErrOther
  end.

Definition process (i : arginfo) (arg : bytes) (next : option bytes) : presult * bool :=
  match i with
  | IFlag s a => (POk (AFlag s a), false)
  | ITake s vt Separated a => process_separated s vt a next
  | ITake s vt (Concatenated d) a => (process_concatenated s vt a d arg, false)
  | ITake s vt (CanBeSeparated d) a | ITake s vt (CanBeConcatenated d) a =>
      let '(r, took) :=
        if beq arg s then process_separated s vt a next
        else (process_concatenated s vt a d arg, false) in
      match r, d with
      | PErrEnd, None =>
          (match parse_val vt [] with
           | Some v => POk (AWithValue s a v (Concatenated d))
           | None => PErrOther
           end, took)
      | POk (AWithValue s' a' v (Concatenated d')), _ => (POk (AWithValue s' a' v (CanBeSeparated d')), took)
      | POk (AWithValue s' a' v Separated), _ => (POk (AWithValue s' a' v (CanBeConcatenated d)), took)
      | _, _ => (r, took)
      end
  end.

(* Argument::normalize(NormalizedDisposition::Separated) *)
Definition normalize (a : argument) : argument :=
  match a with
  | AWithValue s ad v (CanBeConcatenated _) | AWithValue s ad v (CanBeSeparated _) => AWithValue s ad v Separated
  | _ => a
  end.

(* ArgsIter::next: the parsed argument (or an error) and the rest of the command line *)
Definition next_arg (argv : list bytes) : option (presult * list bytes) :=
  match argv with
  | [] => None
  | arg :: rest =>
      match search arg with
      | Some i =>
          let '(r, took) := process i arg (hd_error rest) in
          Some (r, if took then tl rest else rest)
      | None =>
          Some (POk (if starts_with [DASH] arg then AUnknownFlag arg else ARaw arg), rest)
      end
  end.

(* (arg.to_os_string(), arg.get_data().cloned().map(IntoArg::into_arg_os_string)) *)
Definition arg_pair (a : argument) : bytes * option bytes :=
  match a with
  | ARaw s | AUnknownFlag s => (s, None)
  | AFlag s _ => (s, Some [])
  | AWithValue s _ v _ => (s, Some (into_arg v))
  end.

(* ---------- parse_arguments ---------- *)

Inductive color_mode : Type := ColorOff | ColorOn | ColorAuto.

Record pstate : Type := {
  ps_args : list argument;            (* in order *)
  ps_emit : option (list bytes);      (* a set *)
  ps_input : option bytes;
  ps_output_dir : option bytes;
  ps_crate_name : option bytes;
  ps_rlib : bool;
  ps_staticlib : bool;
  ps_extra_filename : option bytes;
  ps_externs : list bytes;
  ps_crate_link_paths : list bytes;
  ps_static_lib_names : list bytes;
  ps_static_link_paths : list bytes;
  ps_color : color_mode;
  ps_has_json : bool;
  ps_profile : option bytes;
  ps_gcno : bool;
  ps_target_json : option bytes
}.

Definition ps_init : pstate :=
  {| ps_args := []; ps_emit := None; ps_input := None; ps_output_dir := None; ps_crate_name := None;
     ps_rlib := false; ps_staticlib := false; ps_extra_filename := None; ps_externs := [];
     ps_crate_link_paths := []; ps_static_lib_names := []; ps_static_link_paths := [];
     ps_color := ColorAuto; ps_has_json := false; ps_profile := None; ps_gcno := false;
     ps_target_json := None |}.

Record parsed : Type := {
  p_args : list argument;                 (* ParsedArguments::arguments, as parsed *)
  p_arguments : list (bytes * option bytes);
  p_output_dir : bytes;
  p_externs : list bytes;
  p_crate_link_paths : list bytes;
  p_staticlibs : list bytes;
  p_crate_name : bytes;
  p_rlib : bool;
  p_staticlib : bool;
  p_dep_info : option bytes;
  p_profile : option bytes;
  p_gcno : option bytes;
  p_emit : list bytes;
  p_color : color_mode;
  p_has_json : bool;
  p_target_json : option bytes
}.

Inductive parse_result : Type :=
| PROk (p : parsed)
| PRCannotCache (why : bytes) (extra : list bytes)
| PRNotCompilation.

Inductive step_result : Type :=
| SCont (s : pstate)
| SStop (r : parse_result).

Local Open Scope string_scope.

Definition with_args (s : pstate) (a : list argument) : pstate :=
  {| ps_args := a; ps_emit := ps_emit s; ps_input := ps_input s; ps_output_dir := ps_output_dir s;
     ps_crate_name := ps_crate_name s; ps_rlib := ps_rlib s; ps_staticlib := ps_staticlib s;
     ps_extra_filename := ps_extra_filename s; ps_externs := ps_externs s;
     ps_crate_link_paths := ps_crate_link_paths s; ps_static_lib_names := ps_static_lib_names s;
     ps_static_link_paths := ps_static_link_paths s; ps_color := ps_color s; ps_has_json := ps_has_json s;
     ps_profile := ps_profile s; ps_gcno := ps_gcno s; ps_target_json := ps_target_json s |}.

(* the `match arg.get_data()` of parse_arguments, for one argument; [cwd] as given to parse_arguments *)
Definition handle (cwd : bytes) (s : pstate) (arg : argument) : step_result :=
  let data := match arg with
              | AFlag f a => Some (f, a, VRaw [])
              | AWithValue f a v _ => Some (f, a, v)
              | _ => None
              end in
  match data with
  | Some (f, TooHardFlag, _) | Some (f, TooHardPath, _) => SStop (PRCannotCache f [])
  | Some (_, NotCompilationFlag, _) | Some (_, NotCompilation, _) => SStop PRNotCompilation
  | Some (_, LinkLibrary, VKind kind name) =>
      SCont (if is_static_kind kind
             then {| ps_args := ps_args s; ps_emit := ps_emit s; ps_input := ps_input s;
                     ps_output_dir := ps_output_dir s; ps_crate_name := ps_crate_name s; ps_rlib := ps_rlib s;
                     ps_staticlib := ps_staticlib s; ps_extra_filename := ps_extra_filename s;
                     ps_externs := ps_externs s; ps_crate_link_paths := ps_crate_link_paths s;
                     ps_static_lib_names := ps_static_lib_names s ++ [name];
                     ps_static_link_paths := ps_static_link_paths s; ps_color := ps_color s;
                     ps_has_json := ps_has_json s; ps_profile := ps_profile s; ps_gcno := ps_gcno s;
                     ps_target_json := ps_target_json s |}
             else s)
  | Some (_, LinkPath, VKind kind path) =>
      let is_crate := beq kind (bs "crate") || beq kind (bs "dependency") || beq kind (bs "all") in
      let is_native := beq kind (bs "native") || beq kind (bs "all") in
      SCont {| ps_args := ps_args s; ps_emit := ps_emit s; ps_input := ps_input s;
               ps_output_dir := ps_output_dir s; ps_crate_name := ps_crate_name s; ps_rlib := ps_rlib s;
               ps_staticlib := ps_staticlib s; ps_extra_filename := ps_extra_filename s;
               ps_externs := ps_externs s;
               ps_crate_link_paths := ps_crate_link_paths s ++ (if is_crate then [path_join cwd path] else []);
               ps_static_lib_names := ps_static_lib_names s;
               ps_static_link_paths := ps_static_link_paths s ++ (if is_native then [path_join cwd path] else []);
               ps_color := ps_color s; ps_has_json := ps_has_json s; ps_profile := ps_profile s;
               ps_gcno := ps_gcno s; ps_target_json := ps_target_json s |}
  | Some (_, Emit, VRaw value) =>
      match ps_emit s with
      | Some _ => SStop (PRCannotCache (bs "more than one --emit") [])
      | None =>
          SCont {| ps_args := ps_args s; ps_emit := Some (set_of (split_all COMMA value)); ps_input := ps_input s;
                   ps_output_dir := ps_output_dir s; ps_crate_name := ps_crate_name s; ps_rlib := ps_rlib s;
                   ps_staticlib := ps_staticlib s; ps_extra_filename := ps_extra_filename s;
                   ps_externs := ps_externs s; ps_crate_link_paths := ps_crate_link_paths s;
                   ps_static_lib_names := ps_static_lib_names s; ps_static_link_paths := ps_static_link_paths s;
                   ps_color := ps_color s; ps_has_json := ps_has_json s; ps_profile := ps_profile s;
                   ps_gcno := ps_gcno s; ps_target_json := ps_target_json s |}
      end
  | Some (_, CrateType, VCrateTypes r st others) =>
      match others with
      | _ :: _ => SStop (PRCannotCache (bs "crate-type") others)
      | [] =>
          SCont {| ps_args := ps_args s; ps_emit := ps_emit s; ps_input := ps_input s;
                   ps_output_dir := ps_output_dir s; ps_crate_name := ps_crate_name s;
                   ps_rlib := ps_rlib s || r; ps_staticlib := ps_staticlib s || st;
                   ps_extra_filename := ps_extra_filename s; ps_externs := ps_externs s;
                   ps_crate_link_paths := ps_crate_link_paths s; ps_static_lib_names := ps_static_lib_names s;
                   ps_static_link_paths := ps_static_link_paths s; ps_color := ps_color s;
                   ps_has_json := ps_has_json s; ps_profile := ps_profile s; ps_gcno := ps_gcno s;
                   ps_target_json := ps_target_json s |}
      end
  | Some (_, CrateName, VRaw value) =>
      SCont {| ps_args := ps_args s; ps_emit := ps_emit s; ps_input := ps_input s;
               ps_output_dir := ps_output_dir s; ps_crate_name := Some value; ps_rlib := ps_rlib s;
               ps_staticlib := ps_staticlib s; ps_extra_filename := ps_extra_filename s;
               ps_externs := ps_externs s; ps_crate_link_paths := ps_crate_link_paths s;
               ps_static_lib_names := ps_static_lib_names s; ps_static_link_paths := ps_static_link_paths s;
               ps_color := ps_color s; ps_has_json := ps_has_json s; ps_profile := ps_profile s;
               ps_gcno := ps_gcno s; ps_target_json := ps_target_json s |}
  | Some (_, OutDir, VRaw value) =>
      SCont {| ps_args := ps_args s; ps_emit := ps_emit s; ps_input := ps_input s;
               ps_output_dir := Some value; ps_crate_name := ps_crate_name s; ps_rlib := ps_rlib s;
               ps_staticlib := ps_staticlib s; ps_extra_filename := ps_extra_filename s;
               ps_externs := ps_externs s; ps_crate_link_paths := ps_crate_link_paths s;
               ps_static_lib_names := ps_static_lib_names s; ps_static_link_paths := ps_static_link_paths s;
               ps_color := ps_color s; ps_has_json := ps_has_json s; ps_profile := ps_profile s;
               ps_gcno := ps_gcno s; ps_target_json := ps_target_json s |}
  | Some (_, Extern, VExt _ path) =>
      SCont {| ps_args := ps_args s; ps_emit := ps_emit s; ps_input := ps_input s;
               ps_output_dir := ps_output_dir s; ps_crate_name := ps_crate_name s; ps_rlib := ps_rlib s;
               ps_staticlib := ps_staticlib s; ps_extra_filename := ps_extra_filename s;
               ps_externs := ps_externs s ++ [path]; ps_crate_link_paths := ps_crate_link_paths s;
               ps_static_lib_names := ps_static_lib_names s; ps_static_link_paths := ps_static_link_paths s;
               ps_color := ps_color s; ps_has_json := ps_has_json s; ps_profile := ps_profile s;
               ps_gcno := ps_gcno s; ps_target_json := ps_target_json s |}
  | Some (_, CodeGen, VOpt opt value) =>
      if beq opt (bs "extra-filename") then
        match value with
        | Some v =>
            SCont {| ps_args := ps_args s; ps_emit := ps_emit s; ps_input := ps_input s;
                     ps_output_dir := ps_output_dir s; ps_crate_name := ps_crate_name s; ps_rlib := ps_rlib s;
                     ps_staticlib := ps_staticlib s; ps_extra_filename := Some v;
                     ps_externs := ps_externs s; ps_crate_link_paths := ps_crate_link_paths s;
                     ps_static_lib_names := ps_static_lib_names s;
                     ps_static_link_paths := ps_static_link_paths s; ps_color := ps_color s;
                     ps_has_json := ps_has_json s; ps_profile := ps_profile s; ps_gcno := ps_gcno s;
                     ps_target_json := ps_target_json s |}
        | None => SStop (PRCannotCache (bs "extra-filename") [])
        end
      else if beq opt (bs "profile-use") then
        match value with
        | Some v =>
            SCont {| ps_args := ps_args s; ps_emit := ps_emit s; ps_input := ps_input s;
                     ps_output_dir := ps_output_dir s; ps_crate_name := ps_crate_name s; ps_rlib := ps_rlib s;
                     ps_staticlib := ps_staticlib s; ps_extra_filename := ps_extra_filename s;
                     ps_externs := ps_externs s; ps_crate_link_paths := ps_crate_link_paths s;
                     ps_static_lib_names := ps_static_lib_names s;
                     ps_static_link_paths := ps_static_link_paths s; ps_color := ps_color s;
                     ps_has_json := ps_has_json s; ps_profile := Some v; ps_gcno := ps_gcno s;
                     ps_target_json := ps_target_json s |}
        | None => SCont s
        end
      else if beq opt (bs "incremental") then SStop (PRCannotCache (bs "incremental") [])
      else SCont s
  | Some (_, Unstable, VOpt opt value) =>
      let on := match value with
                | None => true
                | Some v => beq v (bs "y") || beq v (bs "yes") || beq v (bs "on")
                end in
      if on && beq opt (bs "profile") then
        SCont {| ps_args := ps_args s; ps_emit := ps_emit s; ps_input := ps_input s;
                 ps_output_dir := ps_output_dir s; ps_crate_name := ps_crate_name s; ps_rlib := ps_rlib s;
                 ps_staticlib := ps_staticlib s; ps_extra_filename := ps_extra_filename s;
                 ps_externs := ps_externs s; ps_crate_link_paths := ps_crate_link_paths s;
                 ps_static_lib_names := ps_static_lib_names s; ps_static_link_paths := ps_static_link_paths s;
                 ps_color := ps_color s; ps_has_json := ps_has_json s; ps_profile := ps_profile s;
                 ps_gcno := true; ps_target_json := ps_target_json s |}
      else SCont s
  | Some (_, Color, VRaw value) =>
      let c := if beq value (bs "always") then ColorOn
               else if beq value (bs "never") then ColorOff else ColorAuto in
      SCont {| ps_args := ps_args s; ps_emit := ps_emit s; ps_input := ps_input s;
               ps_output_dir := ps_output_dir s; ps_crate_name := ps_crate_name s; ps_rlib := ps_rlib s;
               ps_staticlib := ps_staticlib s; ps_extra_filename := ps_extra_filename s;
               ps_externs := ps_externs s; ps_crate_link_paths := ps_crate_link_paths s;
               ps_static_lib_names := ps_static_lib_names s; ps_static_link_paths := ps_static_link_paths s;
               ps_color := c; ps_has_json := ps_has_json s; ps_profile := ps_profile s;
               ps_gcno := ps_gcno s; ps_target_json := ps_target_json s |}
  | Some (_, Json, _) =>
      SCont {| ps_args := ps_args s; ps_emit := ps_emit s; ps_input := ps_input s;
               ps_output_dir := ps_output_dir s; ps_crate_name := ps_crate_name s; ps_rlib := ps_rlib s;
               ps_staticlib := ps_staticlib s; ps_extra_filename := ps_extra_filename s;
               ps_externs := ps_externs s; ps_crate_link_paths := ps_crate_link_paths s;
               ps_static_lib_names := ps_static_lib_names s; ps_static_link_paths := ps_static_link_paths s;
               ps_color := ps_color s; ps_has_json := true; ps_profile := ps_profile s;
               ps_gcno := ps_gcno s; ps_target_json := ps_target_json s |}
  | Some (_, PassThrough, _) => SCont s
  | Some (_, Target, VTarget true p) =>
      SCont {| ps_args := ps_args s; ps_emit := ps_emit s; ps_input := ps_input s;
               ps_output_dir := ps_output_dir s; ps_crate_name := ps_crate_name s; ps_rlib := ps_rlib s;
               ps_staticlib := ps_staticlib s; ps_extra_filename := ps_extra_filename s;
               ps_externs := ps_externs s; ps_crate_link_paths := ps_crate_link_paths s;
               ps_static_lib_names := ps_static_lib_names s; ps_static_link_paths := ps_static_link_paths s;
               ps_color := ps_color s; ps_has_json := ps_has_json s; ps_profile := ps_profile s;
               ps_gcno := ps_gcno s; ps_target_json := Some p |}
  | Some (_, Target, _) => SCont s
  | Some (_, _, _) => SCont s      (* a constructor paired with a value of another type: cannot be built by [process] *)
  | None =>
      match arg with
      | ARaw val =>
          match ps_input s with
          | Some _ => SStop (PRCannotCache (bs "multiple input files") [])
          | None =>
              SCont {| ps_args := ps_args s; ps_emit := ps_emit s; ps_input := Some val;
                       ps_output_dir := ps_output_dir s; ps_crate_name := ps_crate_name s; ps_rlib := ps_rlib s;
                       ps_staticlib := ps_staticlib s; ps_extra_filename := ps_extra_filename s;
                       ps_externs := ps_externs s; ps_crate_link_paths := ps_crate_link_paths s;
                       ps_static_lib_names := ps_static_lib_names s;
                       ps_static_link_paths := ps_static_link_paths s; ps_color := ps_color s;
                       ps_has_json := ps_has_json s; ps_profile := ps_profile s; ps_gcno := ps_gcno s;
                       ps_target_json := ps_target_json s |}
          end
      | _ => SCont s
      end
  end.

Definition is_color (a : argument) : bool :=
  match a with AWithValue _ Color _ _ => true | AFlag _ Color => true | _ => false end.

(* the `for arg in ArgsIter::new(..)` loop; fuel = number of arguments *)
Fixpoint parse_loop (fuel : nat) (cwd : bytes) (s : pstate) (argv : list bytes) : step_result :=
  match fuel with
  | O => SCont s
  | S fuel' =>
      match next_arg argv with
      | None => SCont s
      | Some (r, rest) =>
          match r with
          | PErrEnd | PErrOther => SStop (PRCannotCache (bs "argument parse") [])
          | POk arg =>
              match handle cwd s arg with
              | SStop x => SStop x
              | SCont s' =>
                  let s'' := if is_color arg then s' else with_args s' (ps_args s' ++ [normalize arg]) in
                  parse_loop fuel' cwd s'' rest
              end
          end
      end
  end.

Definition opt_app (a : bytes) (b : option bytes) : bytes :=
  match b with Some x => a ++ x | None => a end.

(* the lookup of `-l static=NAME` in the `-L native=`/`-L all=` directories; [exists_] = Path::exists *)
Definition find_staticlib (exists_ : bytes -> bool) (dirs : list bytes) (name : bytes) : option bytes :=
  let cands := flat_map (fun d => [path_join d (bs "lib" ++ name ++ bs ".a");
                                   path_join d (name ++ bs ".lib");
                                   path_join d (name ++ bs ".a")]) dirs in
  find exists_ cands.

Fixpoint filter_map {A B} (f : A -> option B) (l : list A) : list B :=
  match l with
  | [] => []
  | x :: r => match f x with Some y => y :: filter_map f r | None => filter_map f r end
  end.

Definition finish (exists_ : bytes -> bool) (s : pstate) : parse_result :=
  match ps_input s with
  | None => PRCannotCache (bs "missing input") []
  | Some _ =>
  match ps_output_dir s with
  | None => PRCannotCache (bs "missing output_dir") []
  | Some output_dir =>
  match ps_emit s with
  | None => PRCannotCache (bs "missing emit") []
  | Some emit =>
  match ps_crate_name s with
  | None => PRCannotCache (bs "missing crate_name") []
  | Some crate_name =>
      let has e := set_mem (bs e) emit in
      if negb (match emit with [] => true | _ => false end) && negb (has "link") && negb (has "metadata")
      then PRNotCompilation
      else if negb (ps_rlib s) && negb (ps_staticlib s)
      then PRCannotCache (bs "crate-type") [bs "No crate-type passed"]
      else if existsb (fun e => negb (set_mem e ALLOWED_EMIT)) emit
      then PRCannotCache (bs "unsupported --emit") []
      else
        let dep_info := if has "dep-info"
                        then Some (opt_app crate_name (ps_extra_filename s) ++ bs ".d") else None in
        let profile := if has "link" then ps_profile s else None in
        let gcno := if ps_gcno s && has "link"
                    then Some (opt_app crate_name (ps_extra_filename s) ++ bs ".gcno") else None in
        let staticlibs := filter_map (find_staticlib exists_ (ps_static_link_paths s)) (ps_static_lib_names s) in
        PROk {| p_args := ps_args s;
                p_arguments := map arg_pair (ps_args s);
                p_output_dir := output_dir;
                p_externs := sort_paths (ps_externs s);
                p_crate_link_paths := ps_crate_link_paths s;
                p_staticlibs := staticlibs;
                p_crate_name := crate_name;
                p_rlib := ps_rlib s;
                p_staticlib := ps_staticlib s;
                p_dep_info := dep_info;
                p_profile := profile;
                p_gcno := gcno;
                p_emit := emit;
                p_color := ps_color s;
                p_has_json := ps_has_json s;
                p_target_json := ps_target_json s |}
  end end end end.

Definition parse_arguments (exists_ : bytes -> bool) (argv : list bytes) (cwd : bytes) : parse_result :=
  match parse_loop (S (length argv)) cwd ps_init argv with
  | SStop r => r
  | SCont s => finish exists_ s
  end.

(* ---------- the cacheable shape as a finite table ---------- *)

(* what the checks after the argument loop look at *)
Record shape : Type := {
  sh_input : bool;          (* a source file was given *)
  sh_out_dir : bool;        (* --out-dir *)
  sh_emit : bool;           (* --emit *)
  sh_crate_name : bool;     (* --crate-name *)
  sh_emit_nonempty : bool;
  sh_link : bool;           (* "link" in --emit *)
  sh_metadata : bool;       (* "metadata" in --emit *)
  sh_rlib : bool;           (* crate type lib / rlib *)
  sh_staticlib : bool;      (* crate type staticlib *)
  sh_emit_allowed : bool    (* every --emit value is link, metadata or dep-info *)
}.

Inductive verdict : Type :=
| VOk
| VCannotCache (why : bytes)
| VNotCompilation.

Definition is_some {A} (o : option A) : bool := match o with Some _ => true | None => false end.

Definition shape_of (s : pstate) : shape :=
  let emit := match ps_emit s with Some e => e | None => [] end in
  {| sh_input := is_some (ps_input s);
     sh_out_dir := is_some (ps_output_dir s);
     sh_emit := is_some (ps_emit s);
     sh_crate_name := is_some (ps_crate_name s);
     sh_emit_nonempty := negb (match emit with [] => true | _ => false end);
     sh_link := set_mem (bs "link") emit;
     sh_metadata := set_mem (bs "metadata") emit;
     sh_rlib := ps_rlib s;
     sh_staticlib := ps_staticlib s;
     sh_emit_allowed := negb (existsb (fun e => negb (set_mem e ALLOWED_EMIT)) emit) |}.

(* the decision table, in the order in which parse_arguments decides *)
Definition shape_verdict (sh : shape) : verdict :=
  if negb (sh_input sh) then VCannotCache (bs "missing input")
  else if negb (sh_out_dir sh) then VCannotCache (bs "missing output_dir")
  else if negb (sh_emit sh) then VCannotCache (bs "missing emit")
  else if negb (sh_crate_name sh) then VCannotCache (bs "missing crate_name")
  else if sh_emit_nonempty sh && negb (sh_link sh) && negb (sh_metadata sh) then VNotCompilation
  else if negb (sh_rlib sh) && negb (sh_staticlib sh) then VCannotCache (bs "crate-type")
  else if negb (sh_emit_allowed sh) then VCannotCache (bs "unsupported --emit")
  else VOk.

Definition verdict_of (r : parse_result) : verdict :=
  match r with
  | PROk _ => VOk
  | PRCannotCache why _ => VCannotCache why
  | PRNotCompilation => VNotCompilation
  end.

Definition bools : list bool := [true; false].

Definition all_shapes : list shape :=
  flat_map (fun a => flat_map (fun b => flat_map (fun c => flat_map (fun d => flat_map (fun e =>
  flat_map (fun f => flat_map (fun g => flat_map (fun h => flat_map (fun i => map (fun j =>
    {| sh_input := a; sh_out_dir := b; sh_emit := c; sh_crate_name := d; sh_emit_nonempty := e; sh_link := f;
       sh_metadata := g; sh_rlib := h; sh_staticlib := i; sh_emit_allowed := j |})
  bools) bools) bools) bools) bools) bools) bools) bools) bools) bools.

(* the cacheable shape: library crate type, --emit within link/metadata/dep-info and producing code or metadata,
   --out-dir, --crate-name, a source file *)
Definition cacheable_shape (sh : shape) : bool :=
  sh_input sh && sh_out_dir sh && sh_emit sh && sh_crate_name sh
  && negb (sh_emit_nonempty sh && negb (sh_link sh) && negb (sh_metadata sh))
  && (sh_rlib sh || sh_staticlib sh) && sh_emit_allowed sh.

Definition verdict_is_ok (v : verdict) : bool := match v with VOk => true | _ => false end.

(* arguments that stop the loop whatever came before them *)
Definition arg_acceptable (a : argument) : bool :=
  match a with
  | AFlag _ d | AWithValue _ d _ _ =>
      match d with
      | TooHardFlag | TooHardPath | NotCompilationFlag | NotCompilation => false
      | _ => true
      end
      && match a with
         | AWithValue _ CrateType (VCrateTypes _ _ (_ :: _)) _ => false
         | AWithValue _ CodeGen (VOpt opt value) _ =>
             negb (beq opt (bs "incremental"))
             && negb (beq opt (bs "extra-filename") && negb (is_some value))
         | _ => true
         end
  | _ => true
  end.

(* ---------- which static library file is hashed, against rustc's search order ---------- *)

Definition is_native_kind (kind : bytes) : bool := beq kind (bs "native") || beq kind (bs "all").

(* the directories `-l static=` libraries are searched in, contributed by one argument (command-line order) *)
Definition native_dirs_of (cwd : bytes) (a : argument) : list bytes :=
  match a with
  | AWithValue _ LinkPath (VKind kind path) _ => if is_native_kind kind then [path_join cwd path] else []
  | _ => []
  end.

(* the library names looked up, contributed by one argument: the kinds `static` and `static:<modifiers>` *)
Definition static_names_of (a : argument) : list bytes :=
  match a with
  | AWithValue _ LinkLibrary (VKind kind name) _ => if is_static_kind kind then [name] else []
  | _ => []
  end.

(* NAMED ASSUMPTION about rustc (find_native_static_library on a unix target, observed with rustc 1.95): the
   archive bundled for `-l static=NAME` is lib<NAME>.a from the FIRST directory, in command-line order, among the
   `-L native=DIR`, `-L all=DIR` and `-L DIR` directories that contains it *)
Definition rustc_static_pick (exists_ : bytes -> bool) (dirs : list bytes) (name : bytes) : option bytes :=
  find exists_ (map (fun d => path_join d (bs "lib" ++ name ++ bs ".a")) dirs).

(* no directory holds <NAME>.lib or <NAME>.a, the two spellings the code also accepts (finding C05-S23 otherwise) *)
Definition alt_spelling_free (exists_ : bytes -> bool) (dirs : list bytes) (name : bytes) : bool :=
  forallb (fun d => negb (exists_ (path_join d (name ++ bs ".lib"))) && negb (exists_ (path_join d (name ++ bs ".a")))) dirs.

(* ---------- the compile command (RustCompilation::generate_compile_commands) ---------- *)

(* Argument::iter_os_strings *)
Definition iter_os_strings (a : argument) : list bytes :=
  match a with
  | ARaw s | AUnknownFlag s => [s]
  | AFlag s _ => [s]
  | AWithValue s _ v (CanBeSeparated d) | AWithValue s _ v (Concatenated d) =>
      let val := into_arg v in
      [s ++ match d, val with
            | Some dc, _ :: _ => [dc]
            | _, _ => []
            end ++ val]
  | AWithValue s _ v _ => [s; into_arg v]
  end.

Definition is_json (a : argument) : bool :=
  match a with AWithValue _ Json _ _ => true | AFlag _ Json => true | _ => false end.

(* generate_hash_key: "Request color output unless json was requested. The client will strip colors if needed."
   The colour option of the compile command is a CONSTANT: `--color` arguments of the request never reach the key
   (parse_arguments drops them), so they must not reach the compile command either, or one key would stand for
   compiles with different diagnostics. *)
Definition colour_suffix (has_json : bool) : list bytes :=
  if has_json then [] else [bs "--color"; bs "always"].

Definition compile_args (p : parsed) : list bytes :=
  flat_map iter_os_strings (p_args p) ++ colour_suffix (p_has_json p).
