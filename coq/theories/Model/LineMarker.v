(* Model/LineMarker.v — `process_preprocessed_file` / `process_preprocessor_line` of src/compiler/c.rs: the scan of
   the preprocessor output for line markers, which feeds every announced path to `remember_include_file`
   (Model/PpCache.v).

   The Rust code walks the byte buffer with indices `start` / `hash_start`; the model walks the remaining
   suffix `rest` and remembers the previous byte (`bytes[start - 1] == b'\n'`).  `hash_start` only delimits what is
   fed to a local `Digest` that is never read (dead code) and the file-name slice; both are dropped / made explicit.
   The in-place patch of the GCC-6 "# 32" line is kept: the (possibly patched) text is part of the result, because
   the caller hashes that buffer afterwards.

   Paths: `Path` equality / hashing in Rust is by components; `normalize_path` removes `.` and resolves `..`
   lexically.  `resolve` gives the canonical absolute byte string of the PathBuf that `remember_include_file` ends
   up with; file-system snapshots are keyed by canonical absolute paths (no symlinks, cwd canonical). *)
From Coq Require Import List NArith Bool.
From Sccache Require Import Base.Sx Gen.C04Consts Model.PpPaths Model.TimeMacro Model.PpCache.
Import ListNotations.
Local Open Scope N_scope.

(* ---------------- paths ---------------- *)
(* the `include_path` handed to remember_include_file: the raw bytes if normalising changes nothing *)
Definition normalized_include_path (raw : bytes) : bytes :=
  let cs := components raw in
  let n := normalize_comps [] cs in
  if comps_eqb n cs then raw else render n.

(* the PathBuf remember_include_file works with (strip "./", join to cwd), rendered from its components: two
   PathBufs are equal iff these byte strings are; `..` is NOT resolved here (the file system does that) *)
Definition resolve (cwd : bytes) (p : bytes) : bytes :=
  let p' := match p with 46 :: 47 :: r => r | _ => p end in
  let cs := components p' in
  match cs with
  | CRoot :: _ => render cs
  | CCur :: r => render (components cwd ++ r)
  | _ => render (components cwd ++ cs)
  end.

(* ---------------- the scanner ---------------- *)
Definition b_hash := 35. Definition b_quote := 34. Definition b_nl := 10. Definition b_space := 32.
Definition is_digit (c : N) : bool := N.leb 48 c && N.leb c 57.

Definition PRAGMA_GCC_PCH_PREPROCESS : bytes :=
  [112;114;97;103;109;97;32;71;67;67;32;112;99;104;95;112;114;101;112;114;111;99;101;115;115].
Definition LINE_ : bytes := [108;105;110;101;32].
Definition HASH_31_COMMAND_LINE_NEWLINE : bytes :=
  [35;32;51;49;32;34;60;99;111;109;109;97;110;100;45;108;105;110;101;62;34;10].
Definition HASH_32_COMMAND_LINE_2_NEWLINE : bytes :=
  [35;32;51;50;32;34;60;99;111;109;109;97;110;100;45;108;105;110;101;62;34;32;50;10].
Definition INCBIN_DIRECTIVE : bytes := [46;105;110;99;98;105;110].
Definition UNDERSCORES : bytes := repeat 95 11.
Definition HASH_1 : bytes := [35; 32; 49].

Fixpoint take_until (stop : N -> bool) (b : bytes) : bytes * bytes :=
  match b with
  | [] => ([], [])
  | c :: r => if stop c then ([], b) else let '(t, r') := take_until stop r in (c :: t, r')
  end.

Definition marker_start (rest : bytes) : bool :=
  match rest with
  | c0 :: c1 :: c2 :: _ =>
      N.eqb c0 35 &&
      ((N.eqb c1 32 && is_digit c2)
       || prefixb PRAGMA_GCC_PCH_PREPROCESS (tl rest)
       || prefixb LINE_ (tl rest))
  | _ => false
  end.

Definition incbin_start (rest : bytes) : bool :=
  prefixb INCBIN_DIRECTIVE rest &&
  (let s := skipn 7 rest in
   prefixb [34] s || prefixb [32; 34] s || prefixb [32; 92; 34] s).

Definition last_byte (consumed : bytes) (prev : option N) : option N :=
  match rev consumed with c :: _ => Some c | [] => prev end.

Section Scan.
Variable D : Type.
Variable H : bytes -> D.
Variable HT : option bytes -> option N -> D.
Variable cfg : config.
Variable fs : fsnap.
Variable start : N.
Variable date : bytes.
Variable input : path.    (* canonical absolute *)
Variable cwd : bytes.     (* canonical absolute *)

Inductive line_result :=
| PLContinue (consumed rest : bytes) (inc : list (path * idigest D))   (* ControlFlow::Continue / Break(.., true) *)
| PLDisabled                                                           (* Break(.., false) *)
| PLErr.                                                               (* bail!("Failed to parse included file path") *)

(* process_preprocessor_line at a `rest` that starts with '#' *)
Definition process_line (rest : bytes) (inc : list (path * idigest D)) : line_result :=
  let third := nth_error rest 2 in
  let is3 := match third with Some c => N.eqb c 51 | None => false end in
  if is3 && prefixb HASH_31_COMMAND_LINE_NEWLINE rest then
    (* `while start < hash_start ...` never runs: only the '#' is skipped *)
    PLContinue [b_hash] (tl rest) inc
  else
    let '(pre0, rest0) :=
      if is3 && prefixb HASH_32_COMMAND_LINE_2_NEWLINE rest
      then ([b_hash], HASH_1 ++ skipn 4 rest)
      else ([], rest) in
    let '(a, r1) := take_until (fun c => N.eqb c b_quote || N.eqb c b_nl) rest0 in
    match r1 with
    | [] => PLErr
    | q :: r2 =>
        if N.eqb q b_nl then PLContinue (pre0 ++ a) r1 inc
        else
          match r2 with
          | [] => PLErr
          | _ =>
              let '(pathb, r3) := take_until (fun c => N.eqb c b_quote) r2 in
              match pathb with
              | [] => PLContinue (pre0 ++ a ++ [q]) r2 inc
              | _ =>
                  let '(flagsb, _) := take_until (fun c => N.eqb c b_nl) (tl r3) in
                  let system := existsb (fun c => N.eqb c 51) flagsb in
                  let p := normalized_include_path pathb in
                  let consumed := pre0 ++ a ++ [q] ++ pathb in
                  if is_angle p then PLContinue consumed r3 inc
                  else
                    match remember_include_file D H HT cfg fs start date input inc (resolve cwd p) system with
                    | None => PLDisabled
                    | Some inc' => PLContinue consumed r3 inc'
                    end
              end
          end
    end.

Inductive lm_result :=
| LmOk (inc : list (path * idigest D)) (text : bytes)
| LmDisabled
| LmErr.

(* the loop of process_preprocessed_file; `n` = length rest, `out` = consumed text reversed *)
Fixpoint scan (fuel : nat) (n : nat) (prev : option N) (rest : bytes) (out : bytes)
         (inc : list (path * idigest D)) : lm_result :=
  match fuel with
  | O => LmErr
  | S fuel' =>
      if Nat.leb n 7 then LmOk inc (rev out ++ rest)
      else
        let bol := match prev with None => true | Some c => N.eqb c b_nl end in
        if marker_start rest && bol then
          match process_line rest inc with
          | PLContinue consumed rest' inc' =>
              (* the "# 32" patch keeps the length: rest' always has length rest - length consumed bytes *)
              scan fuel' (n - length consumed) (last_byte consumed prev) rest' (rev consumed ++ out) inc'
          | PLDisabled => LmDisabled
          | PLErr => LmErr
          end
        else if incbin_start rest then LmDisabled
        else if prefixb UNDERSCORES rest && bol then
          (* a distcc-pump chatter line is skipped up to and including its newline *)
          let '(a, r1) := take_until (fun c => N.eqb c b_nl) rest in
          match r1 with
          | [] => scan fuel' 0 (last_byte a prev) [] (rev a ++ out) inc   (* unterminated last line *)
          | c :: r2 => scan fuel' (n - length a - 1) (Some c) r2 (c :: rev a ++ out) inc
          end
        else
          match rest with
          | c :: r => scan fuel' (n - 1) (Some c) r (c :: out) inc
          | [] => LmOk inc (rev out)
          end
  end.

Definition process_preprocessed_file (text : bytes) : lm_result :=
  scan (S (length text)) (length text) None text [] [].

End Scan.
