(* Model/Zip.v — the cache-entry container of sccache (src/cache/cache.rs CacheWrite / CacheRead) over the
   `zip` crate 0.6.6 built with default-features = false, as an executable model over byte lists.

   WRITER  [write_zip]: what ZipWriter<Cursor<Vec<u8>>> leaves in the cursor after start_file / write / finish
   for `Stored` members with FileOptions::default().unix_permissions(..): local header (crc and sizes as patched
   by finish_file), name, data; central directory ("version made by" = unix<<8 | 46, external attributes =
   (0o100000 | mode & 0o777) << 16, DOS time 0 / date 33 = 1980-01-01, bit 11 of the flags for a non-ASCII name);
   end-of-central-directory record with an empty comment.  Lengths are written as the real code writes them
   (`as u16` / `as u32`); [writable] is the guard under which the real writer neither errors nor switches to
   zip64 (not modelled on the writer side).

   READER  [open_archive] = ZipArchive::new: backward scan for the EOCD signature, multi-disk refusal, ZIP64
   locator probe 20 bytes in front of the EOCD (and the ZIP64 record search it triggers), archive-offset
   arithmetic, central headers (flags, name decoding by UTF-8-lossy or CP437, extra-field parser with its ZIP64
   and AES records), HashMap semantics of names_map (a later duplicate wins).  [read_member] = by_name /
   find_content / make_crypto_reader / Take / Crc32Reader: "encrypted" refusal, local header re-parse for the
   data offset, at most compressed_size bytes, CRC-32 compared at end of data; the `unwrap` of by_name on an
   AES-marked member is a first-class outcome (RPanic).

   GLUE  (Section Glue, zstd abstract as compress/decompress): put_object, put_bytes (skips empty),
   get_object, get_bytes (FIXED code: absent member = empty, unreadable member = error), extract_objects
   (FIXED code: an optional member is skipped only when absent), open_entry (FIXED code: duplicate names are
   refused), unpack (the cache-hit path of get_cached_or_compile).

   Large inputs: everything that walks a payload is written tail-recursively (fold_left / accumulators /
   rev_append) so that the extracted code can process MiB-sized members with the default stack. *)
From Coq Require Import List NArith Bool.
From Sccache Require Import Model.Crc32.
Import ListNotations.
Local Open Scope N_scope.

(* ------------------------------------------------------------------ generic helpers *)

Definition lenN (l : list N) : N := fold_left (fun n _ => N.succ n) l 0.

Fixpoint dropN (n : N) (l : list N) : list N :=
  match l with
  | [] => []
  | _ :: r => if N.eqb n 0 then l else dropN (N.pred n) r
  end.

Fixpoint take_acc (n : N) (l acc : list N) : list N :=
  match l with
  | [] => acc
  | x :: r => if N.eqb n 0 then acc else take_acc (N.pred n) r (x :: acc)
  end.

(* first n elements (all of l if shorter) *)
Definition takeN (n : N) (l : list N) : list N := rev_append (take_acc n l []) [].

(* concatenation of chunks *)
Definition cat (cs : list (list N)) : list N :=
  rev_append (fold_left (fun acc c => rev_append c acc) cs []) [].

Definition sumlen (cs : list (list N)) : N := fold_left (fun n c => n + lenN c) cs 0.

Fixpoint beq (a b : list N) : bool :=
  match a, b with
  | [], [] => true
  | x :: a', y :: b' => N.eqb x y && beq a' b'
  | _, _ => false
  end.

(* little endian *)
Definition le16 (n : N) : list N := [n mod 256; (n / 256) mod 256].
Definition le32 (n : N) : list N :=
  [n mod 256; (n / 256) mod 256; (n / 65536) mod 256; (n / 16777216) mod 256].

Definition get8 (l : list N) : option (N * list N) :=
  match l with a :: r => Some (a, r) | _ => None end.
Definition get16 (l : list N) : option (N * list N) :=
  match l with a :: b :: r => Some (a + 256 * b, r) | _ => None end.
Definition get32 (l : list N) : option (N * list N) :=
  match l with
  | a :: b :: c :: d :: r => Some (a + 256 * b + 65536 * c + 16777216 * d, r)
  | _ => None
  end.
Definition get64 (l : list N) : option (N * list N) :=
  match get32 l with
  | Some (lo, r) => match get32 r with
                    | Some (hi, r') => Some (lo + 4294967296 * hi, r')
                    | None => None
                    end
  | None => None
  end.

(* read_exact of n bytes *)
Definition split_at (n : N) (l : list N) : option (list N * list N) :=
  let h := takeN n l in
  if N.eqb (lenN h) n then Some (h, dropN n l) else None.

(* ------------------------------------------------------------------ constants *)

Definition SIG_LOCAL : N := 0x04034b50.
Definition SIG_CENTRAL : N := 0x02014b50.
Definition SIG_EOCD : N := 0x06054b50.
Definition SIG_Z64_EOCD : N := 0x06064b50.
Definition SIG_Z64_LOC : N := 0x07064b50.
Definition U16MAX : N := 0xFFFF.
Definition U32MAX : N := 0xFFFFFFFF.
Definition TWO64 : N := 0x10000000000000000.

(* ------------------------------------------------------------------ writer *)

Record member := mkMember {
  m_name : list N;     (* UTF-8 bytes of the key *)
  m_perm : N;          (* FileOptions.permissions after start_file: 0o100000 | (mode & 0o777), or 0o100644 *)
  m_data : list N      (* the stored bytes (for sccache: one zstd frame) *)
}.

Definition is_ascii (name : list N) : bool := forallb (fun b => N.ltb b 128) name.
Definition gp_flags (name : list N) : N := if is_ascii name then 0 else 2048.

Definition local_header (name : list N) (crc len : N) : list N :=
  le32 SIG_LOCAL ++ le16 20 ++ le16 (gp_flags name) ++ le16 0 ++ le16 0 ++ le16 33
  ++ le32 crc ++ le32 len ++ le32 len ++ le16 (lenN name) ++ le16 0 ++ name.

Definition central_header (name : list N) (perm crc len off : N) : list N :=
  le32 SIG_CENTRAL ++ le16 814 ++ le16 20 ++ le16 (gp_flags name) ++ le16 0 ++ le16 0 ++ le16 33
  ++ le32 crc ++ le32 len ++ le32 len ++ le16 (lenN name) ++ le16 0 ++ le16 0 ++ le16 0 ++ le16 0
  ++ le32 (perm * 65536) ++ le32 off ++ name.

Definition eocd (count cdsize cdoff : N) : list N :=
  le32 SIG_EOCD ++ le16 0 ++ le16 0 ++ le16 count ++ le16 count ++ le32 cdsize ++ le32 cdoff ++ le16 0.

(* local part chunks, central directory chunks, offset after the last member *)
Fixpoint lay (ms : list member) (off : N) : list (list N) * list (list N) * N :=
  match ms with
  | [] => ([], [], off)
  | m :: r =>
      let crc := crc32 (m_data m) in
      let len := lenN (m_data m) in
      let lh := local_header (m_name m) crc len in
      let '(body, cd, fin) := lay r (off + lenN lh + len) in
      (lh :: m_data m :: body, central_header (m_name m) (m_perm m) crc len off :: cd, fin)
  end.

Definition zip_chunks (ms : list member) : list (list N) :=
  let '(body, cd, cdstart) := lay ms 0 in
  body ++ cd ++ [eocd (lenN (map m_perm ms)) (sumlen cd) cdstart].

Definition write_zip (ms : list member) : list N := cat (zip_chunks ms).

(* the real writer neither fails ("Large file option has not been set") nor emits zip64 records *)
Definition writable (ms : list member) : bool :=
  let '(_, cd, cdstart) := lay ms 0 in
  forallb (fun m => N.leb (lenN (m_data m)) U32MAX) ms
  && N.leb (lenN (map m_perm ms)) U16MAX
  && N.leb cdstart U32MAX && N.leb (sumlen cd) U32MAX.

(* ------------------------------------------------------------------ reader: name decoding *)

Definition hd0 (l : list N) : N := match l with [] => 0 | x :: _ => x end.
Definition is_cont (b : N) : bool := N.eqb (N.land b 192) 128.
Definition REPL : list N := [239; 191; 189].    (* U+FFFD *)
Definition in_range (lo b hi : N) : bool := N.leb lo b && N.leb b hi.

Definition ok3 (b b1 : N) : bool :=
  (N.eqb b 224 && in_range 160 b1 191) || (in_range 225 b 236 && in_range 128 b1 191)
  || (N.eqb b 237 && in_range 128 b1 159) || (in_range 238 b 239 && in_range 128 b1 191).
Definition ok4 (b b1 : N) : bool :=
  (N.eqb b 240 && in_range 144 b1 191) || (in_range 241 b 243 && in_range 128 b1 191)
  || (N.eqb b 244 && in_range 128 b1 143).

(* String::from_utf8_lossy, result as UTF-8 bytes: every maximal invalid chunk becomes one U+FFFD *)
Fixpoint lossy (fuel : nat) (l : list N) : list N :=
  match fuel with
  | O => []
  | S f =>
    match l with
    | [] => []
    | b :: r =>
      if N.ltb b 128 then b :: lossy f r
      else if in_range 194 b 223 then
        if is_cont (hd0 r) then b :: hd0 r :: lossy f (tl r) else REPL ++ lossy f r
      else if in_range 224 b 239 then
        if ok3 b (hd0 r) then
          let r1 := tl r in
          if is_cont (hd0 r1) then b :: hd0 r :: hd0 r1 :: lossy f (tl r1) else REPL ++ lossy f r1
        else REPL ++ lossy f r
      else if in_range 240 b 244 then
        if ok4 b (hd0 r) then
          let r1 := tl r in
          if is_cont (hd0 r1) then
            let r2 := tl r1 in
            if is_cont (hd0 r2) then b :: hd0 r :: hd0 r1 :: hd0 r2 :: lossy f (tl r2)
            else REPL ++ lossy f r2
          else REPL ++ lossy f r1
        else REPL ++ lossy f r
      else REPL ++ lossy f r
    end
  end.

Definition utf8_lossy (l : list N) : list N := lossy (length l) l.

(* zip-0.6.6/src/cp437.rs to_char for 0x80..0xff *)
Definition CP437 : list N :=
  [0x00c7; 0x00fc; 0x00e9; 0x00e2; 0x00e4; 0x00e0; 0x00e5; 0x00e7; 0x00ea; 0x00eb; 0x00e8; 0x00ef; 0x00ee; 0x00ec; 0x00c4; 0x00c5;
   0x00c9; 0x00e6; 0x00c6; 0x00f4; 0x00f6; 0x00f2; 0x00fb; 0x00f9; 0x00ff; 0x00d6; 0x00dc; 0x00a2; 0x00a3; 0x00a5; 0x20a7; 0x0192;
   0x00e1; 0x00ed; 0x00f3; 0x00fa; 0x00f1; 0x00d1; 0x00aa; 0x00ba; 0x00bf; 0x2310; 0x00ac; 0x00bd; 0x00bc; 0x00a1; 0x00ab; 0x00bb;
   0x2591; 0x2592; 0x2593; 0x2502; 0x2524; 0x2561; 0x2562; 0x2556; 0x2555; 0x2563; 0x2551; 0x2557; 0x255d; 0x255c; 0x255b; 0x2510;
   0x2514; 0x2534; 0x252c; 0x251c; 0x2500; 0x253c; 0x255e; 0x255f; 0x255a; 0x2554; 0x2569; 0x2566; 0x2560; 0x2550; 0x256c; 0x2567;
   0x2568; 0x2564; 0x2565; 0x2559; 0x2558; 0x2552; 0x2553; 0x256b; 0x256a; 0x2518; 0x250c; 0x2588; 0x2584; 0x258c; 0x2590; 0x2580;
   0x03b1; 0x00df; 0x0393; 0x03c0; 0x03a3; 0x03c3; 0x00b5; 0x03c4; 0x03a6; 0x0398; 0x03a9; 0x03b4; 0x221e; 0x03c6; 0x03b5; 0x2229;
   0x2261; 0x00b1; 0x2265; 0x2264; 0x2320; 0x2321; 0x00f7; 0x2248; 0x00b0; 0x2219; 0x00b7; 0x221a; 0x207f; 0x00b2; 0x25a0; 0x00a0].

Definition utf8_encode (cp : N) : list N :=
  if N.ltb cp 128 then [cp]
  else if N.ltb cp 2048 then [192 + cp / 64; 128 + cp mod 64]
  else [224 + cp / 4096; 128 + (cp / 64) mod 64; 128 + cp mod 64].

Definition cp437_char (b : N) : list N :=
  if N.ltb b 128 then [b] else utf8_encode (nth (N.to_nat (b - 128)) CP437 0).

Definition from_cp437 (l : list N) : list N :=
  if is_ascii l then l else flat_map cp437_char l.

Definition decode_name (is_utf8 : bool) (raw : list N) : list N :=
  if is_utf8 then utf8_lossy raw else from_cp437 raw.

(* ------------------------------------------------------------------ reader: central directory *)

Record cent := mkCent {
  c_key : list N;        (* file_name: the decoded name, as UTF-8 bytes *)
  c_system : N;          (* version_made_by >> 8 *)
  c_encrypted : bool;
  c_method : N;          (* compression method number (0 = Stored, anything else Unsupported) *)
  c_aes : bool;          (* aes_mode.is_some() *)
  c_crc : N;
  c_csize : N;
  c_hstart : N;          (* header_start, archive offset already added *)
  c_attr : N             (* external_attributes *)
}.

Record xst := mkXst { x_usize : N; x_csize : N; x_hstart : N; x_aes : bool; x_method : N }.

(* parse_extra_field.  None = an error that makes ZipArchive::new fail; an Io error (short read) just stops
   the parse and keeps what was set so far, exactly as central_header_to_zip_file_inner treats it. *)
Fixpoint parse_extra (fuel : nat) (e : list N) (st : xst) : option xst :=
  match fuel with
  | O => Some st
  | S f =>
    match e with
    | [] => Some st
    | _ =>
      match get16 e with
      | None => Some st
      | Some (kind, e1) =>
        match get16 e1 with
        | None => Some st
        | Some (len, e2) =>
          if N.eqb kind 1 then
            (* ZIP64 extended information: three conditional u64 reads *)
            let step1 :=
              if N.eqb (x_usize st) U32MAX then
                match get64 e2 with
                | Some (v, r) => Some (mkXst v (x_csize st) (x_hstart st) (x_aes st) (x_method st), r, 8)
                | None => None
                end
              else Some (st, e2, 0) in
            match step1 with
            | None => Some st
            | Some (st1, r1, u1) =>
              let step2 :=
                if N.eqb (x_csize st1) U32MAX then
                  match get64 r1 with
                  | Some (v, r) => Some (mkXst (x_usize st1) v (x_hstart st1) (x_aes st1) (x_method st1), r, u1 + 8)
                  | None => None
                  end
                else Some (st1, r1, u1) in
              match step2 with
              | None => Some st1
              | Some (st2, r2, u2) =>
                let step3 :=
                  if N.eqb (x_hstart st2) U32MAX then
                    match get64 r2 with
                    | Some (v, r) => Some (mkXst (x_usize st2) (x_csize st2) v (x_aes st2) (x_method st2), r, u2 + 8)
                    | None => None
                    end
                  else Some (st2, r2, u2) in
                match step3 with
                | None => Some st2
                | Some (st3, r3, u3) => parse_extra f (dropN (len - u3) r3) st3   (* len - u3 saturates at 0 *)
                end
              end
            end
          else if N.eqb kind 0x9901 then
            if negb (N.eqb len 7) then None
            else
              match get16 e2 with
              | None => Some st
              | Some (vver, r1) =>
                match get16 r1 with
                | None => Some st
                | Some (vid, r2) =>
                  match get8 r2 with
                  | None => Some st
                  | Some (amode, r3) =>
                    match get16 r3 with
                    | None => Some st
                    | Some (cm, r4) =>
                      if negb (N.eqb vid 0x4541) then None
                      else if negb (N.eqb vver 1 || N.eqb vver 2) then None
                      else if negb (N.eqb amode 1 || N.eqb amode 2 || N.eqb amode 3) then None
                      else parse_extra f (dropN 7 r4)      (* len_left is still 7: skipped once more *)
                             (mkXst (x_usize st) (x_csize st) (x_hstart st) true cm)
                    end
                  end
                end
              end
          else parse_extra f (dropN len e2) st
        end
      end
    end
  end.

(* central_header_to_zip_file: one header from the stream *)
Definition parse_central (s : list N) (archive_offset : N) : option (cent * list N) :=
  match get32 s with None => None | Some (sig, s) =>
  if negb (N.eqb sig SIG_CENTRAL) then None else
  match get16 s with None => None | Some (made_by, s) =>
  match get16 s with None => None | Some (_, s) =>
  match get16 s with None => None | Some (flags, s) =>
  match get16 s with None => None | Some (method, s) =>
  match get16 s with None => None | Some (_, s) =>
  match get16 s with None => None | Some (_, s) =>
  match get32 s with None => None | Some (crc, s) =>
  match get32 s with None => None | Some (csize, s) =>
  match get32 s with None => None | Some (usize, s) =>
  match get16 s with None => None | Some (nlen, s) =>
  match get16 s with None => None | Some (xlen, s) =>
  match get16 s with None => None | Some (clen, s) =>
  match get16 s with None => None | Some (_, s) =>
  match get16 s with None => None | Some (_, s) =>
  match get32 s with None => None | Some (attr, s) =>
  match get32 s with None => None | Some (off, s) =>
  match split_at nlen s with None => None | Some (raw, s) =>
  match split_at xlen s with None => None | Some (extra, s) =>
  match split_at clen s with None => None | Some (_, s) =>
  match parse_extra (length extra) extra (mkXst usize csize off false method) with
  | None => None
  | Some x =>
    if N.eqb (x_method x) 99 && negb (x_aes x) then None
    else if N.leb TWO64 (x_hstart x + archive_offset) then None
    else Some (mkCent (decode_name (N.testbit flags 11) raw)
                      ((made_by / 256) mod 256) (N.testbit flags 0) (x_method x) (x_aes x)
                      crc (x_csize x) (x_hstart x + archive_offset) attr, s)
  end end end end end end end end end end end end end end end end end end end end end.

Fixpoint parse_cd (fuel : nat) (count : N) (s : list N) (archive_offset : N) (acc : list cent)
  : option (list cent) :=
  if N.eqb count 0 then Some (rev_append acc [])
  else match fuel with
       | O => None
       | S f => match parse_central s archive_offset with
                | None => None
                | Some (c, s') => parse_cd f (N.pred count) s' archive_offset (c :: acc)
                end
       end.

(* ------------------------------------------------------------------ reader: locating the directory *)

(* backward scan of CentralDirectoryEnd::find_and_parse over the reversed file: [r] starts 18 bytes from the
   end, i.e. at the last byte of a signature that would start at [pos]; [cnt] candidates are left *)
Definition is_sig_rev (r : list N) : bool :=
  match r with
  | a :: b :: c :: d :: _ => N.eqb a 6 && N.eqb b 5 && N.eqb c 75 && N.eqb d 80
  | _ => false
  end.

Fixpoint scan_eocd (r : list N) (pos cnt : N) : option N :=
  match r with
  | [] => None
  | _ :: r' =>
    if N.eqb cnt 0 then None
    else if is_sig_rev r then Some pos
    else scan_eocd r' (N.pred pos) (N.pred cnt)
  end.

(* forward scan of Zip64CentralDirectoryEnd::find_and_parse: [s] = file from [pos] on *)
Fixpoint scan_z64 (s : list N) (pos upper : N) : option (N * list N) :=
  match s with
  | [] => None
  | _ :: s' =>
    if N.ltb upper pos then None
    else match get32 s with
         | None => None
         | Some (sig, s1) =>
           if N.eqb sig SIG_Z64_EOCD then Some (pos, s1)
           else scan_z64 s' (N.succ pos) upper
         end
  end.

Record dirinfo := mkDir { d_offset : N; d_start : N; d_count : N }.

Definition locate_directory (bs : list N) : option dirinfo :=
  let L := lenN bs in
  if N.ltb L 22 then None else
  match scan_eocd (dropN 18 (rev_append bs [])) (L - 22) (N.min (L - 22) 65535 + 1) with
  | None => None
  | Some pos =>
    match get32 (dropN pos bs) with None => None | Some (_, s) =>
    match get16 s with None => None | Some (disk, s) =>
    match get16 s with None => None | Some (disk_cd, s) =>
    match get16 s with None => None | Some (n_this, s) =>
    match get16 s with None => None | Some (n_total, s) =>
    match get32 s with None => None | Some (cd_size, s) =>
    match get32 s with None => None | Some (cd_off, s) =>
    match get16 s with None => None | Some (clen, s) =>
    if N.ltb (L - pos - 22) clen then None else
    let too_small := N.eqb disk U16MAX || N.eqb disk_cd U16MAX || N.eqb n_this U16MAX || N.eqb n_total U16MAX
                     || N.eqb cd_size U32MAX || N.eqb cd_off U32MAX in
    if negb too_small && negb (N.eqb disk disk_cd) then None else
    let loc :=
      if N.leb (42 + clen) L then
        match get32 (dropN (L - (42 + clen)) bs) with
        | Some (sig, s1) => if N.eqb sig SIG_Z64_LOC then Some s1 else None
        | None => None
        end
      else None in
    match loc with
    | None =>
      if N.ltb pos (cd_size + cd_off) then None
      else Some (mkDir (pos - cd_size - cd_off) (cd_off + (pos - cd_size - cd_off)) n_this)
    | Some s1 =>
      match get32 s1 with None => None | Some (loc_disk, s1) =>
      match get64 s1 with None => None | Some (nominal, _) =>
      if negb too_small && negb (N.eqb disk loc_disk) then None
      else if N.ltb pos 60 then None
      else
        match scan_z64 (dropN nominal bs) nominal (pos - 60) with
        | None => None
        | Some (zpos, s2) =>
          match get64 s2 with None => None | Some (_, s2) =>
          match get16 s2 with None => None | Some (_, s2) =>
          match get16 s2 with None => None | Some (_, s2) =>
          match get32 s2 with None => None | Some (zdisk, s2) =>
          match get32 s2 with None => None | Some (zdisk_cd, s2) =>
          match get64 s2 with None => None | Some (_, s2) =>
          match get64 s2 with None => None | Some (zcount, s2) =>
          match get64 s2 with None => None | Some (_, s2) =>
          match get64 s2 with None => None | Some (zcd_off, _) =>
          if negb (N.eqb zdisk zdisk_cd) then None
          else if N.leb TWO64 (zcd_off + (zpos - nominal)) then None
          else Some (mkDir (zpos - nominal) (zcd_off + (zpos - nominal)) zcount)
          end end end end end end end end end
        end
      end end
    end
    end end end end end end end end
  end.

(* ZipArchive::new *)
Definition open_archive (bs : list N) : option (list cent) :=
  match locate_directory bs with
  | None => None
  | Some d =>
    let s := dropN (d_start d) bs in
    parse_cd (N.to_nat (N.min (d_count d) (lenN s / 46 + 1))) (d_count d) s (d_offset d) []
  end.

(* names_map.get: insertion order = directory order, a later equal name replaces the earlier one *)
Definition by_name (ar : list cent) (name : list N) : option cent :=
  fold_left (fun acc c => if beq (c_key c) name then Some c else acc) ar None.

Definition has_name (ar : list cent) (name : list N) : bool :=
  existsb (fun c => beq (c_key c) name) ar.

(* CacheRead::from (FIXED code): ZipArchive::new, then refuse a directory that names two members alike
   (names_map.len() != files.len()) *)
Fixpoint nodup_keys (ar : list cent) : bool :=
  match ar with
  | [] => true
  | c :: r => negb (has_name r (c_key c)) && nodup_keys r
  end.

Definition open_entry (bs : list N) : option (list cent) :=
  match open_archive bs with
  | Some ar => if nodup_keys ar then Some ar else None
  | None => None
  end.

(* ------------------------------------------------------------------ reader: one member *)

Inductive rres (A : Type) : Type := ROk (a : A) | RErr | RPanic.
Arguments ROk {A} a.
Arguments RErr {A}.
Arguments RPanic {A}.

(* ZipFileData::unix_mode *)
Definition unix_mode (c : cent) : option N :=
  if N.eqb (c_attr c) 0 then None
  else if N.eqb (c_system c) 3 then Some (c_attr c / 65536)
  else if N.eqb (c_system c) 0 then
    let m := if N.testbit (c_attr c) 4 then 16893 (* S_IFDIR | 0o775 *) else 33204 (* S_IFREG | 0o664 *) in
    Some (if N.testbit (c_attr c) 0 then N.land m 365 (* 0o555 *) else m)
  else None.

(* by_index + reading the member to its end through Crc32Reader: the stored bytes, or failure *)
Definition read_member (bs : list N) (c : cent) : rres (option N * list N) :=
  if c_encrypted c then RErr else
  match get32 (dropN (c_hstart c) bs) with
  | None => RErr
  | Some (sig, s1) =>
    if negb (N.eqb sig SIG_LOCAL) then RErr else
    match get16 (dropN 22 s1) with
    | None => RErr
    | Some (nlen, s2) =>
      match get16 s2 with
      | None => RErr
      | Some (xlen, _) =>
        if negb (N.eqb (c_method c) 0) then RErr
        else if c_aes c then RPanic
        else
          let region := dropN (c_hstart c + 30 + nlen + xlen) bs in
          if N.eqb (N.lxor (crc_take region (c_csize c) MASK32) MASK32) (c_crc c)
          then ROk (unix_mode c, takeN (c_csize c) region)
          else RErr
      end
    end
  end.

(* ------------------------------------------------------------------ corruptions *)

(* byte j := v (nothing happens beyond the end); tail-recursive *)
Definition subst_at (j : N) (v : N) (l : list N) : list N :=
  match dropN j l with
  | [] => l
  | _ :: r => rev_append (take_acc j l []) (v :: r)
  end.

Definition truncate_at (i : N) (l : list N) : list N := takeN i l.

(* ------------------------------------------------------------------ sccache's glue *)

Definition NAME_STDOUT : list N := [115; 116; 100; 111; 117; 116].
Definition NAME_STDERR : list N := [115; 116; 100; 101; 114; 114].

(* FileOptions::unix_permissions + start_file *)
Definition perm_of (mode : option N) : N :=
  match mode with
  | Some md => N.lor (N.land md 511) 32768
  | None => 33188     (* 0o100644 *)
  end.

(* GErr / BErr / XErr are errors of the CLASS DecompressionFailure: get_object maps every failure of by_name, of the
   compression-method test and of the zstd/CRC read to that marker type, and get_cached_or_compile treats exactly
   that class (downcast_ref::<DecompressionFailure>()) as "miss, recompile"; any other error type fails the request.
   The model has no other error class on these paths, so a real reader that reports a corrupt member with a different
   error type disagrees with the model (the harness observes the class). *)
Inductive gres : Type := GOk (mode : option N) (content : list N) | GErr | GPanic.
Inductive bres : Type := BOk (content : list N) | BErr | BPanic.
(* ------------------------------------------------------------------ the writer's configuration
   put_object reads its zstd level on every call:
     std::env::var("SCCACHE_CACHE_ZSTD_LEVEL").ok().and_then(|v| v.parse::<i32>().ok()).unwrap_or(3)
   A level is (negative?, magnitude).  <i32 as FromStr>: an optional single '+' or '-', then at least one ASCII
   digit and nothing else (no blanks), value within i32; anything else — unset, not unicode, empty, a lone sign,
   overflow — falls back to 3.  (zstd itself clamps a level outside its own range; that is inside `compress`.) *)
Definition level : Type := (bool * N)%type.
Definition DEFAULT_LEVEL : level := (false, 3).

Fixpoint digits (l : list N) (acc : N) : option N :=
  match l with
  | [] => Some acc
  | b :: r => if N.leb 48 b && N.leb b 57 then digits r (acc * 10 + (b - 48)) else None
  end.

Definition parse_i32 (s : list N) : option level :=
  match s with
  | [] => None
  | 45 :: r =>
    match r with
    | [] => None
    | _ => match digits r 0 with
           | Some n => if N.leb n 2147483648 then Some (negb (N.eqb n 0), n) else None
           | None => None
           end
    end
  | 43 :: r =>
    match r with
    | [] => None
    | _ => match digits r 0 with
           | Some n => if N.leb n 2147483647 then Some (false, n) else None
           | None => None
           end
    end
  | _ => match digits s 0 with
         | Some n => if N.leb n 2147483647 then Some (false, n) else None
         | None => None
         end
  end.

Definition zstd_level (env : option (list N)) : level :=
  match env with
  | Some v => match parse_i32 v with Some l => l | None => DEFAULT_LEVEL end
  | None => DEFAULT_LEVEL
  end.

Inductive xres : Type := XOk (files : list (option (option N * list N))) | XErr | XPanic.
Inductive ures : Type :=
| UHit (stdout stderr : list N) (files : list (option (option N * list N)))
| UMiss | UPanic.

Section Glue.
  Variable compress : list N -> list N.
  Variable decompress : list N -> option (list N).

  (* CacheWrite: the ZipWriter state is the list of members started so far *)
  Definition put_object (w : list member) (name content : list N) (mode : option N) : list member :=
    w ++ [mkMember name (perm_of mode) (compress content)].

  (* put_stdout / put_stderr: the output is skipped if and only if it is the EMPTY byte string (`!bytes.is_empty()`);
     "\n", " ", a NUL byte ... are stored like any other output, because a missing member reads back as empty *)
  Definition put_bytes (w : list member) (name bytes : list N) : list member :=
    match bytes with
    | [] => w
    | _ => put_object w name bytes None
    end.

  (* get_cached_or_compile on a miss: from_objects, put_stdout, put_stderr, finish *)
  Definition cache_members (objs : list (list N * option N * list N)) (stdout stderr : list N) : list member :=
    let w := fold_left (fun w o => put_object w (fst (fst o)) (snd o) (snd (fst o))) objs [] in
    put_bytes (put_bytes w NAME_STDOUT stdout) NAME_STDERR stderr.

  (* CacheWrite::from_objects: a file that cannot be opened is skipped if optional, an error otherwise *)
  Fixpoint from_objects (w : list member) (srcs : list (list N * option (N * list N) * bool))
    : option (list member) :=
    match srcs with
    | [] => Some w
    | (key, file, optional) :: r =>
      match file with
      | Some (mode, content) => from_objects (put_object w key content (Some mode)) r
      | None => if optional then from_objects w r else None
      end
    end.

  Definition cache_write (objs : list (list N * option N * list N)) (stdout stderr : list N) : list N :=
    write_zip (cache_members objs stdout stderr).

  (* CacheRead *)
  Definition get_object (ar : list cent) (bs : list N) (name : list N) : gres :=
    match by_name ar name with
    | None => GErr
    | Some c =>
      match read_member bs c with
      | RErr => GErr
      | RPanic => GPanic
      | ROk (mode, data) =>
        match decompress data with
        | Some x => GOk mode x
        | None => GErr
        end
      end
    end.

  (* fixed get_bytes: absent = empty, present but unreadable = error *)
  Definition get_bytes (ar : list cent) (bs : list N) (name : list N) : bres :=
    if negb (has_name ar name) then BOk []
    else match get_object ar bs name with
         | GOk _ x => BOk x
         | GErr => BErr
         | GPanic => BPanic
         end.

  (* one slot per requested object: Some (mode, content) if it was written to its destination *)
  Fixpoint extract_objects (ar : list cent) (bs : list N) (reqs : list (list N * bool))
    : xres :=
    match reqs with
    | [] => XOk []
    | (key, optional) :: r =>
      match get_object ar bs key with
      | GOk mode x =>
        match extract_objects ar bs r with
        | XOk fs => XOk (Some (mode, x) :: fs)
        | e => e
        end
      | GErr =>
        (* FIXED code: only an object that is absent from the entry is skipped *)
        if optional && negb (has_name ar key) then
          match extract_objects ar bs r with
          | XOk fs => XOk (None :: fs)
          | e => e
          end
        else XErr
      | GPanic => XPanic
      end
    end.

  (* the Cache::Hit arm of get_cached_or_compile *)
  Definition unpack (bs : list N) (reqs : list (list N * bool)) : ures :=
    match open_entry bs with
    | None => UMiss
    | Some ar =>
      match get_bytes ar bs NAME_STDOUT with
      | BPanic => UPanic
      | so =>
        match get_bytes ar bs NAME_STDERR with
        | BPanic => UPanic
        | se =>
          match so, se with
          | BOk o, BOk e =>
            match extract_objects ar bs reqs with
            | XOk fs => UHit o e fs
            | XErr => UMiss
            | XPanic => UPanic
            end
          | _, _ => UMiss
          end
        end
      end
    end.
End Glue.

(* the writer under a configuration: zstd at the level the environment selects.  The reader has no configuration:
   it must unpack what ANY level wrote. *)
Section GlueCfg.
  Variable compress_at : level -> list N -> list N.

  Definition cache_members_cfg (env : option (list N)) (objs : list (list N * option N * list N))
             (stdout stderr : list N) : list member :=
    cache_members (compress_at (zstd_level env)) objs stdout stderr.

  Definition cache_write_cfg (env : option (list N)) (objs : list (list N * option N * list N))
             (stdout stderr : list N) : list N :=
    cache_write (compress_at (zstd_level env)) objs stdout stderr.
End GlueCfg.

(* ------------------------------------------------------------------ histories of packs on one thread
   An output file is read while it is packed, and reading can fail part-way (I/O error after n bytes).  put_object then
   returns the error and the CacheWrite is dropped.  On the code that exists every put_object builds its own zstd
   encoder (zstd::stream::copy_encode), so NOTHING is carried from one pack to the next: the result of a pack is a
   function of its own inputs, whatever the thread packed — or failed to pack — before. *)
Definition source : Type := (list N * option N)%type.     (* contents; Some n = the read fails after n bytes *)

Definition read_source (s : source) : option (list N) :=
  match snd s with None => Some (fst s) | Some _ => None end.

Definition pack_op : Type := (list (list N * option N * source) * list N * list N)%type.   (* objects, stdout, stderr *)

Section GlueHist.
  Variable compress : list N -> list N.

  (* put_object for every object in order; the first failing read aborts the pack *)
  Fixpoint put_sources (w : list member) (objs : list (list N * option N * source)) : option (list member) :=
    match objs with
    | [] => Some w
    | (name, mode, src) :: r =>
      match read_source src with
      | Some content => put_sources (put_object compress w name content mode) r
      | None => None
      end
    end.

  Definition pack_one (op : pack_op) : option (list N) :=
    match put_sources [] (fst (fst op)) with
    | Some w => Some (write_zip (put_bytes compress (put_bytes compress w NAME_STDOUT (snd (fst op))) NAME_STDERR (snd op)))
    | None => None
    end.

  (* one thread, one pack after the other *)
  Definition pack_history (ops : list pack_op) : list (option (list N)) := map pack_one ops.
End GlueHist.

