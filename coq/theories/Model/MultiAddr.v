(* MultiAddr.v — several server ADDRESSES in use at once (Unix socket paths in one directory).

   "One server per address" has a second half: servers of DIFFERENT addresses do not get in each other's way.
   Every address has its own name-table entry (its own path), its own clients and servers — one Startup.st per
   address — but the advisory locks live in ONE table keyed by the lock FILE name, and that name is computed
   from the socket path (src/net.rs lock_unix_socket_path: the path's bytes with ".lock" appended).
   `ln` is that computation.  If two addresses get the same lock file, a server starting for one of them finds
   the lock taken while a server of the other holds it: it reports AddrInUse and exits, its client polls its
   own (never bound) path and gives up.

   mstep: address a makes event e.  The address sees the lock as taken when a server of a DIFFERENT address
   with the same lock file holds it (`foreign_held`); only the try-lock step looks at that. *)
From Coq Require Import List NArith Bool.
From Sccache Require Import Base.Sx.
From Sccache Require Import Model.Startup.
Import ListNotations.
Local Open Scope N_scope.

Definition path := list N.

(* ".lock" appended to the raw bytes of the path — NOT the extension replaced *)
Definition lock_name (p : path) : path := p ++ [46; 108; 111; 99; 107].

(* the tidy-looking alternative (Path::with_extension): everything after the last '.' of the last component
   replaced.  Kept as a definition so that its failure is a checked witness. *)
Fixpoint drop_ext_rev (r : list N) : option (list N) :=
  match r with
  | [] => None
  | c :: t => if c =? 47 then None                       (* '/' : no extension in the last component *)
              else if c =? 46 then Some t                 (* '.' *)
              else drop_ext_rev t
  end.
Definition with_extension_lock (p : path) : path :=
  match drop_ext_rev (rev p) with
  | Some t => rev t ++ [46; 108; 111; 99; 107]
  | None => p ++ [46; 108; 111; 99; 107]
  end.

Record world := mkw {
  addrs : list path;               (* the addresses in use *)
  sts : path -> st;                (* one start-up race per address *)
}.

Definition holds_lock (s : st) : bool := match lock s with Some _ => true | None => false end.

Definition foreign_held (ln : path -> path) (w : world) (a : path) : bool :=
  existsb (fun b => negb (bytes_eqb b a) && bytes_eqb (ln b) (ln a) && holds_lock (sts w b)) (addrs w).

Definition updp (f : path -> st) (a : path) (x : st) : path -> st :=
  fun b => if bytes_eqb b a then x else f b.

Definition mstep (ln : path -> path) (w : world) (ae : path * ev) : world :=
  let '(a, e) := ae in
  let s := sts w a in
  if foreign_held ln w a then
    (* the lock file is held by another address's server: try-lock fails; nothing else reads the lock *)
    let s' := step (set_lock s (Some 0)) e in
    mkw (addrs w) (updp (sts w) a (set_lock s' (lock s)))
  else mkw (addrs w) (updp (sts w) a (step s e)).

Definition mexec (ln : path -> path) (w : world) (sched : list (path * ev)) : world :=
  fold_left (mstep ln) sched w.

(* what one address does, taken out of the common schedule *)
Definition proj (a : path) (sched : list (path * ev)) : list ev :=
  map snd (filter (fun ae => bytes_eqb (fst ae) a) sched).

Definition winit (k : akind) (r : nat) (n : N) (l : list path) : world :=
  mkw l (fun _ => init k r n false).
