(* Model/TimeMacro.v — `TimeMacroFinder::find_time_macros` of src/util.rs, literally
   (the code AFTER the `fix:` commit "time macro scan no longer reports a macro that is split by unrelated
   small reads": in the branch for later reads the overlap buffer is no longer searched after a small read, and
   before a full read only if no small read lies in between; witness of the old behaviour: corpus/C04/timemacro.sx).

   The Rust struct keeps a 2*MAX_HAYSTACK_LEN byte `overlap_buffer` that is only ever read or written as its
   left half `[..MAX]` and its right half `[MAX..]` (or as a whole, = left ++ right); the model keeps the two
   halves as two lists (`ob_l`, `ob_r`).  `full_chunks_counter` and `previous_small_read` are modelled as they
   are.  The three patterns, MAX_HAYSTACK_LEN and HASH_BUFFER_SIZE come from Gen/C04Consts.v (translator).

   `Digest::reader_sync_time_macros` calls `find_time_macros` once per successful non-empty `read`, in
   order, with exactly the bytes that read returned: `scan_chunks`.  For a regular file the reads are
   HASH_BUFFER_SIZE bytes each except the last one: `file_chunks`. *)
From Coq Require Import List NArith Bool.
From Sccache Require Import Base.Sx Gen.C04Consts.
Import ListNotations.
Local Open Scope N_scope.

Definition bytes := list N.

(* ---- substring search (memchr::memmem::find(..).is_some()) ---- *)
Fixpoint prefixb (p h : bytes) : bool :=
  match p, h with
  | [], _ => true
  | _ :: _, [] => false
  | x :: p', y :: h' => N.eqb x y && prefixb p' h'
  end.

Fixpoint containsb (p h : bytes) : bool :=
  prefixb p h || match h with [] => false | _ :: t => containsb p t end.

Definition lastn {A} (n : nat) (l : list A) : list A := skipn (length l - n) l.
Definition zeros (n : nat) : bytes := repeat 0 n.
Definition nonempty {A} (l : list A) : bool := match l with [] => false | _ => true end.

Record finder := {
  f_date : bool;
  f_time : bool;
  f_timestamp : bool;
  ob_l : bytes;              (* overlap_buffer[..MAX_HAYSTACK_LEN] *)
  ob_r : bytes;              (* overlap_buffer[MAX_HAYSTACK_LEN..] *)
  full_chunks : N;           (* full_chunks_counter *)
  psr : bytes;               (* previous_small_read *)
}.

Definition finder_new : finder :=
  {| f_date := false; f_time := false; f_timestamp := false;
     ob_l := zeros max_haystack_len; ob_r := zeros max_haystack_len; full_chunks := 0; psr := [] |}.

(* fn find_macros(&self, buffer) : only ever sets flags *)
Definition find_macros (f : finder) (buf : bytes) : finder :=
  {| f_date := f_date f || containsb pat_date buf;
     f_time := f_time f || containsb pat_time buf;
     f_timestamp := f_timestamp f || containsb pat_timestamp buf;
     ob_l := ob_l f; ob_r := ob_r f; full_chunks := full_chunks f; psr := psr f |}.

Definition set_psr (f : finder) (p : bytes) : finder :=
  {| f_date := f_date f; f_time := f_time f; f_timestamp := f_timestamp f;
     ob_l := ob_l f; ob_r := ob_r f; full_chunks := full_chunks f; psr := p |}.
Definition set_ob (f : finder) (l r : bytes) : finder :=
  {| f_date := f_date f; f_time := f_time f; f_timestamp := f_timestamp f;
     ob_l := l; ob_r := r; full_chunks := full_chunks f; psr := psr f |}.

(* the common tail of find_time_macros (after the if/else):
     if !previous_small_read.is_empty() { find_macros(previous_small_read ++ visit) }
     find_macros(visit); full_chunks_counter += 1; previous_small_read.clear() *)
Definition finish_full (f : finder) (visit : bytes) : finder :=
  let f1 := if nonempty (psr f) then find_macros f (psr f ++ visit) else f in
  let f2 := find_macros f1 visit in
  {| f_date := f_date f2; f_time := f_time f2; f_timestamp := f_timestamp f2;
     ob_l := ob_l f2; ob_r := ob_r f2; full_chunks := full_chunks f2 + 1; psr := [] |}.

Definition find_time_macros (f : finder) (visit : bytes) : finder :=
  let n := length visit in
  let M := max_haystack_len in
  if N.eqb (full_chunks f) 0 then
    if Nat.leb n M then
      (* `extend` if previous_small_read is non-empty, `clone_into` otherwise: both give psr ++ visit *)
      let p := psr f ++ visit in
      find_macros (set_psr f p) p
    else
      finish_full (set_ob f (lastn M visit) (ob_r f)) visit
  else
    if Nat.ltb n M then
      let p := if nonempty (psr f) then psr f ++ visit else ob_l f ++ visit in
      let f1 := set_psr f p in
      find_macros f1 (psr f1)
    else
      (* the overlap buffer is consulted only when no small read separates its two halves *)
      let f2 := if nonempty (psr f) then f
                else let f1 := set_ob f (ob_l f) (firstn M visit) in
                     find_macros f1 (ob_l f1 ++ ob_r f1) in
      let f3 := set_ob f2 (lastn M visit) (zeros M) in
      let f4 := find_macros f3 (ob_l f3 ++ ob_r f3) in
      finish_full f4 visit.

Definition scan_chunks (chunks : list bytes) : finder := fold_left find_time_macros chunks finder_new.

(* ---- the reads a regular file produces: full buffers, then the rest ---- *)
Fixpoint chunks_of (fuel : nat) (n : nat) (b : bytes) : list bytes :=
  match fuel with
  | O => []
  | S fuel' =>
      match b with
      | [] => []
      | _ => firstn n b :: chunks_of fuel' n (skipn n b)
      end
  end.

Definition file_chunks (b : bytes) : list bytes :=
  if N.leb (N.of_nat (length b)) hash_buffer_size
  then match b with [] => [] | _ => [b] end
  else chunks_of (length b) (N.to_nat hash_buffer_size) b.

Record flags := { fl_date : bool; fl_time : bool; fl_timestamp : bool }.
Definition no_flags : flags := {| fl_date := false; fl_time := false; fl_timestamp := false |}.
Definition flags_of (f : finder) : flags :=
  {| fl_date := f_date f; fl_time := f_time f; fl_timestamp := f_timestamp f |}.

(* Digest::reader_sync_time_macros(File) : the flags part *)
Definition scan_file (b : bytes) : flags := flags_of (scan_chunks (file_chunks b)).
