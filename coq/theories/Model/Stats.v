(* Stats.v — executable model of sccache's `ServerStats` (src/server.rs) and of the way requests update it.

   What the code does.  `ServerStats` sits behind one async mutex (`SccacheService::stats`).  A compile
   request touches it in up to four separate critical sections, in this program order:

     1. `Service::call`              : compile_requests += 1
     2. `check_compiler`             : requests_unsupported_compiler += 1            (compiler_info failed)
                                     | requests_not_compile += 1                      (NotCompilation)
                                     | requests_not_cacheable += 1; not_cached[why] += 1   (CannotCache)
        or `start_compile_task`      : requests_executed += 1
     3. `start_compile_task`, after `get_cached_or_compile` returned, ONE section holding the lock:
          CompileResult::Error            cache_errors[lang] += 1
          CacheHit                        cache_hits[lang] += 1
          CacheMiss(miss_type, ..)        forced_recaches / cache_timeouts / cache_read_errors += 1 (by miss type),
                                          compilations += 1, cache_misses[lang] += 1
          NotCached                       compilations += 1
          NotCacheable                    compilations += 1, non_cacheable_compilations += 1
          CompileFailed (dist only)       compilations += 1, compile_fails += 1
          Err(ProcessError) (local compile failed)   compile_fails += 1
          Err(other) ("fatal error")      cache_errors[lang] += 1
     4. only after a CacheMiss, when the deferred `put` future resolved:
          cache_writes += 1   |   cache_write_errors += 1
   `Request::ZeroStats` replaces the whole record by `ServerStats::default()`.

   A `PerLanguageCount` holds TWO maps that are bumped together by `increment(kind, lang)`:
   `counts[lang]` and `adv_counts[lang + compiler]`; `all()` is the sum of `counts`.

   The model: the record, one constructor of [inc] per `+= 1` in the source, an [action] = the increments
   made under one acquisition of the mutex, [event] = an action or a zeroing, and [interleave], which merges
   the program-order action lists of concurrently running requests under an explicit schedule.  Durations
   (`*_duration`) and the distributed-compilation counters (`dist_compiles`, `dist_errors`) are not modelled.

   This file models the code AFTER the fix "count a cache read error that falls back to compiling in
   cache_read_errors, not in cache_errors" (S15): [IReadError] bumps `cache_read_errors`. *)
From Coq Require Import List NArith Bool.
Import ListNotations.
Local Open Scope N_scope.

(* ---------- per-language counters ---------- *)

(* counter maps keyed by a small id (the language string / language+compiler string) *)
Definition cmap := list (N * N).

Fixpoint cm_get (k : N) (m : cmap) : N :=
  match m with
  | [] => 0
  | (k', v) :: r => if k =? k' then v else cm_get k r
  end.

Fixpoint cm_inc (k : N) (m : cmap) : cmap :=
  match m with
  | [] => [(k, 1)]
  | (k', v) :: r => if k =? k' then (k', v + 1) :: r else (k', v) :: cm_inc k r
  end.

Fixpoint cm_sum (m : cmap) : N :=
  match m with
  | [] => 0
  | (_, v) :: r => v + cm_sum r
  end.

(* the two keys `PerLanguageCount::increment(kind, lang)` derives: `kind.lang_kind(lang)` and
   `kind.lang_comp_kind(lang)` *)
Record lang := { l_lang : N; l_adv : N }.

Record plc := { counts : cmap; adv_counts : cmap }.

Definition plc_zero : plc := {| counts := []; adv_counts := [] |}.
Definition plc_inc (l : lang) (p : plc) : plc :=
  {| counts := cm_inc (l_lang l) (counts p); adv_counts := cm_inc (l_adv l) (adv_counts p) |}.
(* `PerLanguageCount::all` *)
Definition plc_all (p : plc) : N := cm_sum (counts p).
Definition plc_adv_all (p : plc) : N := cm_sum (adv_counts p).

(* ---------- the record ---------- *)

Record stats := {
  compile_requests : N;
  requests_unsupported_compiler : N;
  requests_not_compile : N;
  requests_not_cacheable : N;
  requests_executed : N;
  cache_errors : plc;
  cache_hits : plc;
  cache_misses : plc;
  cache_timeouts : N;
  cache_read_errors : N;
  non_cacheable_compilations : N;
  forced_recaches : N;
  cache_write_errors : N;
  cache_writes : N;
  compilations : N;
  compile_fails : N;
  not_cached : cmap               (* reason -> count *)
}.

Definition zero_stats : stats := {|
  compile_requests := 0; requests_unsupported_compiler := 0; requests_not_compile := 0;
  requests_not_cacheable := 0; requests_executed := 0;
  cache_errors := plc_zero; cache_hits := plc_zero; cache_misses := plc_zero;
  cache_timeouts := 0; cache_read_errors := 0; non_cacheable_compilations := 0; forced_recaches := 0;
  cache_write_errors := 0; cache_writes := 0; compilations := 0; compile_fails := 0; not_cached := [] |}.

(* one constructor per `+= 1` site *)
Inductive inc :=
| ICompileRequests
| IUnsupported
| INotCompile
| INotCacheable (why : N)        (* requests_not_cacheable and not_cached[why], same statement block *)
| IExecuted
| ICacheError (l : lang)
| IHit (l : lang)
| IMiss (l : lang)
| ITimeout
| IReadError
| INonCacheableComp
| IForcedRecache
| IWriteError
| IWrite
| ICompilation
| ICompileFail.

Definition apply_inc (i : inc) (s : stats) : stats :=
  let '(Build_stats cr un ncp nca ex ce ch cm ct cre ncc fr cwe cw co cf nc) := s in
  match i with
  | ICompileRequests  => Build_stats (cr + 1) un ncp nca ex ce ch cm ct cre ncc fr cwe cw co cf nc
  | IUnsupported      => Build_stats cr (un + 1) ncp nca ex ce ch cm ct cre ncc fr cwe cw co cf nc
  | INotCompile       => Build_stats cr un (ncp + 1) nca ex ce ch cm ct cre ncc fr cwe cw co cf nc
  | INotCacheable why => Build_stats cr un ncp (nca + 1) ex ce ch cm ct cre ncc fr cwe cw co cf (cm_inc why nc)
  | IExecuted         => Build_stats cr un ncp nca (ex + 1) ce ch cm ct cre ncc fr cwe cw co cf nc
  | ICacheError l     => Build_stats cr un ncp nca ex (plc_inc l ce) ch cm ct cre ncc fr cwe cw co cf nc
  | IHit l            => Build_stats cr un ncp nca ex ce (plc_inc l ch) cm ct cre ncc fr cwe cw co cf nc
  | IMiss l           => Build_stats cr un ncp nca ex ce ch (plc_inc l cm) ct cre ncc fr cwe cw co cf nc
  | ITimeout          => Build_stats cr un ncp nca ex ce ch cm (ct + 1) cre ncc fr cwe cw co cf nc
  | IReadError        => Build_stats cr un ncp nca ex ce ch cm ct (cre + 1) ncc fr cwe cw co cf nc
  | INonCacheableComp => Build_stats cr un ncp nca ex ce ch cm ct cre (ncc + 1) fr cwe cw co cf nc
  | IForcedRecache    => Build_stats cr un ncp nca ex ce ch cm ct cre ncc (fr + 1) cwe cw co cf nc
  | IWriteError       => Build_stats cr un ncp nca ex ce ch cm ct cre ncc fr (cwe + 1) cw co cf nc
  | IWrite            => Build_stats cr un ncp nca ex ce ch cm ct cre ncc fr cwe (cw + 1) co cf nc
  | ICompilation      => Build_stats cr un ncp nca ex ce ch cm ct cre ncc fr cwe cw (co + 1) cf nc
  | ICompileFail      => Build_stats cr un ncp nca ex ce ch cm ct cre ncc fr cwe cw co (cf + 1) nc
  end.

(* the increments made while holding the mutex once *)
Definition action := list inc.

Definition apply_action (a : action) (s : stats) : stats :=
  fold_left (fun s i => apply_inc i s) a s.

Inductive event :=
| EAct (a : action)
| EZero.                          (* `zero_stats`: `*stats = ServerStats::default()` *)

Definition apply_event (s : stats) (e : event) : stats :=
  match e with
  | EAct a => apply_action a s
  | EZero => zero_stats
  end.

Definition run_events (tr : list event) (s : stats) : stats := fold_left apply_event tr s.

(* ---------- the program of one request ---------- *)

(* `MissType` *)
Inductive miss_type := MNormal | MForcedNoCache | MForcedRecache | MTimedOut | MReadError.

(* the arm of the result handling in `start_compile_task` an executed request ends in *)
Inductive outcome :=
| OHit
| OMiss (mt : miss_type) (stored : bool)   (* CacheMiss; [stored]: the deferred put succeeded *)
| OCompileFailed                 (* Err(ProcessError) from the local compile *)
| ONotCached                     (* CompileResult::NotCached: forced no-cache, compiled *)
| ONotCacheable                  (* CompileResult::NotCacheable *)
| OError                         (* CompileResult::Error: the preprocessor failed *)
| OFatal.                        (* any other Err: "sccache: encountered fatal error" *)

(* what `check_compiler` makes of the request, and for an executed one how it ends *)
Inductive request_kind :=
| KUnsupported
| KNotCompile
| KCannotCache (why : N)
| KExecuted (l : lang) (oc : outcome).

Definition miss_incs (mt : miss_type) : list inc :=
  match mt with
  | MNormal | MForcedNoCache => []
  | MForcedRecache => [IForcedRecache]
  | MTimedOut => [ITimeout]
  | MReadError => [IReadError]
  end.

(* critical sections 3 and 4 *)
Definition outcome_actions (l : lang) (oc : outcome) : list action :=
  match oc with
  | OHit => [[IHit l]]
  | OMiss mt stored => [miss_incs mt ++ [ICompilation; IMiss l]; [if stored then IWrite else IWriteError]]
  | OCompileFailed => [[ICompileFail]]
  | ONotCached => [[ICompilation]]
  | ONotCacheable => [[ICompilation; INonCacheableComp]]
  | OError | OFatal => [[ICacheError l]]
  end.

(* the program-order list of critical sections of one request *)
Definition program (k : request_kind) : list action :=
  [ICompileRequests] ::
  match k with
  | KUnsupported => [[IUnsupported]]
  | KNotCompile => [[INotCompile]]
  | KCannotCache why => [[INotCacheable why]]
  | KExecuted l oc => [IExecuted] :: outcome_actions l oc
  end.

(* ---------- concurrency: interleaving under an explicit schedule ---------- *)

(* A thread is the program-order list of events of one request (or of one client issuing several
   requests / a ZeroStats one after the other).  [pick i ts] takes the next event of thread [i]. *)
Fixpoint pick {A} (i : nat) (ts : list (list A)) : option (A * list (list A)) :=
  match ts, i with
  | [], _ => None
  | [] :: r, O => None
  | (a :: t) :: r, O => Some (a, t :: r)
  | t :: r, S j => match pick j r with
                   | Some (a, r') => Some (a, t :: r')
                   | None => None
                   end
  end.

(* [interleave sched ts]: follow the schedule (an entry naming a finished or non-existent thread is a
   stutter); when the schedule is exhausted the remaining threads run to completion one after the other, so
   that EVERY schedule describes a complete execution and every complete execution is described by some
   schedule (Proofs/Stats.v: [interleave_complete], [merge_has_schedule]). *)
Fixpoint interleave {A} (sched : list nat) (ts : list (list A)) : list A :=
  match sched with
  | [] => concat ts
  | i :: r => match pick i ts with
              | Some (a, ts') => a :: interleave r ts'
              | None => interleave r ts
              end
  end.

(* ---------- what `--show-stats --stats-format=json` lets one observe: totals ---------- *)

Record totals := {
  t_requests : N; t_unsupported : N; t_not_compile : N; t_not_cacheable : N; t_executed : N;
  t_errors : N; t_errors_adv : N;
  t_hits : N; t_hits_adv : N;
  t_misses : N; t_misses_adv : N;
  t_timeouts : N; t_read_errors : N; t_non_cacheable_comp : N; t_forced_recaches : N;
  t_write_errors : N; t_writes : N; t_compilations : N; t_compile_fails : N;
  t_not_cached_sum : N
}.

Definition tot (s : stats) : totals := {|
  t_requests := compile_requests s; t_unsupported := requests_unsupported_compiler s;
  t_not_compile := requests_not_compile s; t_not_cacheable := requests_not_cacheable s;
  t_executed := requests_executed s;
  t_errors := plc_all (cache_errors s); t_errors_adv := plc_adv_all (cache_errors s);
  t_hits := plc_all (cache_hits s); t_hits_adv := plc_adv_all (cache_hits s);
  t_misses := plc_all (cache_misses s); t_misses_adv := plc_adv_all (cache_misses s);
  t_timeouts := cache_timeouts s; t_read_errors := cache_read_errors s;
  t_non_cacheable_comp := non_cacheable_compilations s; t_forced_recaches := forced_recaches s;
  t_write_errors := cache_write_errors s; t_writes := cache_writes s;
  t_compilations := compilations s; t_compile_fails := compile_fails s;
  t_not_cached_sum := cm_sum (not_cached s) |}.

(* The conservation laws of property C14, as one boolean over the totals (evaluated by the monitors on the
   REAL counters, proved of the model in Proofs/Stats.v). *)
Definition law_partition (t : totals) : bool :=
  t_requests t =? t_executed t + t_not_cacheable t + t_not_compile t + t_unsupported t.
(* every executed request is in exactly one of: hit, error, failed compile, compiled (= miss, or compiled
   without storing: forced no-cache / not cacheable) *)
Definition law_outcome (t : totals) : bool :=
  t_executed t =? t_hits t + t_errors t + t_compile_fails t + t_compilations t.
Definition law_compilations (t : totals) : bool :=
  (t_misses t + t_non_cacheable_comp t <=? t_compilations t).
Definition law_writes (t : totals) : bool :=
  t_writes t + t_write_errors t =? t_misses t.
Definition law_lang_sums (t : totals) : bool :=
  (t_errors t =? t_errors_adv t) && (t_hits t =? t_hits_adv t) && (t_misses t =? t_misses_adv t)
  && (t_not_cacheable t =? t_not_cached_sum t).
Definition law_miss_kinds (t : totals) : bool :=
  (t_forced_recaches t + t_timeouts t + t_read_errors t <=? t_misses t).

Definition laws (t : totals) : bool :=
  law_partition t && law_outcome t && law_compilations t && law_writes t && law_lang_sums t && law_miss_kinds t.
