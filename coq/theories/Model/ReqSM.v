(* ReqSM.v — executable model of the control flow of ONE compile request through the sccache server.

   Source (read at the pinned commit plus the three `fix:` commits named below):
     src/server.rs      `Service::call` -> `handle_compile` -> `compiler_info` / `check_compiler`
                        -> `start_compile_task` (result handling, every `ServerStats` increment)
     src/compiler/c.rs  `CCompilerHasher::generate_hash_key` (preprocessor-cache prelude, preprocessing,
                        writing the preprocessor-cache entry)
     src/compiler/compiler.rs  `CompilerHasher::get_cached_or_compile` (cache control, lookup with the 60 s
                        time-out, extraction, compile, the "do not store" exits, artifact creation, deferred put)
     src/cache/{cache,disk,readonly}.rs  what each storage call can answer

   One function

       request : faults -> req_class -> cache_control -> oracle -> cstate -> cstate * response * list action

   - [faults] assigns an outcome to EVERY storage interaction the request can make (preprocessor-cache get,
     the two possible preprocessor-cache puts, result get, result put).  [..None] means "the storage answers
     from its current contents"; every other value is a transient fault of that one interaction.
   - [oracle] is what the compiler itself would do: exit status / stderr of the preprocessing step, the hash
     key that preprocessing leads to, exit status / stdout / stderr / outputs of the compilation.
   - [cstate] is the persistent content of the cache: per result key an entry that is well-formed, unparsable
     (garbage / truncated on disk) or indexed-but-deleted; per preprocessor key likewise; and whether the
     cache is read-only.  [disk_op] and [restart] model damage done behind the server's back between requests
     and a server restart.
   - [response] is what the client observes (response class, exit status, stdout, stderr, the output files
     written) plus how often the preprocessor and the compiler were run.
   - the [list action] is the program-order list of critical sections on `ServerStats` (Model/Stats.v).

   The order of effects and every error path follow the source.  Modelled AFTER these repairs:
     fix: an unreadable or corrupt preprocessor cache entry no longer fails the compilation   (S5)
     fix: count a cache read error that falls back to compiling in cache_read_errors ...      (S15)
     fix: a compiler path that cannot be stat'ed is an unsupported compiler, not a server panic
   A PANIC inside `get_cached_or_compile` (a storage call or sccache's own code on the way to spawning a process
   panics: [PFPanic], [GPanic], [WPanic] on the preprocessor-cache puts, [o_pp_panics], [o_c_panics]) is caught by
   `catch_unwind` in start_compile_task: the request ends in the error class (cache_errors) and the client is told
   "encountered fatal error".  The deferred result put is awaited AFTER that region; modelled after
     fix: a panicking cache write is counted as a cache write error ...
   a [WPanic] there behaves like any failed write.
   Not modelled: distributed compilation (`dist_client` is `None`), the `extra_hash_files`, spawn failures
   of the compiler process, LRU eviction (Model/Lru.v), durations. *)
From Coq Require Import List NArith Bool.
From Sccache Require Import Base.Sx Model.Stats.
Import ListNotations.
Local Open Scope N_scope.

Definition bytes := list N.
Definition key := list N.

(* ---------- small finite maps ---------- *)

Fixpoint kv_get {V} (k : key) (m : list (key * V)) : option V :=
  match m with
  | [] => None
  | (k', v) :: r => if bytes_eqb k k' then Some v else kv_get k r
  end.

Fixpoint kv_set {V} (k : key) (v : V) (m : list (key * V)) : list (key * V) :=
  match m with
  | [] => [(k, v)]
  | (k', v') :: r => if bytes_eqb k k' then (k', v) :: r else (k', v') :: kv_set k v r
  end.

Fixpoint kv_del {V} (k : key) (m : list (key * V)) : list (key * V) :=
  match m with
  | [] => []
  | (k', v') :: r => if bytes_eqb k k' then kv_del k r else (k', v') :: kv_del k r
  end.

(* ---------- inputs ---------- *)

(* `CacheControl`: SCCACHE_RECACHE / SCCACHE_NO_CACHE in the request's environment *)
Inductive cache_control := CCDefault | CCForceRecache | CCForceNoCache.

(* what `compiler_info` + `Compiler::parse_arguments` make of the request *)
Inductive req_class :=
| QCompile                      (* CompilerArguments::Ok: executed *)
| QUnsupported                  (* compiler_info failed (unknown compiler, or its path cannot be stat'ed) *)
| QNotCompile                   (* CompilerArguments::NotCompilation *)
| QCannotCache (why : N).       (* CompilerArguments::CannotCache(why, _) *)

Definition outputs := list (bytes * bytes).     (* object key ("obj", "dwo", ...) -> file content *)

Record oracle := {
  o_lang : lang;
  o_pp_key : option key;        (* Some: preprocessor cache mode applies (config on, not "too hard", no
                                   SCCACHE_DIRECT=0, no dist); the key of `preprocessor_cache_entry_hash_key` *)
  o_manifest : N;               (* abstract digest of the current state of the include files *)
  o_upd : bool;                 (* `lookup_result_digest` sets `updated`: the entry is written back after the
                                   lookup.  (No lookup does since the C04 fix of the time-macro digests; the
                                   branch is still in generate_hash_key and is modelled.) *)
  o_pp_status : N;              (* exit status of the preprocessor run *)
  o_pp_stderr : bytes;
  o_manifest_ok : bool;         (* `process_preprocessed_file` keeps the mode on and found >= 1 include file *)
  o_key : key;                  (* `hash_key` of the preprocessed output and the other hashed components *)
  o_c_status : N;               (* exit status of the compilation proper *)
  o_c_stdout : bytes;
  o_c_stderr : bytes;
  o_c_outputs : outputs;        (* what a successful compilation writes *)
  o_c_writes : bool;            (* ... and whether it really does (exit 0 without the object file otherwise) *)
  o_cacheable : bool;           (* `Cacheable::Yes` from generate_compile_commands *)
  (* NOT properties of the compiler but of sccache's own code on the way to running it: an internal fault
     (an unwrap, a poisoned lock, ...) that makes the task PANIC before the process is spawned *)
  o_pp_panics : bool;
  o_c_panics : bool
}.

(* outcome of `Storage::get_preprocessor_cache_entry` + read_to_end + `PreprocessorCacheEntry::read` *)
Inductive ppget_fault :=
| PFNone                        (* answered from the cache contents *)
| PFAbsent                      (* Ok(None): deleted *)
| PFErr                         (* the storage call returns Err *)
| PFGarbage                     (* bytes with a wrong format byte: Error::UnknownFormat *)
| PFTruncated                   (* a proper prefix of an entry: bincode error *)
| PFEmpty                       (* zero bytes: decodes to an entry without results *)
| PFPanic.                      (* the storage call panics (a bug in the backend) *)

(* outcome of a `Storage::put` / `put_preprocessor_cache_entry` *)
Inductive put_fault :=
| WNone                         (* performed (fails all the same if the cache is read-only) *)
| WErr                          (* Err (I/O error, directory unwritable or removed) *)
| WTooLarge                     (* Err(LruError::FileTooLarge): tiny size limit *)
| WReadOnly                     (* Err: `ReadOnlyStorage` / `CacheMode::ReadOnly` refusal *)
| WPanic.                       (* the storage call panics *)

(* outcome of `Storage::get` (+ the extraction that follows a hit) *)
Inductive get_fault :=
| GNone                         (* answered from the cache contents *)
| GMiss                         (* Ok(Cache::Miss): deleted *)
| GErr                          (* Err *)
| GTimeout                      (* no answer within 60 s *)
| GGarbage                      (* entry bytes are not a zip archive: `CacheRead::from` fails, i.e. Err *)
| GTruncated                    (* entry cut short: likewise *)
| GBadObj                       (* Hit, but an object member does not decompress: DecompressionFailure *)
| GNoObj                        (* Hit, but a required object member is missing: DecompressionFailure *)
| GPanic.                       (* the storage call panics *)

Record faults := {
  f_ppget : ppget_fault;
  f_ppupd : put_fault;          (* the put that rewrites the entry after a lookup with `updated` *)
  f_ppput : put_fault;          (* the put that records the entry after preprocessing *)
  f_get : get_fault;
  f_put : put_fault;
  f_outdir_ok : bool            (* NOT a storage fault: the directory of the output file exists and is
                                   writable (extraction creates a temp file there and renames it) *)
}.

Definition no_faults : faults :=
  {| f_ppget := PFNone; f_ppupd := WNone; f_ppput := WNone; f_get := GNone; f_put := WNone; f_outdir_ok := true |}.

(* ---------- cache contents ---------- *)

Inductive rentry :=
| RGood (so se : bytes) (outs : outputs)   (* a well-formed entry: stdout, stderr, objects *)
| RUnparse                                 (* a file that is not a (complete) zip archive *)
| RBadObj                                  (* archive intact, bytes changed IN PLACE inside an object member's data:
                                              the member no longer decodes or fails its CRC-32 (that this is always
                                              detected is C08's theorem) -> DecompressionFailure at extraction *)
| RBadOut                                  (* likewise inside the stdout / stderr member: detected when the hit
                                              reads them, before anything is extracted *)
| RGone.                                   (* indexed by the LRU, file deleted behind its back *)

Inductive ppentry :=
| PGood (k : key) (m : N)                  (* result key recorded for include-file state m *)
| PUnparse                                 (* garbage / truncated *)
| PEmpty.                                  (* empty file *)

Record cstate := {
  cs_res : list (key * rentry);
  cs_pp : list (key * ppentry);
  cs_ro : bool                             (* DiskCache in CacheMode::ReadOnly (wrapped in ReadOnlyStorage) *)
}.

Definition empty_cache : cstate := {| cs_res := []; cs_pp := []; cs_ro := false |}.

(* ---------- outputs ---------- *)

Inductive client_result :=
| CUnsupported                   (* CompileResponse::UnsupportedCompiler: the client runs the compiler itself *)
| CUnhandled                     (* CompileResponse::UnhandledCompile: likewise *)
| CFinished (status : N) (stdout stderr : bytes)     (* CompileFinished *)
| CFatal.                        (* CompileFinished with retcode -2, "sccache: encountered fatal error" *)

Record response := {
  r_client : client_result;
  r_outputs : outputs;           (* files this request wrote at the output location *)
  r_pp_runs : N;
  r_cc_runs : N;
  r_outcome : option outcome     (* None: not executed by the server *)
}.

(* ---------- generate_hash_key ---------- *)

(* a put on the preprocessor cache / the result cache succeeds iff no fault and not read-only *)
Definition put_ok (w : put_fault) (st : cstate) : bool :=
  match w with WNone => negb (cs_ro st) | _ => false end.

(* `read_preprocessor_cache_entry`: the decoded entry's (result key, include state), if any.  Every failure
   to fetch, read or parse is "no entry" (the S5 fix). *)
Definition pp_read (f : faults) (pk : key) (st : cstate) : option (key * N) :=
  match f_ppget f with
  | PFNone => match kv_get pk (cs_pp st) with
              | Some (PGood k m) => Some (k, m)
              | Some PUnparse => None
              | Some PEmpty => None
              | None => None
              end
  | PFAbsent | PFErr | PFGarbage | PFTruncated | PFEmpty | PFPanic => None
  end.

Inductive hk_result :=
| HKError                        (* Err(ProcessError) of the preprocessor -> CompileResult::Error *)
| HKKey (k : key)
| HKFatal.                       (* the task panicked: caught by `catch_unwind` in start_compile_task, turned into an
                                    error, counted under cache_errors, answered with "encountered fatal error" *)

(* the direct-mode prelude: only with CacheControl::Default.  [inl]: new state and the key found, if any;
   [inr]: a storage call panicked *)
Definition hk_prelude (f : faults) (cc : cache_control) (o : oracle) (st : cstate) : option (cstate * option key) :=
  match o_pp_key o, cc with
  | Some pk, CCDefault =>
      match f_ppget f with
      | PFPanic => None
      | _ =>
        match pp_read f pk st with
        | Some (k, m) =>
            if m =? o_manifest o then
              (* lookup_result_digest hit *)
              if o_upd o then
                (* the entry is written back; if that fails the hit is not used *)
                match f_ppupd f with
                | WPanic => None
                | _ =>
                  if put_ok (f_ppupd f) st
                  then Some ({| cs_res := cs_res st; cs_pp := kv_set pk (PGood k m) (cs_pp st); cs_ro := cs_ro st |}, Some k)
                  else Some (st, None)
                end
              else Some (st, Some k)
            else Some (st, None)
        | None => Some (st, None)
        end
      end
  | _, _ => Some (st, None)
  end.

(* running the preprocessor and recording the preprocessor-cache entry *)
Definition hk_preprocess (f : faults) (o : oracle) (st1 : cstate) : cstate * hk_result * N :=
  if o_pp_panics o then (st1, HKFatal, 0)
  else if negb (o_pp_status o =? 0) then (st1, HKError, 1)
  else
    match o_pp_key o with
    | Some pk =>
        if o_manifest_ok o then
          match f_ppput f with
          | WPanic => (st1, HKFatal, 1)
          | _ =>
            if put_ok (f_ppput f) st1
            then ({| cs_res := cs_res st1; cs_pp := kv_set pk (PGood (o_key o) (o_manifest o)) (cs_pp st1);
                     cs_ro := cs_ro st1 |}, HKKey (o_key o), 1)
            else (st1, HKKey (o_key o), 1)
          end
        else (st1, HKKey (o_key o), 1)
    | None => (st1, HKKey (o_key o), 1)
    end.

(* returns the new state, the result, and how often the preprocessor ran *)
Definition generate_hash_key (f : faults) (cc : cache_control) (o : oracle) (st : cstate)
  : cstate * hk_result * N :=
  match hk_prelude f cc o st with
  | None => (st, HKFatal, 0)
  | Some (st1, Some k) => (st1, HKKey k, 0)
  | Some (st1, None) => hk_preprocess f o st1
  end.

(* ---------- the lookup of get_cached_or_compile ---------- *)

Inductive lookup :=
| LHit (so se : bytes) (outs : outputs)
| LMiss (mt : miss_type)
| LFatal.                        (* a non-DecompressionFailure extraction error is propagated, or the lookup panicked *)

Definition cache_lookup (f : faults) (cc : cache_control) (k : key) (st : cstate) : lookup :=
  match cc with
  | CCForceNoCache => LMiss MForcedNoCache
  | CCForceRecache => LMiss MForcedRecache
  | CCDefault =>
      match f_get f with
      | GPanic => LFatal
      | GTimeout => LMiss MTimedOut
      | GErr | GGarbage | GTruncated => LMiss MReadError
      | GMiss => LMiss MNormal
      | GBadObj | GNoObj =>
          (* extract_objects creates the temp file in the output directory BEFORE reading the member *)
          if f_outdir_ok f then LMiss MReadError else LFatal
      | GNone =>
          match kv_get k (cs_res st) with
          | None => LMiss MNormal
          | Some (RGood so se outs) => if f_outdir_ok f then LHit so se outs else LFatal
          | Some RUnparse | Some RGone | Some RBadOut => LMiss MReadError
          | Some RBadObj => if f_outdir_ok f then LMiss MReadError else LFatal
          end
      end
  end.

(* ---------- the request ---------- *)

Definition mk_response c outs pp ccr oc : response :=
  {| r_client := c; r_outputs := outs; r_pp_runs := pp; r_cc_runs := ccr; r_outcome := Some oc |}.
Definition not_executed c : response :=
  {| r_client := c; r_outputs := []; r_pp_runs := 0; r_cc_runs := 0; r_outcome := None |}.

(* the miss path of `get_cached_or_compile`: run the compiler, then the "do not store" exits, artifact
   creation and the deferred put *)
Definition compile_and_store (f : faults) (o : oracle) (st1 : cstate) (k : key) (pp : N) (mt : miss_type)
  : cstate * response :=
  (* dist_or_local_compile: run the compiler *)
  if o_c_panics o then (st1, mk_response CFatal [] pp 0 OFatal)
  else if negb (o_c_status o =? 0) then
    (st1, mk_response (CFinished (o_c_status o) (o_c_stdout o) (o_c_stderr o)) [] pp 1 OCompileFailed)
  else
    let written := if o_c_writes o then o_c_outputs o else [] in
    let ok := CFinished 0 (o_c_stdout o) (o_c_stderr o) in
    match mt with
    | MForcedNoCache => (st1, mk_response ok written pp 1 ONotCached)
    | _ =>
        if negb (o_cacheable o) then (st1, mk_response ok written pp 1 ONotCacheable)
        else if negb (o_c_writes o) then
          (* CacheWrite::from_objects cannot open the object file: "failed to zip up compiler outputs" *)
          (st1, mk_response CFatal written pp 1 OFatal)
        else if put_ok (f_put f) st1 then
          ({| cs_res := kv_set k (RGood (o_c_stdout o) (o_c_stderr o) (o_c_outputs o)) (cs_res st1);
              cs_pp := cs_pp st1; cs_ro := cs_ro st1 |},
           mk_response ok written pp 1 (OMiss mt true))
        else (st1, mk_response ok written pp 1 (OMiss mt false))
    end.

(* `get_cached_or_compile` + the result handling of `start_compile_task`, for an executed request *)
Definition execute (f : faults) (cc : cache_control) (o : oracle) (st : cstate) : cstate * response :=
  match generate_hash_key f cc o st with
  | (st1, HKError, pp) =>
      (* the preprocessor's status and stderr, its stdout dropped *)
      (st1, mk_response (CFinished (o_pp_status o) [] (o_pp_stderr o)) [] pp 0 OError)
  | (st1, HKFatal, pp) => (st1, mk_response CFatal [] pp 0 OFatal)
  | (st1, HKKey k, pp) =>
      match cache_lookup f cc k st1 with
      | LFatal => (st1, mk_response CFatal [] pp 0 OFatal)
      | LHit so se outs => (st1, mk_response (CFinished 0 so se) outs pp 0 OHit)
      | LMiss mt => compile_and_store f o st1 k pp mt
      end
  end.

(* the kind of the request as the statistics see it *)
Definition kind_of (cl : req_class) (l : lang) (r : response) : request_kind :=
  match cl with
  | QUnsupported => KUnsupported
  | QNotCompile => KNotCompile
  | QCannotCache why => KCannotCache why
  | QCompile => KExecuted l (match r_outcome r with Some oc => oc | None => OFatal end)
  end.

Definition request (f : faults) (cl : req_class) (cc : cache_control) (o : oracle) (st : cstate)
  : cstate * response * list action :=
  let '(st', r) :=
    match cl with
    | QUnsupported => (st, not_executed CUnsupported)
    | QNotCompile | QCannotCache _ => (st, not_executed CUnhandled)
    | QCompile => execute f cc o st
    end in
  (st', r, program (kind_of cl (o_lang o) r)).

(* ---------- what happens to the cache between requests ---------- *)

Inductive damage :=
| DGarbage | DTruncate | DEmpty | DDelete
| DFlipObj                       (* bytes changed in place inside the data of an object member *)
| DFlipOut.                      (* ... inside the data of the stdout / stderr member *)

(* per-file damage to the RESULT entry under key k (only an existing file can be damaged) *)
Definition damage_res (d : damage) (k : key) (st : cstate) : cstate :=
  match kv_get k (cs_res st) with
  | Some RGone | None => st
  | Some e =>
      let e' := match d, e with
                | DDelete, _ => RGone
                | (DGarbage | DTruncate | DEmpty), _ => RUnparse
                | (DFlipObj | DFlipOut), RUnparse => RUnparse     (* no member left to damage *)
                | DFlipOut, _ => RBadOut
                | DFlipObj, RBadOut => RBadOut                    (* stdout/stderr are read first *)
                | DFlipObj, _ => RBadObj
                end in
      {| cs_res := kv_set k e' (cs_res st); cs_pp := cs_pp st; cs_ro := cs_ro st |}
  end.

(* per-file damage to the PREPROCESSOR-cache entry under key k *)
Definition damage_pp (d : damage) (k : key) (st : cstate) : cstate :=
  match kv_get k (cs_pp st) with
  | Some _ =>
      {| cs_res := cs_res st;
         cs_pp := match d with
                  | DDelete => kv_del k (cs_pp st)
                  | DEmpty => kv_set k PEmpty (cs_pp st)
                  | DGarbage | DTruncate => kv_set k PUnparse (cs_pp st)
                  | DFlipObj | DFlipOut => cs_pp st               (* not applied to preprocessor entries *)
                  end;
         cs_ro := cs_ro st |}
  | None => st
  end.

(* a server restart re-reads the directory: deleted files are forgotten; the mode may change *)
Definition restart (ro : bool) (st : cstate) : cstate :=
  {| cs_res := filter (fun e => match snd e with RGone => false | _ => true end) (cs_res st);
     cs_pp := cs_pp st; cs_ro := ro |}.

(* ---------- histories ---------- *)

Inductive step :=
| SReq (tu : N) (f : faults) (cl : req_class) (cc : cache_control)
| SDamageRes (d : damage) (tu : N)
| SDamagePp (d : damage) (tu : N)
| SRestart (ro : bool).

(* a world: which oracle answers for which translation unit *)
Definition world := N -> oracle.

Definition run_step (w : world) (st : cstate) (s : step) : cstate * option (response * list action) :=
  match s with
  | SReq t f cl cc => let '(st', r, a) := request f cl cc (w t) st in (st', Some (r, a))
  | SDamageRes d t => (damage_res d (o_key (w t)) st, None)
  | SDamagePp d t =>
      (match o_pp_key (w t) with Some pk => damage_pp d pk st | None => st end, None)
  | SRestart ro => (restart ro st, None)
  end.

Fixpoint run_steps (w : world) (st : cstate) (ss : list step) : cstate * list (response * list action) :=
  match ss with
  | [] => (st, [])
  | s :: r =>
      let '(st1, o1) := run_step w st s in
      let '(st2, os) := run_steps w st1 r in
      (st2, match o1 with Some x => x :: os | None => os end)
  end.

(* ---------- the specification side: what running the compiler directly gives ---------- *)

Definition direct (o : oracle) : N * bytes * bytes * outputs :=
  if negb (o_pp_status o =? 0) then (o_pp_status o, [], o_pp_stderr o, [])
  else if negb (o_c_status o =? 0) then (o_c_status o, o_c_stdout o, o_c_stderr o, [])
  else (0, o_c_stdout o, o_c_stderr o, if o_c_writes o then o_c_outputs o else []).
