(* HitModel.v — executable model of "a repeated cacheable request is served from
   the cache, also after restart" (property C03).

   What is modelled, in the order the code performs its effects:

   - which components of a compile request enter the cache key
     (src/compiler/c.rs `hash_key`, src/compiler/rust.rs `generate_hash_key`):
     [fingerprint_of] maps a request to the record of hashed components.
       C/C++ : compiler digest, the common+arch arguments in command-line order,
               the allow-listed environment variables (`CACHED_ENV_VARS`) in
               sorted order (generate_hash_key sorts the environment before it
               calls hash_key, which hashes in the order given — `fix:` commit of
               this property; before it the order of the client's environment
               entered the key), the preprocessor output digest.
               NOT hashed: `-o` (EXCEPT for objects instrumented for coverage /
               profiling, whose absolute output path is an extra hashed argument,
               and with -gsplit-dwarf, where the .dwo name derived from it is),
               dependency / preprocessor-only arguments (they act through the
               preprocessor output), every other variable, cwd.
       rustc : compiler (shlib digests + version), the arguments other than
               `--extern`, `-L`, `--out-dir` with the `--cfg` pairs sorted and
               moved to the end, source digests, digests of the `--extern`
               files in the order of the sorted paths (`externs.sort()`), the
               env-deps sorted, the CARGO_-prefixed variables sorted (minus
               CARGO_MAKEFLAGS and the CARGO_REGISTRIES_ ones), cwd.
     The hash itself is a Section variable [key_of : fingerprint -> key].
   - the request control flow of `get_cached_or_compile`
     (src/compiler/compiler.rs): preprocessor / dep-info phase (skipped on a
     preprocessor-cache hit), `storage.get`, on a hit `extract_objects` for
     EVERY output of the request, on a miss the compile step, then
     `CacheWrite::from_objects` and `storage.put` when the compile succeeded and
     is cacheable;
   - the disk store (src/cache/disk.rs): `get` = LruDiskCache::get of
     `make_key_path key`, `put` = prepare_add / write / commit, a server restart =
     LruDiskCache::new on the same directory with the same capacity
     ([Lru.reopen]).  The store is an [Lru.st]; the bytes of the entry files are
     carried beside it as an abstract value ([w_content]).

   Not modelled: the compilers (the oracle [compile] stands for them: what the
   compile step writes, whether it succeeds, how large the packed entry is); that
   equal sources give equal preprocessor output; the nesting of the
   preprocessor-cache directory inside the main cache root (the preprocessor
   cache is a plain map here and is never evicted); `extract_objects` atomicity
   (C10); distributed compilation.  *)
From Coq Require Import List NArith Bool.
From Coq Require String.
Import String.StringSyntax.
From Sccache Require Import Base.Sx.
From Sccache Require Import Model.Lru.
Import ListNotations.
Local Open Scope N_scope.
Local Open Scope string_scope.

Definition bytes := list N.

(* ---------- requests ---------- *)

Inductive lang := LangC | LangRust.

Inductive arg :=
| AHashed (a : bytes)                 (* enters the key in command-line order *)
| AProfile (a : bytes)                (* hashed like AHashed, and instruments the object for coverage / profiling
                                         (--coverage, -ftest-coverage, -fprofile-generate): `profile_generate` *)
| ASplitDwarf (a : bytes)             (* hashed like AHashed; -gsplit-dwarf: the name of the .dwo file (derived from -o)
                                         is recorded in the object, parse_arguments adds -D_gsplit_dwarf_path=<dwo> *)
| ACfg (v : bytes)                    (* rustc --cfg v *)
| AExtern (path : bytes) (digest : N) (* rustc --extern name=path, with the digest of that file *)
| ALinkPath (p : bytes)               (* rustc -L p *)
| AOutput (p : bytes)                 (* -o p / --out-dir p *)
| AUnhashed (a : bytes).              (* -c, -MD -MF f, -D.. / -I.. (act through the preprocessor output), --color .. *)

Record output := { o_role : bytes; o_path : bytes; o_optional : bool }.

Record request := {
  rq_tag : N;                         (* client-side identity of this invocation; not part of anything hashed *)
  rq_lang : lang;
  rq_compiler : N;                    (* executable digest (+ plusplus) / shlib digests + version *)
  rq_args : list arg;
  rq_env : list (bytes * bytes);      (* the client's whole environment, in order *)
  rq_env_deps : list (bytes * bytes); (* rustc: variables named in the dep-info output *)
  rq_cwd : bytes;
  rq_inputs : list N;                 (* C: [digest of the preprocessor output]; rustc: digests of the source files *)
  rq_outputs : list output;           (* what `compilation.outputs()` yields: role, path under cwd, optional *)
  rq_ppkey : option bytes             (* Some id = preprocessor-cache mode applies; id stands for the
                                         preprocessor-cache key (no header contents, no -o) *)
}.

(* ---------- fingerprint: the hashed components ---------- *)

Record fingerprint := {
  fp_lang : lang;
  fp_compiler : N;
  fp_args : list bytes;
  fp_env : list (bytes * bytes);
  fp_cwd : option bytes;
  fp_inputs : list N
}.

(* src/compiler/c.rs CACHED_ENV_VARS (lib/props/c03.py `translate` re-reads the list from the source on every
   run and fails the obligation translate:CACHED_ENV_VARS when it differs) *)
Definition c_env_allow : list bytes :=
  [ bs "SCCACHE_C_CUSTOM_CACHE_BUSTER"; bs "MACOSX_DEPLOYMENT_TARGET"; bs "IPHONEOS_DEPLOYMENT_TARGET";
    bs "TVOS_DEPLOYMENT_TARGET"; bs "WATCHOS_DEPLOYMENT_TARGET"; bs "SDKROOT"; bs "CCC_OVERRIDE_OPTIONS" ].

Definition bmem (x : bytes) (l : list bytes) : bool := existsb (bytes_eqb x) l.

Definition c_env_hashed (v : bytes) : bool := bmem v c_env_allow.

(* rust.rs: starts_with("CARGO_") && != CARGO_MAKEFLAGS && !starts_with("CARGO_REGISTRIES_") *)
Definition rust_env_hashed (v : bytes) : bool :=
  starts_with (bs "CARGO_") v && negb (bytes_eqb v (bs "CARGO_MAKEFLAGS"))
  && negb (starts_with (bs "CARGO_REGISTRIES_") v).

(* total order on byte strings and on pairs of them; insertion sort *)
Definition bytes_leb (a b : bytes) : bool := negb (bytes_ltb b a).

Fixpoint ins_sorted {A} (le : A -> A -> bool) (x : A) (l : list A) : list A :=
  match l with
  | [] => [x]
  | y :: r => if le x y then x :: y :: r else y :: ins_sorted le x r
  end.

Definition isort {A} (le : A -> A -> bool) (l : list A) : list A := fold_right (ins_sorted le) [] l.

Definition pair_leb (a b : bytes * bytes) : bool :=
  if bytes_ltb (fst a) (fst b) then true
  else if bytes_ltb (fst b) (fst a) then false
  else bytes_leb (snd a) (snd b).

Definition ext_leb (a b : bytes * N) : bool :=
  if bytes_ltb (fst a) (fst b) then true
  else if bytes_ltb (fst b) (fst a) then false
  else (snd a <=? snd b).

Fixpoint hashed_args (l : list arg) : list bytes :=
  match l with
  | [] => []
  | AHashed a :: r => a :: hashed_args r
  | AProfile a :: r => a :: hashed_args r
  | ASplitDwarf a :: r => a :: hashed_args r
  | _ :: r => hashed_args r
  end.

Fixpoint cfg_args (l : list arg) : list bytes :=
  match l with
  | [] => []
  | ACfg v :: r => v :: cfg_args r
  | _ :: r => cfg_args r
  end.

Fixpoint extern_args (l : list arg) : list (bytes * N) :=
  match l with
  | [] => []
  | AExtern p d :: r => (p, d) :: extern_args r
  | _ :: r => extern_args r
  end.

Definition cfg_flag : bytes := bs "--cfg".

Definition has_profile (l : list arg) : bool :=
  existsb (fun a => match a with AProfile _ => true | _ => false end) l.

Definition has_split (l : list arg) : bool :=
  existsb (fun a => match a with ASplitDwarf _ => true | _ => false end) l.

Definition obj_role : bytes := bs "obj".
Definition dwo_role : bytes := bs "dwo".

(* gcc.rs parse_arguments: `-D_gsplit_dwarf_path=<output with extension dwo>` is pushed to the common (hashed)
   arguments when -gsplit-dwarf is given; the same path is the "dwo" output of the request *)
Definition split_out (r : request) : list bytes :=
  if has_split (rq_args r) then
    match find (fun o => bytes_eqb (o_role o) dwo_role) (rq_outputs r) with
    | Some o => [bs "-D_gsplit_dwarf_path=" ++ o_path o]
    | None => []
    end
  else [].

(* c.rs generate_hash_key, `profile_output_path`: an object instrumented for coverage / profiling embeds the
   location of its .gcda/.gcno files, which the compiler derives from the output path; for such a request
   cwd.join(outputs["obj"].path) is appended to the hashed arguments (relative output paths are modelled) *)
Definition profile_out (r : request) : list bytes :=
  if has_profile (rq_args r) then
    match find (fun o => bytes_eqb (o_role o) obj_role) (rq_outputs r) with
    | Some o => [rq_cwd r ++ [47] ++ o_path o]
    | None => []
    end
  else [].

Definition fingerprint_of (r : request) : fingerprint :=
  match rq_lang r with
  | LangC =>
      {| fp_lang := LangC;
         fp_compiler := rq_compiler r;
         fp_args := hashed_args (rq_args r) ++ split_out r ++ profile_out r;
         fp_env := isort pair_leb (filter (fun e => c_env_hashed (fst e)) (rq_env r));
         fp_cwd := None;
         fp_inputs := rq_inputs r |}
  | LangRust =>
      {| fp_lang := LangRust;
         fp_compiler := rq_compiler r;
         fp_args := hashed_args (rq_args r)
                    ++ flat_map (fun v => [cfg_flag; v]) (isort bytes_leb (cfg_args (rq_args r)));
         fp_env := isort pair_leb (rq_env_deps r)
                   ++ isort pair_leb (filter (fun e => rust_env_hashed (fst e)) (rq_env r));
         fp_cwd := Some (rq_cwd r);
         fp_inputs := rq_inputs r ++ map snd (isort ext_leb (extern_args (rq_args r))) |}
  end.

(* rustc env-deps.  The crate names the variables it reads at compile time (env!, option_env!): [reads].  sccache
   learns their values from an extra `rustc --emit dep-info` run whose environment is EXACTLY the client's
   (Command::env_clear().envs(client)): the environment of the server process — which differs from one server start to
   the next, and is that of an arbitrary client after an on-demand start — is not visible to it.  "Not set" and "set
   but empty" are different observations. *)
Fixpoint env_lookup (v : bytes) (env : list (bytes * bytes)) : option bytes :=
  match env with
  | [] => None
  | (k, x) :: r => if bytes_eqb v k then Some x else env_lookup v r
  end.

Definition env_dep_value (o : option bytes) : bytes :=
  match o with Some x => 1 :: x | None => [0] end.

(* the environment the key-computation run of rustc is spawned with *)
Definition spawn_env (server_env client_env : list (bytes * bytes)) : list (bytes * bytes) := client_env.

Definition observed_env_deps (server_env client_env : list (bytes * bytes)) (reads : list bytes)
  : list (bytes * bytes) :=
  map (fun v => (v, env_dep_value (env_lookup v (spawn_env server_env client_env)))) reads.

(* the request as the server (started from [server_env]) sees it, for a crate reading [reads] *)
Definition request_in (server_env : list (bytes * bytes)) (reads : list bytes) (r : request) : request :=
  {| rq_tag := rq_tag r; rq_lang := rq_lang r; rq_compiler := rq_compiler r; rq_args := rq_args r;
     rq_env := rq_env r; rq_env_deps := observed_env_deps server_env (rq_env r) reads; rq_cwd := rq_cwd r;
     rq_inputs := rq_inputs r; rq_outputs := rq_outputs r; rq_ppkey := rq_ppkey r |}.

(* src/cache/disk.rs make_key_path: key[0..1] / key[1..2] / key *)
Definition key_path (k : key) : key :=
  firstn 1 k ++ [47] ++ firstn 1 (skipn 1 k) ++ [47] ++ k.

(* ---------- the world ---------- *)

(* what the compile step does for a request (the n-th compile overall) *)
Record cresult := {
  cr_pre_ok : bool;                   (* the preprocessor / dep-info run succeeds *)
  cr_ok : bool;                       (* the compile step exits 0 *)
  cr_cacheable : bool;                (* Cacheable::Yes *)
  cr_outs : list (bytes * N);         (* role -> content written by the compile step *)
  cr_size : N                         (* length of the packed cache entry *)
}.

Definition entry := list (bytes * N).  (* role -> content, as recorded by from_objects *)

Record world := {
  w_store : Lru.st;                   (* the disk cache *)
  w_content : list (key * entry);     (* bytes of the entry files, by path (ghost: kept when a file is deleted) *)
  w_ws : list (key * N);              (* the client's files: path -> content *)
  w_pp : list (key * key);            (* preprocessor cache: pp key -> result key *)
  w_compiles : N;                     (* how often the compile step ran *)
  w_pre_runs : N                      (* how often the preprocessor / dep-info step ran *)
}.

Definition empty_world (c : N) : world :=
  {| w_store := Lru.empty c; w_content := []; w_ws := []; w_pp := []; w_compiles := 0; w_pre_runs := 0 |}.

Inductive kind :=
| KHit                                 (* CompileResult::CacheHit *)
| KMiss (read_error : bool)            (* CompileResult::CacheMiss (MissType::Normal / CacheReadError) *)
| KCompileFailed
| KNotCacheable
| KError                               (* preprocessor failed: CompileResult::Error *)
| KUnsupported                         (* "Compiler not supported": the request is refused *)
| KFatal.                              (* Err(..): "sccache: encountered fatal error" *)

Record outcome := {
  oc_kind : kind;
  oc_compiled : bool;                 (* the compile step ran *)
  oc_pre_ran : bool;                  (* the preprocessor / dep-info step ran *)
  oc_stored : bool                    (* storage.put succeeded *)
}.

(* extract_objects: every output of the request, in order *)
Fixpoint restore (e : entry) (outs : list output) (ws : list (key * N)) : bool * list (key * N) :=
  match outs with
  | [] => (true, ws)
  | o :: r =>
      match alookup (o_role o) e with
      | Some c => restore e r (ains (o_path o) c ws)
      | None => if o_optional o then restore e r ws else (false, ws)
      end
  end.

(* Where extract_objects stages an output before the atomic rename: a temp file created IN THE DIRECTORY OF THE
   OUTPUT (NamedTempFile::new_in(path.parent())), never in the server's own temp directory.  [dirname] is the path
   up to the last '/'. *)
Fixpoint dirname_aux (l acc cur : list N) : list N :=
  match l with
  | [] => acc
  | c :: r => if c =? 47 then dirname_aux r (acc ++ cur ++ [47]) [] else dirname_aux r acc (cur ++ [c])
  end.
Definition dirname (p : bytes) : bytes := dirname_aux p [] [].

Definition stage_dir (o : output) : bytes := dirname (o_path o).

(* rename(2) fails with EXDEV when source and destination directories are on different mounts.  [mnt] assigns a
   mount to every directory; the restore that takes the mounts into account: *)
Fixpoint restore_mounted (mnt : bytes -> N) (e : entry) (outs : list output) (ws : list (key * N))
  : bool * list (key * N) :=
  match outs with
  | [] => (true, ws)
  | o :: r =>
      match alookup (o_role o) e with
      | Some c => if mnt (stage_dir o) =? mnt (dirname (o_path o))
                  then restore_mounted mnt e r (ains (o_path o) c ws)
                  else (false, ws)                       (* EXDEV: "sccache: encountered fatal error" *)
      | None => if o_optional o then restore_mounted mnt e r ws else (false, ws)
      end
  end.

(* CacheWrite::from_objects *)
Fixpoint collect (ws : list (key * N)) (outs : list output) : option entry :=
  match outs with
  | [] => Some []
  | o :: r =>
      match alookup (o_path o) ws with
      | Some c => match collect ws r with Some e => Some ((o_role o, c) :: e) | None => None end
      | None => if o_optional o then collect ws r else None
      end
  end.

(* the compile step writes its outputs to the paths of this request *)
Fixpoint write_outs (res : list (bytes * N)) (outs : list output) (ws : list (key * N)) : list (key * N) :=
  match outs with
  | [] => ws
  | o :: r =>
      match alookup (o_role o) res with
      | Some c => write_outs res r (ains (o_path o) c ws)
      | None => write_outs res r ws
      end
  end.

Fixpoint remove_outs (outs : list output) (ws : list (key * N)) : list (key * N) :=
  match outs with
  | [] => ws
  | o :: r => remove_outs r (aremove (o_path o) ws)
  end.

(* DiskCache::put *)
Definition put (s : Lru.st) (k : key) (sz : N) : Lru.st * bool :=
  let h := next_h s in
  let '(s1, r1) := prepare_add s k sz in
  match r1 with
  | ROk =>
      let '(s2, _) := write_tmp s1 h sz in
      let '(s3, r3, _) := commit s2 h in
      (s3, match r3 with ROk => true | _ => false end)
  | _ => (s1, false)
  end.

(* total size of the entry files on disk *)
Fixpoint files_size (fs : list (key * (N * N))) : N :=
  match fs with
  | [] => 0
  | (_, (sz, _)) :: r => sz + files_size r
  end.

Definition no_temp_names (fs : list (key * (N * N))) : bool :=
  forallb (fun e => negb (is_temp (fst e))) fs.

Section Model.

Variable key_of : fingerprint -> key.
Variable compile : request -> N -> cresult.

Definition req_path (r : request) : key := key_path (key_of (fingerprint_of r)).

(* is the preprocessor run needed?  (c.rs generate_hash_key: the preprocessor-cache entry
   must exist and its recorded include digests must match, i.e. record the same result key) *)
Definition pp_hit (w : world) (r : request) : bool :=
  match rq_ppkey r with
  | None => false
  | Some pk => match alookup pk (w_pp w) with
               | Some k => bytes_eqb k (req_path r)
               | None => false
               end
  end.

Definition pp_record (w : world) (r : request) : list (key * key) :=
  match rq_ppkey r with
  | None => w_pp w
  | Some pk => ains pk (req_path r) (w_pp w)
  end.

Definition do_request (w : world) (r : request) : world * outcome :=
  let k := req_path r in
  let cr := compile r (w_compiles w) in
  let hitpp := pp_hit w r in
  let pre_runs := if hitpp then w_pre_runs w else w_pre_runs w + 1 in
  if negb hitpp && negb (cr_pre_ok cr) then
    (* preprocessor failed; the C front end removes the outputs of the request *)
    ({| w_store := w_store w; w_content := w_content w;
        w_ws := match rq_lang r with LangC => remove_outs (rq_outputs r) (w_ws w) | LangRust => w_ws w end;
        w_pp := w_pp w; w_compiles := w_compiles w; w_pre_runs := pre_runs |},
     {| oc_kind := KError; oc_compiled := false; oc_pre_ran := true; oc_stored := false |})
  else
    let pp1 := if hitpp then w_pp w else pp_record w r in
    let '(s1, res, _) := Lru.get (w_store w) k in
    let hit :=
      match res with
      | ROk => match alookup k (w_content w) with Some e => Some e | None => None end
      | _ => None
      end in
    match hit with
    | Some e =>
        let '(ok, ws1) := restore e (rq_outputs r) (w_ws w) in
        ({| w_store := s1; w_content := w_content w; w_ws := ws1; w_pp := pp1;
            w_compiles := w_compiles w; w_pre_runs := pre_runs |},
         {| oc_kind := if ok then KHit else KFatal; oc_compiled := false;
            oc_pre_ran := negb hitpp; oc_stored := false |})
    | None =>
        let rerr := match res with RNotInCache => false | _ => true end in
        let ws1 := write_outs (cr_outs cr) (rq_outputs r) (w_ws w) in
        let w1 := {| w_store := s1; w_content := w_content w; w_ws := ws1; w_pp := pp1;
                     w_compiles := w_compiles w + 1; w_pre_runs := pre_runs |} in
        if negb (cr_ok cr) then
          (w1, {| oc_kind := KCompileFailed; oc_compiled := true; oc_pre_ran := negb hitpp; oc_stored := false |})
        else if negb (cr_cacheable cr) then
          (w1, {| oc_kind := KNotCacheable; oc_compiled := true; oc_pre_ran := negb hitpp; oc_stored := false |})
        else
          match collect ws1 (rq_outputs r) with
          | None =>
              (w1, {| oc_kind := KFatal; oc_compiled := true; oc_pre_ran := negb hitpp; oc_stored := false |})
          | Some e =>
              let '(s2, stored) := put s1 k (cr_size cr) in
              ({| w_store := s2;
                  w_content := if stored then ains k e (w_content w) else w_content w;
                  w_ws := ws1; w_pp := pp1; w_compiles := w_compiles w + 1; w_pre_runs := pre_runs |},
               {| oc_kind := KMiss rerr; oc_compiled := true; oc_pre_ran := negb hitpp; oc_stored := stored |})
          end
    end.

(* ---------- histories ---------- *)

Inductive event :=
| EReq (r : request)
| EDelete (p : bytes)                 (* someone deletes a file of the client (e.g. an earlier output) *)
| ERestart                            (* server stop + start on the same SCCACHE_DIR, same capacity *)
| EIdle                               (* nothing happens for a while *)
| EProbeFail (r : request)            (* request r arrives while the compiler cannot be probed (transient: the server's
                                         temp directory is gone): "Compiler not supported", the client fails.  The
                                         failure is not remembered as an answer: NOTHING changes *)
| EDamage (p : key) (sz : N).         (* the entry file at cache path p is damaged (truncated to sz bytes, no longer a
                                         readable entry): a crash of the machine, a full disk, a bad copy *)

Definition restart (w : world) : world :=
  {| w_store := reopen (w_store w) (cap (w_store w)); w_content := w_content w; w_ws := w_ws w;
     w_pp := w_pp w; w_compiles := w_compiles w; w_pre_runs := w_pre_runs w |}.

Definition delete_file (w : world) (p : bytes) : world :=
  {| w_store := w_store w; w_content := w_content w; w_ws := aremove p (w_ws w);
     w_pp := w_pp w; w_compiles := w_compiles w; w_pre_runs := w_pre_runs w |}.

(* the file keeps its place in the running server's index (with the size recorded there); its bytes are no longer
   an entry ([w_content] forgets them: a lookup opens the file and fails to read it), size and mtime change *)
Definition damage (w : world) (p : key) (sz : N) : world :=
  match alookup p (files (w_store w)) with
  | None => w
  | Some _ =>
      {| w_store := tick (set_files (w_store w) (ains p (sz, clock (w_store w) + 1) (files (w_store w))));
         w_content := aremove p (w_content w); w_ws := w_ws w;
         w_pp := w_pp w; w_compiles := w_compiles w; w_pre_runs := w_pre_runs w |}
  end.

Definition step_event (w : world) (e : event) : world * option outcome :=
  match e with
  | EReq r => let '(w', o) := do_request w r in (w', Some o)
  | EDelete p => (delete_file w p, None)
  | ERestart => (restart w, None)
  | EIdle => (w, None)
  | EDamage p sz => (damage w p sz, None)
  | EProbeFail r =>
      (w, Some {| oc_kind := KUnsupported; oc_compiled := false; oc_pre_ran := false; oc_stored := false |})
  end.

Definition run_events (w : world) (h : list event) : world :=
  fold_left (fun w e => fst (step_event w e)) h w.

Fixpoint trace_events (w : world) (h : list event) : list (option outcome * world) :=
  match h with
  | [] => []
  | e :: r => let '(w', o) := step_event w e in (o, w') :: trace_events w' r
  end.

(* the entry of request r is still in the cache: indexed by the running server *)
Definition cached (w : world) (r : request) : bool := amem (req_path r) (index (w_store w)).

(* requests of a history *)
Fixpoint requests_of (h : list event) : list request :=
  match h with
  | [] => []
  | EReq r :: t => r :: requests_of t
  | _ :: t => requests_of t
  end.

(* no request of the history maps to the cache path of r (for a collision-free key
   function: no request of the history has r's fingerprint) and r's entry file is not damaged *)
Fixpoint damaged_of (h : list event) : list key :=
  match h with
  | [] => []
  | EDamage p _ :: t => p :: damaged_of t
  | _ :: t => damaged_of t
  end.

Definition unrelated (r : request) (h : list event) : bool :=
  forallb (fun r' => negb (bytes_eqb (req_path r') (req_path r))) (requests_of h)
  && forallb (fun p => negb (bytes_eqb p (req_path r))) (damaged_of h).

(* "the stored entries stay within the capacity": every request of the history would fit beside what is
   indexed, and at every restart the entry files fit and none carries the temp-file prefix.  Computable along
   the run; does not mention any particular key. *)
Definition event_fits (w : world) (e : event) : bool :=
  match e with
  | EReq r => measure (w_store w) + cr_size (compile r (w_compiles w)) <=? cap (w_store w)
  | ERestart => (files_size (files (w_store w)) <=? cap (w_store w)) && no_temp_names (files (w_store w))
  | _ => true
  end.

Fixpoint fits (w : world) (h : list event) : bool :=
  match h with
  | [] => true
  | e :: t => event_fits w e && fits (fst (step_event w e)) t
  end.

End Model.

