(* TcCache.v — executable model of sccache's toolchain cache (src/dist/cache.rs
   `TcCache`, used by build servers in handle_submit_toolchain / run_build and by
   clients through ClientToolchains), ON TOP of the LruDiskCache model of
   Model/Lru.v (imported, not copied).

   What is added to Lru.v:
     - file CONTENTS: Lru.v tracks (size, mtime) per path; [cont] is a parallel
       map path -> bytes, kept consistent with Lru's [files] (a path deleted by
       an eviction inside Lru disappears from [cont] through [restrict]);
     - the digest of a content (BLAKE3 in the code: util::Digest::reader_sync,
       hex) as a Section variable [digest];
     - TcCache's own logic, in the order the (fixed) code performs its effects:
         make_lru_key_path  id -> a/b/id            (a, b = first two characters)
         archive_id_is_valid                         lowercase hex, length >= 2
         insert_with        prepare_add(key, 0) -> temp file -> writer -> re-hash
                            -> commit (rename into place)  |  abandon
         insert_file        id := digest(content); LruDiskCache::insert_file
         get / contains_toolchain / remove           the LruDiskCache calls
         TcCache::new       LruDiskCache::new = Lru.reopen (re-indexes the directory)
     - an upload cut short by a crash of the server followed by a restart
       ([TCrashUpload]): the disk at the crash point (temp file partly written),
       then Lru.reopen;
     - the final rename failing ([TInsertWithXdev]: NamedTempFile::persist in
       LruDiskCache::commit returns an error - EXDEV when the shard directory is a
       mount point of its own, EACCES, ENOSPC for the directory entry; [TInsertFileCopy]:
       fs::rename in LruDiskCache::insert_file fails and the code falls back to
       fs::copy - to a temp-named file next to the destination, renamed afterwards - which
       either completes or stops part-way with an error; [tc_crash_insert_file_copy]: the
       process is killed in the middle of that copy). *)
From Coq Require Import List NArith Bool.
From Sccache Require Import Base.Sx.
From Sccache Require Import Model.Lru.
Import ListNotations.
Local Open Scope N_scope.

Definition id := list N.
Definition bytes := list N.

(* ---------- ids and paths ---------- *)

(* Toolchain::archive_id_is_valid: a bunch of lowercase hex characters, at least two *)
Definition is_lhex (c : N) : bool :=
  ((48 <=? c) && (c <=? 57)) || ((97 <=? c) && (c <=? 102)).

Definition valid_id (i : id) : bool :=
  match i with
  | _ :: _ :: _ => forallb is_lhex i
  | _ => false
  end.

(* `&key[0..1]` and `&key[1..2]` of make_lru_key_path do not panic: the string has
   at least two bytes and byte offsets 1 and 2 are character boundaries *)
Definition slices_ok (i : id) : bool :=
  match i with
  | a :: b :: _ => (a <? 128) && (b <? 128)
  | _ => false
  end.

(* make_lru_key_path: Path::new(&key[0..1]).join(&key[1..2]).join(key), as the
   bytes of the relative path, for ids on which the joins are plain concatenations *)
Definition key_path (i : id) : key :=
  match i with
  | a :: b :: _ => [a; 47; b; 47] ++ i
  | _ => []
  end.

(* the components of a relative path *)
Fixpoint split_slash_aux (l acc : list N) : list (list N) :=
  match l with
  | [] => [acc]
  | c :: r => if c =? 47 then acc :: split_slash_aux r [] else split_slash_aux r (acc ++ [c])
  end.
Definition components (k : key) : list (list N) := split_slash_aux k [].

(* a component that keeps the path below the directory it is joined to *)
Definition plain_component (c : list N) : bool :=
  negb (bytes_eqb c []) && negb (bytes_eqb c [46]) && negb (bytes_eqb c [46; 46]).

(* ---------- state: Lru + contents ---------- *)

Record tst := { lru : st; cont : list (key * bytes) }.

Definition restrict (c : list (key * bytes)) (fs : list (key * (N * N))) : list (key * bytes) :=
  filter (fun e => amem (fst e) fs) c.

Definition cset (k : key) (b : bytes) (c : list (key * bytes)) : list (key * bytes) :=
  (k, b) :: aremove k c.

(* the Lru part moved to [l]; no file was (re)written *)
Definition mk (s : tst) (l : st) : tst :=
  {| lru := l; cont := restrict (cont s) (files l) |}.

(* the Lru part moved to [l]; the file [k] now holds [b] *)
Definition mk_put (s : tst) (l : st) (k : key) (b : bytes) : tst :=
  {| lru := l; cont := restrict (cset k b (cont s)) (files l) |}.

(* what `get` would read for [i] *)
Definition content_of (s : tst) (i : id) : option bytes :=
  if amem (key_path i) (files (lru s)) then alookup (key_path i) (cont s) else None.

Inductive tres := TOk | TTooLarge | TNotInCache | TIoErr | TRejected.

Definition of_res (r : res) : tres :=
  match r with
  | ROk => TOk | RTooLarge => TTooLarge | RNotInCache => TNotInCache
  | RIoErr => TIoErr | RBadHandle => TIoErr
  end.

Definition blen (b : bytes) : N := N.of_nat (length b).

Section WithDigest.

(* util::Digest::reader_sync (BLAKE3, hex).  Abstract: the theorems quantify over it. *)
Variable digest : bytes -> id.

(* TcCache::insert_with up to the point where the writer has written [b]:
   prepare_add(key, 0) creates a temp file in the cache root, the writer fills it *)
Definition receive (s : tst) (i : id) (b : bytes) : st * res * N :=
  let h := next_h (lru s) in
  let '(l1, r1) := prepare_add (lru s) (key_path i) 0 in
  match r1 with
  | ROk => let '(l2, _) := write_tmp l1 h (blen b) in (l2, ROk, h)
  | _ => (l1, r1, h)
  end.

(* TcCache::insert_with: [fail] = the writer returns an error after writing [b]
   (the client went away); otherwise the temp file is re-hashed and compared with
   the declared id; only then is it committed (renamed to a/b/id and indexed) *)
Definition tc_insert_with (s : tst) (i : id) (b : bytes) (fail : bool) : tst * tres * option key :=
  if negb (valid_id i) then (s, TRejected, None)
  else
    let '(l2, r, h) := receive s i b in
    match r with
    | ROk =>
        if fail then (mk s (fst (abandon l2 h)), TIoErr, None)
        else if bytes_eqb (digest b) i then
          let '(l3, r3, t) := commit l2 h in
          match r3 with
          | ROk => (mk_put s l3 (key_path i) b, TOk, t)
          | _ => (mk s l3, of_res r3, None)
          end
        else (mk s (fst (abandon l2 h)), TRejected, None)
    | _ => (mk s l2, of_res r, None)
    end.

(* the server dies while (or right after) the writer wrote [b]; it is restarted
   with capacity [c]: TcCache::new = LruDiskCache::new walks what is on the disk *)
Definition tc_crash_upload (s : tst) (i : id) (b : bytes) (c : N) : tst :=
  if negb (valid_id i) then mk s (reopen (lru s) c)
  else let '(l2, _, _) := receive s i b in mk s (reopen l2 c).

(* TcCache::insert_file (client side): the id is computed from the content.
   The [valid_id] test is not in the code: a hex digest always passes it; it makes
   the model total for an arbitrary [digest]. *)
Definition tc_insert_file (s : tst) (b : bytes) : tst * tres * option key * list bytes :=
  let i := digest b in
  if negb (valid_id i) then (s, TRejected, None, [])
  else
    let '(l1, r, t) := insert_by (lru s) (key_path i) (Some (blen b)) (blen b) false in
    match r with
    | ROk => (mk_put s l1 (key_path i) b, TOk, t, [i])
    | _ => (mk s l1, of_res r, None, [])
    end.

(* LruDiskCache::commit when `file.persist(path)` FAILS (the rename to the final path is
   refused): everything before it has happened - the handle is consumed, its reservation
   released, make_space has evicted for the real size - then the error is returned; the temp
   file is deleted when the PersistError is dropped, nothing was created at the final path
   and the index is not touched.  (Lru.v's [commit] is the case where the rename succeeds.) *)
Definition commit_rename_fails (s : st) (h : N) : st * res :=
  match hlookup h (handles s) with
  | None => (s, RBadHandle)
  | Some hd =>
      let s0 := set_handles s (hremove h (handles s)) (next_h s) in
      let s1 := release s0 hd in
      let '(ok, s2) := make_space s1 (h_written hd) in
      (s2, if ok then RIoErr else RTooLarge)
  end.

(* TcCache::insert_with of a complete upload (the writer succeeds) whose final rename fails *)
Definition tc_insert_with_xdev (s : tst) (i : id) (b : bytes) : tst * tres * option key :=
  if negb (valid_id i) then (s, TRejected, None)
  else
    let '(l2, r, h) := receive s i b in
    match r with
    | ROk =>
        if bytes_eqb (digest b) i then
          let '(l3, r3) := commit_rename_fails l2 h in (mk s l3, of_res r3, None)
        else (mk s (fst (abandon l2 h)), TRejected, None)
    | _ => (mk s l2, of_res r, None)
    end.

(* TcCache::insert_file when fs::rename of the packaged archive fails: LruDiskCache::insert_file
   falls back to fs::copy into a temp-named file in the destination directory, then renames
   it into place.  [fits] = the copy completes; otherwise it stops part-way with an error, the
   temp file is dropped and insert_by removes what is at the path (Lru.insert_by with a
   failing writer). *)
Definition tc_insert_file_copy (s : tst) (b : bytes) (fits : bool) : tst * tres * option key * list bytes :=
  let i := digest b in
  if negb (valid_id i) then (s, TRejected, None, [])
  else
    let '(l1, r, t) := insert_by (lru s) (key_path i) (Some (blen b)) (blen b) (negb fits) in
    match r with
    | ROk => (mk_put s l1 (key_path i) b, TOk, t, [i])
    | _ => (mk s l1, of_res r, None, [])
    end.

(* TcCache::get: the bytes of the file, with their digest (what the monitor checks) *)
Definition tc_get (s : tst) (i : id) : tst * tres * option key * list bytes :=
  if negb (valid_id i) then (s, TNotInCache, None, [])
  else
    let '(l1, r, t) := get (lru s) (key_path i) in
    match r with
    | ROk => (mk s l1, TOk, t,
              match alookup (key_path i) (cont s) with Some b => [b; digest b] | None => [] end)
    | _ => (mk s l1, of_res r, None, [])
    end.

Definition tc_contains (s : tst) (i : id) : bool :=
  valid_id i && amem (key_path i) (index (lru s)).

Definition tc_remove (s : tst) (i : id) : tst * tres :=
  if negb (valid_id i) then (s, TOk)
  else let '(l1, r) := remove (lru s) (key_path i) in (mk s l1, of_res r).

Definition tc_reopen (s : tst) (c : N) : tst := mk s (reopen (lru s) c).

(* The process is killed while that fall-back copy has written the first [k] bytes, and the
   cache is started again with capacity [c].  Since fix 7ead532 (finding C17-K1) the copy goes
   to a temp-named file next to the destination and is renamed afterwards: at the crash point
   the old index entry has been forgotten (in memory only), whatever was at the final path is
   still there, and the partial copy is a temp file, which LruDiskCache::new deletes. *)
Definition tc_crash_insert_file_copy (s : tst) (b : bytes) (k : nat) (c : N) : tst :=
  let i := digest b in
  if negb (valid_id i) then tc_reopen s c
  else if negb (blen b <=? cap (lru s)) then tc_reopen s c
  else mk s (reopen (lru_remove (lru s) (key_path i)) c).

(* ---------- operations ---------- *)

Inductive top :=
| TInsertWith (i : id) (b : bytes) (fail : bool)
| TCrashUpload (i : id) (b : bytes) (c : N)
| TInsertFile (b : bytes)
| TGet (i : id)
| TContains (i : id)
| TRemove (i : id)
| TReopen (c : N)
| TInsertWithXdev (i : id) (b : bytes)
| TInsertFileCopy (b : bytes) (fits : bool).

Inductive tout :=
| TORes (r : tres) (touched : option key) (ret : list bytes)
| TOBool (b : bool).

Definition tstep (s : tst) (o : top) : tst * tout :=
  match o with
  | TInsertWith i b f => let '(s', r, t) := tc_insert_with s i b f in (s', TORes r t [])
  | TCrashUpload i b c => (tc_crash_upload s i b c, TORes TOk None [])
  | TInsertFile b => let '(s', r, t, ret) := tc_insert_file s b in (s', TORes r t ret)
  | TGet i => let '(s', r, t, ret) := tc_get s i in (s', TORes r t ret)
  | TContains i => (s, TOBool (tc_contains s i))
  | TRemove i => let '(s', r) := tc_remove s i in (s', TORes r None [])
  | TReopen c => (tc_reopen s c, TORes TOk None [])
  | TInsertWithXdev i b => let '(s', r, t) := tc_insert_with_xdev s i b in (s', TORes r t [])
  | TInsertFileCopy b fits => let '(s', r, t, ret) := tc_insert_file_copy s b fits in (s', TORes r t ret)
  end.

Definition trun (s : tst) (ops : list top) : tst := fold_left (fun s o => fst (tstep s o)) ops s.

Fixpoint ttrace (s : tst) (ops : list top) : list (tout * tst) :=
  match ops with
  | [] => []
  | o :: r => let '(s', x) := tstep s o in (x, s') :: ttrace s' r
  end.

(* ---------- the client side: ClientToolchains ---------- *)

(* src/dist/cache.rs `ClientToolchains` without custom / disabled toolchains: a persistent map
   weak key -> archive id (weak_map.json) in front of a TcCache that is filled by insert_file.
   put_toolchain: a known weak key answers from the map without touching the cache (and
   without running the packager); otherwise the packager writes the archive to a temp file
   OUTSIDE the cache ([fail] = it gives up: nothing else happens), insert_file moves it in under
   the digest of its content, and the pair is recorded.  get_toolchain = TcCache::get_file. *)
Record cst := { tcs : tst; weak : list (bytes * id) }.

Inductive cop :=
| CPut (w : bytes) (b : bytes) (fail : bool)
| CGet (i : id)
| CReopen (c : N)
| CPutCopy (w : bytes) (b : bytes) (fits : bool).

(* put_toolchain for a weak key that is not recorded yet; [ins] is the insert_file outcome *)
Definition cput_new (s : cst) (w : bytes) (b : bytes)
    (ins : tst * tres * option key * list bytes) : cst * tout :=
  let '(s', r, t, ret) := ins in
  match r with
  | TOk => ({| tcs := s'; weak := (w, digest b) :: weak s |}, TORes r t ret)
  | _ => ({| tcs := s'; weak := weak s |}, TORes r t ret)
  end.

Definition cstep (s : cst) (o : cop) : cst * tout :=
  match o with
  | CPut w b fail =>
      match alookup w (weak s) with
      | Some i => (s, TORes TOk None [i])
      | None =>
          if fail then (s, TORes TRejected None [])
          else cput_new s w b (tc_insert_file (tcs s) b)
      end
  | CPutCopy w b fits =>
      match alookup w (weak s) with
      | Some i => (s, TORes TOk None [i])
      | None => cput_new s w b (tc_insert_file_copy (tcs s) b fits)
      end
  | CGet i => let '(s', r, t, ret) := tc_get (tcs s) i in ({| tcs := s'; weak := weak s |}, TORes r t ret)
  | CReopen c => ({| tcs := tc_reopen (tcs s) c; weak := weak s |}, TORes TOk None [])
  end.

Definition crun (s : cst) (ops : list cop) : cst := fold_left (fun s o => fst (cstep s o)) ops s.

Fixpoint ctrace (s : cst) (ops : list cop) : list (tout * cst) :=
  match ops with
  | [] => []
  | o :: r => let '(s', x) := cstep s o in (x, s') :: ctrace s' r
  end.

(* ---------- the build server in front of the cache ---------- *)

(* src/bin/sccache-dist/main.rs `Server` (handle_assign_job / handle_submit_toolchain /
   handle_run_job) with the real builder's treatment of a toolchain it cannot unpack
   (build.rs prepare_overlay_dirs: get the archive, and when unpacking fails remove it from the
   cache again).  The cache sits in a Mutex that handle_submit_toolchain holds while the body of
   an upload arrives: [supl] is an upload that has stalled in the middle of its body, and an
   assignment arriving meanwhile WAITS for it ([swait]) and is answered from the cache after the
   upload has been dealt with.  need_toolchain is never answered from anything but the cache.
   Archives in this model are not unpackable (the generator only uploads such); [sdirs] are the
   toolchain directories a failed "not available" attempt leaves behind (create_dir then fails). *)
Record sst := {
  sv : tst;
  sjobs : list (N * id);           (* job_toolchains *)
  snjob : N;                       (* job ids handed out by the scheduler *)
  supl : option (N * bytes);       (* the stalled upload: job, body *)
  swait : list (N * id);           (* assignments waiting for the cache lock *)
  sdirs : list id
}.

Inductive sop :=
| SAssign (i : id)
| SSubmit (j : N) (b : bytes)
| SStall (j : N) (b : bytes)
| SRelease
| SRun (j : N).

Inductive sres :=
| SNeed | SReady | SErr | SBlocked | SBusy | SSuccess | SCannotCache | SJobNotFound | SStalled | SIdle | SFailed.

Definition answer (v : tst) (i : id) : sres := if tc_contains v i then SReady else SNeed.

(* handle_submit_toolchain once it holds the cache lock *)
Definition submit_now (v : tst) (jobs : list (N * id)) (j : N) (b : bytes) : tst * sres :=
  match hlookup j jobs with
  | None => (v, SJobNotFound)
  | Some i =>
      if tc_contains v i then (v, SSuccess)
      else let '(v', r, _) := tc_insert_with v i b false in
           (v', match r with TOk => SSuccess | _ => SCannotCache end)
  end.

Fixpoint mem_id (i : id) (l : list id) : bool :=
  match l with [] => false | x :: r => bytes_eqb i x || mem_id i r end.

Definition sstep (s : sst) (o : sop) : sst * sres * list sres :=
  match o with
  | SAssign i =>
      let j := snjob s + 1 in
      if negb (valid_id i) then
        ({| sv := sv s; sjobs := sjobs s; snjob := j; supl := supl s; swait := swait s; sdirs := sdirs s |}, SErr, [])
      else match supl s with
           | Some _ =>
               ({| sv := sv s; sjobs := sjobs s; snjob := j; supl := supl s;
                   swait := swait s ++ [(j, i)]; sdirs := sdirs s |}, SBlocked, [])
           | None =>
               ({| sv := sv s; sjobs := sjobs s ++ [(j, i)]; snjob := j; supl := None;
                   swait := swait s; sdirs := sdirs s |}, answer (sv s) i, [])
           end
  | SSubmit j b =>
      match supl s with
      | Some _ => (s, SBusy, [])
      | None => let '(v', r) := submit_now (sv s) (sjobs s) j b in
                ({| sv := v'; sjobs := sjobs s; snjob := snjob s; supl := None; swait := swait s; sdirs := sdirs s |}, r, [])
      end
  | SStall j b =>
      match supl s with
      | Some _ => (s, SBusy, [])
      | None =>
          match hlookup j (sjobs s) with
          | None => (s, SJobNotFound, [])
          | Some i =>
              if tc_contains (sv s) i then (s, SSuccess, [])
              else ({| sv := sv s; sjobs := sjobs s; snjob := snjob s; supl := Some (j, b);
                       swait := swait s; sdirs := sdirs s |}, SStalled, [])
          end
      end
  | SRelease =>
      match supl s with
      | None => (s, SIdle, [])
      | Some (j, b) =>
          let '(v', r) := submit_now (sv s) (sjobs s) j b in
          ({| sv := v'; sjobs := sjobs s ++ swait s; snjob := snjob s; supl := None; swait := [];
              sdirs := sdirs s |}, r, map (fun w => answer v' (snd w)) (swait s))
      end
  | SRun j =>
      match supl s with
      | Some _ => (s, SBusy, [])
      | None =>
          match hlookup j (sjobs s) with
          | None => (s, SJobNotFound, [])
          | Some i =>
              let jobs' := hremove j (sjobs s) in
              if mem_id i (sdirs s) then
                ({| sv := sv s; sjobs := jobs'; snjob := snjob s; supl := None; swait := swait s; sdirs := sdirs s |},
                 SFailed, [])
              else
                let '(v1, r, _, _) := tc_get (sv s) i in
                match r with
                | TOk => ({| sv := fst (tc_remove v1 i); sjobs := jobs'; snjob := snjob s; supl := None;
                             swait := swait s; sdirs := sdirs s |}, SFailed, [])
                | _ => ({| sv := v1; sjobs := jobs'; snjob := snjob s; supl := None; swait := swait s;
                           sdirs := i :: sdirs s |}, SFailed, [])
                end
          end
      end
  end.

Definition srun (s : sst) (ops : list sop) : sst := fold_left (fun s o => fst (fst (sstep s o))) ops s.

Fixpoint strace (s : sst) (ops : list sop) : list (sres * list sres * sst) :=
  match ops with
  | [] => []
  | o :: r => let '(s', x, a) := sstep s o in (x, a, s') :: strace s' r
  end.

End WithDigest.

(* TcCache::new on an empty directory *)
Definition tc_empty (c : N) : tst := {| lru := empty c; cont := [] |}.

Definition s_empty (c : N) : sst :=
  {| sv := tc_empty c; sjobs := []; snjob := 0; supl := None; swait := []; sdirs := [] |}.
