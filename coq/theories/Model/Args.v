(* Model/Args.v — executable model of sccache's gcc/clang argument handling:
     src/compiler/args.rs   ArgInfo::cmp, bsearch, the one- and two-table search, ArgInfo::process, ArgsIter::next,
                            Argument::normalize, Argument::iter_os_strings
     src/compiler/gcc.rs    ExpandIncludeFile, parse_arguments (main loop, -Xclang loop, the fix-ups after the loops),
                            preprocess_cmd, generate_compile_commands (local form)
   The tables and the constructor -> list maps are parameters (record [tables]); Gen/C01ArgTables.v instantiates them.
   Domain: argument words, file names and @-file contents are ASCII (bytes < 128): `to_string_lossy`, `to_str` and
   `read_to_string` are the identity there.  Not modelled: non-UTF-8 words, the dist command, path transformers. *)
From Coq Require Import List NArith Bool.
From Coq Require String.
Import String.StringSyntax.
From Sccache Require Import Base.Sx Model.ArgTypes.
Import ListNotations.
Local Open Scope N_scope.
Local Open Scope string_scope.

(* ------------------------------------------------------------------ tables *)

Record tables := {
  t_gcc : list arginfo;
  t_clang : list arginfo;
  t_main_dest : argdata -> dest * arm_effect;
  t_x_dest : argdata -> xdest * arm_effect;
  t_xlang : list (bytes * lang);
  t_ext : list (bytes * lang);
  t_lang_gcc : lang -> option bytes;
  t_lang_clang : lang -> option bytes;
  t_arch_flag : bytes;
  t_expand_limit : N;           (* MAX_INCLUDE_FILE_EXPANSIONS *)
  t_rsp_literal : list N        (* a response file holding one of these characters is not expanded *)
}.

(* ------------------------------------------------------------------ bytes *)

Fixpoint starts_with (p s : bytes) : bool :=
  match p, s with
  | [], _ => true
  | x :: p', y :: s' => N.eqb x y && starts_with p' s'
  | _ :: _, [] => false
  end.

(* lexicographic order on byte strings = Rust's `str::cmp` *)
Fixpoint bytes_cmp (a b : bytes) : comparison :=
  match a, b with
  | [], [] => Eq
  | [], _ :: _ => Lt
  | _ :: _, [] => Gt
  | x :: a', y :: b' => match N.compare x y with Eq => bytes_cmp a' b' | c => c end
  end.

Definition opt_N_eqb (a : option N) (b : N) : bool :=
  match a with Some x => N.eqb x b | None => false end.

Fixpoint assoc {A} (k : bytes) (l : list (bytes * A)) : option A :=
  match l with
  | [] => None
  | (k', v) :: r => if bytes_eqb k k' then Some v else assoc k r
  end.

Fixpoint mem_bytes (k : bytes) (l : list bytes) : bool :=
  match l with [] => false | x :: r => bytes_eqb k x || mem_bytes k r end.

(* ------------------------------------------------------------------ args.rs: search *)

(* ArgInfo::cmp: the entry compared WITH the argument (Gt = the entry sorts after the argument = search to the left).
   For delimiter entries the Rust code returns `arg[s.len()].cmp(&d)`, i.e. the comparison the other way round;
   that is modelled literally. *)
Definition info_cmp (i : arginfo) (arg : bytes) : comparison :=
  match i with
  | ITake s _ (CanBeSeparated None) _ | ITake s _ (Concatenated None) _ =>
      if starts_with s arg then Eq else bytes_cmp s arg
  | ITake s _ (CanBeSeparated (Some d)) _ | ITake s _ (Concatenated (Some d)) _ =>
      if Nat.ltb (length s) (length arg) && starts_with s arg
      then N.compare (nth (length s) arg 0) d
      else bytes_cmp s arg
  | _ => bytes_cmp (flag_str i) arg
  end.

Fixpoint bsearch (fuel : nat) (key : bytes) (items : list arginfo) : option arginfo :=
  match fuel with
  | O => None
  | S f =>
      match items with
      | [] => None
      | _ =>
          let middle := Nat.div (length items) 2 in
          match nth_error items middle with
          | None => None
          | Some m =>
              match info_cmp m key with
              | Eq =>
                  let after := if Nat.eqb (length items) 1 then None
                               else bsearch f key (skipn (S middle) items) in
                  match after with Some a => Some a | None => Some m end
              | Gt => bsearch f key (firstn middle items)
              | Lt => bsearch f key (skipn (S middle) items)
              end
          end
      end
  end.

Definition search1 (tbl : list arginfo) (key : bytes) : option arginfo :=
  bsearch (S (length tbl)) key tbl.

(* (&[ArgInfo], &[ArgInfo])::search: the second table complements or overrides the first *)
Definition search2 (t0 t1 : list arginfo) (key : bytes) : option arginfo :=
  match search1 t0 key, search1 t1 key with
  | None, None => None
  | Some a, None => Some a
  | None, Some b => Some b
  | Some a, Some b =>
      match bytes_cmp (flag_str a) (flag_str b) with Gt => Some a | _ => Some b end
  end.

Inductive tblsel := SelGcc | SelMerged.

Definition search (T : tables) (sel : tblsel) (key : bytes) : option arginfo :=
  match sel with
  | SelGcc => search1 (t_gcc T) key
  | SelMerged => search2 (t_gcc T) (t_clang T) key
  end.

(* SearchableArgInfo::check (a debug assertion in ArgsIter::new): strictly increasing flag spellings *)
Fixpoint sorted_strict (l : list arginfo) : bool :=
  match l with
  | a :: ((b :: _) as r) =>
      (match bytes_cmp (flag_str a) (flag_str b) with Lt => true | _ => false end) && sorted_strict r
  | _ => true
  end.

(* ------------------------------------------------------------------ args.rs: Argument, process *)

Inductive argument :=
| ARaw (s : bytes)
| AUnknown (s : bytes)
| AFlag (s : bytes) (c : argdata)
| AWith (s : bytes) (c : argdata) (v : bytes) (d : disp).

Definition a_flag_str (a : argument) : option bytes :=
  match a with AFlag s _ | AWith s _ _ _ => Some s | _ => None end.
Definition a_data (a : argument) : option argdata :=
  match a with AFlag _ c | AWith _ c _ _ => Some c | _ => None end.

(* result of ArgInfo::process: the parsed argument and whether `get_next_arg` was called *)
Inductive presult :=
| POk (a : argument) (consumed : bool)
| PEnd.                       (* Err(UnexpectedEndOfArgs) *)

Definition process_conc (s : bytes) (c : argdata) (d : option N) (arg : bytes) : bytes :=
  let len := length s in
  let len' := match d with
              | Some dd => if opt_N_eqb (nth_error arg len) dd then S len else len
              | None => len
              end in
  skipn len' arg.

Definition process (i : arginfo) (arg : bytes) (next : option bytes) : presult :=
  match i with
  | IFlag s c => POk (AFlag s c) false
  | ITake s _ Separated c =>
      match next with
      | Some a => POk (AWith s c a Separated) true
      | None => PEnd
      end
  | ITake s _ (Concatenated d) c => POk (AWith s c (process_conc s c d arg) (Concatenated d)) false
  | ITake s _ (CanBeSeparated d) c | ITake s _ (CanBeConcatenated d) c =>
      if bytes_eqb arg s then
        match next with
        | Some a => POk (AWith s c a (CanBeConcatenated d)) true
        | None =>
            match d with
            | None => POk (AWith s c [] (Concatenated d)) false
            | Some _ => PEnd
            end
        end
      else POk (AWith s c (process_conc s c d arg) (CanBeSeparated d)) false
  end.

(* Argument::normalize with the rule of parse_arguments: two-character flags are joined, longer ones split *)
Definition normalize (a : argument) : argument :=
  match a with
  | AWith s c v (CanBeConcatenated d) | AWith s c v (CanBeSeparated d) =>
      AWith s c v (if Nat.eqb (length s) 2 then Concatenated d else Separated)
  | _ => a
  end.

Definition iter_os_strings (a : argument) : list bytes :=
  match a with
  | ARaw s | AUnknown s => [s]
  | AFlag s _ => [s]
  | AWith s _ v (CanBeSeparated d) | AWith s _ v (Concatenated d) =>
      [s ++ (match d, v with Some c, _ :: _ => [c] | _, _ => [] end) ++ v]
  | AWith s _ v Separated | AWith s _ v (CanBeConcatenated _) => [s; v]
  end.

Definition render_norm (a : argument) : list bytes := iter_os_strings (normalize a).

(* ------------------------------------------------------------------ gcc.rs: ExpandIncludeFile *)

Definition fsys := list (bytes * bytes).     (* readable files in cwd: name -> content *)

Definition is_ws (c : N) : bool :=
  (N.leb 9 c && N.leb c 13) || N.eqb c 32.

(* str::split_whitespace *)
Fixpoint split_ws_go (cur : bytes) (s : bytes) : list bytes :=
  match s with
  | [] => match cur with [] => [] | _ => [rev cur] end
  | c :: r =>
      if is_ws c then match cur with [] => split_ws_go [] r | _ => rev cur :: split_ws_go [] r end
      else split_ws_go (c :: cur) r
  end.
Definition split_ws (s : bytes) : list bytes := split_ws_go [] s.

(* the characters that make ExpandIncludeFile give up on a file (quotes; the list comes from the translator) *)
Definition has_quote (lits : list N) (s : bytes) : bool := existsb (fun c => existsb (N.eqb c) lits) s.

Inductive popres :=
| PopEnd
| PopArg (a : bytes) (rest : list bytes) (left : nat).

(* ExpandIncludeFile::next; the stack is kept top-first, [left] = expansions_left.  An `@name` that cannot be read,
   whose content holds a quote, or that comes after the expansion limit is returned literally. *)
Fixpoint pop (lits : list N) (left : nat) (fs : fsys) (stack : list bytes) {struct left} : popres :=
  match stack with
  | [] => PopEnd
  | arg :: rest =>
      match arg with
      | 64 :: name =>
          match left with
          | O => PopArg arg rest O
          | S l =>
              match assoc name fs with
              | None => PopArg arg rest l
              | Some content =>
                  if has_quote lits content then PopArg arg rest l
                  else pop lits l fs (split_ws content ++ rest)
              end
          end
      | _ => PopArg arg rest left
      end
  end.

(* ------------------------------------------------------------------ args.rs: ArgsIter *)

Inductive tok_end := TEnd | TErrEnd | TFuel.

Definition dashdash : bytes := [45; 45].

(* dd = seen_double_dashes: None for gcc, Some false/true for clang.
   Returns the parsed arguments up to the end / the first error. *)
Fixpoint tokenize (fuel : nat) (T : tables) (sel : tblsel) (dd : option bool) (fs : fsys)
         (left : nat) (stack : list bytes) : list argument * tok_end :=
  match fuel with
  | O => ([], TFuel)
  | S f =>
      match pop (t_rsp_literal T) left fs stack with
      | PopEnd => ([], TEnd)
      | PopArg arg rest left1 =>
          let dd' := match dd with
                     | Some false => if bytes_eqb arg dashdash then Some true else dd
                     | _ => dd
                     end in
          match dd' with
          | Some true =>
              let '(l, e) := tokenize f T sel dd' fs left1 rest in (ARaw arg :: l, e)
          | _ =>
              match search T sel arg with
              | None =>
                  let a := if starts_with [45] arg then AUnknown arg else ARaw arg in
                  let '(l, e) := tokenize f T sel dd' fs left1 rest in (a :: l, e)
              | Some i =>
                  (* get_next_arg is only evaluated when process needs it: the look-ahead is dropped otherwise *)
                  let nx := pop (t_rsp_literal T) left1 fs rest in
                  let next := match nx with PopArg a _ _ => Some a | PopEnd => None end in
                  match process i arg next with
                  | PEnd => ([], TErrEnd)
                  | POk a consumed =>
                      let '(rest', left2) :=
                        if consumed then match nx with PopArg _ r l2 => (r, l2) | PopEnd => ([], left1) end
                        else (rest, left1) in
                      let '(l, e) := tokenize f T sel dd' fs left2 rest' in (a :: l, e)
                  end
              end
          end
      end
  end.

(* enough fuel: every step consumes a word; there are at most the given words plus what [limit] expansions add *)
Fixpoint max_file_tokens (fs : fsys) : nat :=
  match fs with [] => O | (_, c) :: r => Nat.max (length (split_ws c)) (max_file_tokens r) end.

Definition tok_fuel (limit : nat) (fs : fsys) (stack : list bytes) : nat :=
  S (length stack + limit * S (max_file_tokens fs)).

(* ------------------------------------------------------------------ std::path (Unix) *)

Definition slash : N := 47.
Definition dot : N := 46.

Fixpoint strip_trailing_slashes_rev (r : bytes) : bytes :=
  match r with
  | c :: r' => if N.eqb c slash then strip_trailing_slashes_rev r' else r
  | [] => []
  end.

(* the last segment of a reversed path without trailing slash: (segment reversed, remainder reversed incl. slash) *)
Fixpoint last_seg_rev (r : bytes) : bytes * bytes :=
  match r with
  | [] => ([], [])
  | c :: r' => if N.eqb c slash then ([], r) else let '(s, rem) := last_seg_rev r' in (c :: s, rem)
  end.

(* Path::file_name as (offset of the name in the path, name); `.` components at the end are skipped, `..`, `/`,
   `` and a lone `.` have no file name *)
Fixpoint file_name_rev (fuel : nat) (r : bytes) : option (nat * bytes) :=
  match fuel with
  | O => None
  | S f =>
      let r1 := strip_trailing_slashes_rev r in
      match r1 with
      | [] => None
      | _ =>
          let '(segr, rem) := last_seg_rev r1 in
          let seg := rev segr in
          if bytes_eqb seg [dot] then file_name_rev f rem
          else if bytes_eqb seg [dot; dot] then None
          else Some (length rem, seg)
      end
  end.

Definition file_name_span (p : bytes) : option (nat * bytes) := file_name_rev (S (length p)) (rev p).
Definition file_name (p : bytes) : option bytes := option_map snd (file_name_span p).

(* rsplit_file_at_dot: (before, after) *)
Fixpoint split_last_dot_rev (r : bytes) : option (bytes * bytes) :=   (* reversed name -> (after reversed, before reversed) *)
  match r with
  | [] => None
  | c :: r' =>
      if N.eqb c dot then Some ([], r')
      else match split_last_dot_rev r' with
           | Some (a, b) => Some (c :: a, b)
           | None => None
           end
  end.

Definition rsplit_at_dot (name : bytes) : option bytes * option bytes :=
  if bytes_eqb name [dot; dot] then (Some name, None)
  else match split_last_dot_rev (rev name) with
       | None => (None, Some name)                     (* no dot: before = None, after = whole *)
       | Some (a, b) =>
           match b with
           | [] => (Some name, None)                   (* leading dot only *)
           | _ => (Some (rev b), Some (rev a))
           end
       end.

Definition extension (p : bytes) : option bytes :=
  match file_name p with
  | None => None
  | Some n => match rsplit_at_dot n with (Some _, Some a) => Some a | _ => None end
  end.

Definition file_stem_of (n : bytes) : bytes :=
  match rsplit_at_dot n with
  | (Some b, _) => b
  | (None, Some a) => a
  | (None, None) => n
  end.

(* Path::with_extension for a non-empty extension *)
Definition with_extension (p ext : bytes) : bytes :=
  match file_name_span p with
  | None => p
  | Some (off, n) => firstn (off + length (file_stem_of n)) p ++ [dot] ++ ext
  end.

Definition is_absolute (p : bytes) : bool := starts_with [slash] p.

Definition ends_with_slash (p : bytes) : bool :=
  match rev p with c :: _ => N.eqb c slash | [] => false end.

(* PathBuf::push / Path::join *)
Definition path_join (base p : bytes) : bytes :=
  if is_absolute p then p
  else if ends_with_slash base || (match base with [] => true | _ => false end) then base ++ p
  else base ++ [slash] ++ p.

(* ------------------------------------------------------------------ gcc.rs: parse_arguments *)

Inductive ckind := KGcc | KClang.

Record env := {
  e_kind : ckind;
  e_plusplus : bool;
  e_multiarch : bool;          (* SCCACHE_CACHE_MULTIARCH is set *)
  e_cwd : bytes;
  e_files : fsys;              (* readable @-files, by the name written after `@` *)
  e_dirs : list bytes          (* names (as written on the command line) that are directories *)
}.

Record lists := {
  l_common : list bytes;
  l_arch : list bytes;
  l_unhashed : list bytes;
  l_pre : list bytes;
  l_dep : list bytes
}.

Definition push (d : dest) (ws : list bytes) (l : lists) : lists :=
  match d with
  | DCommon => {| l_common := l_common l ++ ws; l_arch := l_arch l; l_unhashed := l_unhashed l; l_pre := l_pre l; l_dep := l_dep l |}
  | DArch => {| l_common := l_common l; l_arch := l_arch l ++ ws; l_unhashed := l_unhashed l; l_pre := l_pre l; l_dep := l_dep l |}
  | DUnhashed => {| l_common := l_common l; l_arch := l_arch l; l_unhashed := l_unhashed l ++ ws; l_pre := l_pre l; l_dep := l_dep l |}
  | DPre => {| l_common := l_common l; l_arch := l_arch l; l_unhashed := l_unhashed l; l_pre := l_pre l ++ ws; l_dep := l_dep l |}
  | DDep => {| l_common := l_common l; l_arch := l_arch l; l_unhashed := l_unhashed l; l_pre := l_pre l; l_dep := l_dep l ++ ws |}
  | DSkip | DUnreachable => l
  end.

Definition get_list (d : dest) (l : lists) : list bytes :=
  match d with
  | DCommon => l_common l | DArch => l_arch l | DUnhashed => l_unhashed l | DPre => l_pre l | DDep => l_dep l
  | _ => []
  end.

Definition empty_lists : lists := {| l_common := []; l_arch := []; l_unhashed := []; l_pre := []; l_dep := [] |}.

Inductive color := ColorOff | ColorOn | ColorAuto.
Inductive deppath := DPNotNeeded | DPMissing | DPProvided.

(* the local variables of parse_arguments other than the five lists *)
Record vars := {
  v_output : option bytes;
  v_input : option bytes;
  v_dd_input : bool;
  v_dep_targets : list (bytes * bytes);
  v_extra_hash : list bytes;
  v_compilation : bool;
  v_multiple_input : bool;
  v_pedantic : bool;
  v_lang_ext : bool;
  v_split_dwarf : bool;
  v_need_dep_target : bool;
  v_dep_path : deppath;
  v_language : option lang;
  v_cflag : bytes;
  v_profile_generate : bool;
  v_outputs_gcno : bool;
  v_xclangs : list bytes;
  v_color : color;
  v_seen_arch : option bytes;
  v_dia : option bytes;
  v_too_hard_pp : option bytes
}.

Definition init_vars : vars := {|
  v_output := None; v_input := None; v_dd_input := false; v_dep_targets := []; v_extra_hash := [];
  v_compilation := false; v_multiple_input := false; v_pedantic := false; v_lang_ext := true;
  v_split_dwarf := false; v_need_dep_target := false; v_dep_path := DPNotNeeded; v_language := None;
  v_cflag := []; v_profile_generate := false; v_outputs_gcno := false; v_xclangs := []; v_color := ColorAuto;
  v_seen_arch := None; v_dia := None; v_too_hard_pp := None |}.

(* field updates *)
Definition set_output x v := {| v_output := x; v_input := v_input v; v_dd_input := v_dd_input v; v_dep_targets := v_dep_targets v; v_extra_hash := v_extra_hash v; v_compilation := v_compilation v; v_multiple_input := v_multiple_input v; v_pedantic := v_pedantic v; v_lang_ext := v_lang_ext v; v_split_dwarf := v_split_dwarf v; v_need_dep_target := v_need_dep_target v; v_dep_path := v_dep_path v; v_language := v_language v; v_cflag := v_cflag v; v_profile_generate := v_profile_generate v; v_outputs_gcno := v_outputs_gcno v; v_xclangs := v_xclangs v; v_color := v_color v; v_seen_arch := v_seen_arch v; v_dia := v_dia v; v_too_hard_pp := v_too_hard_pp v |}.
Definition set_input x m v := {| v_output := v_output v; v_input := x; v_dd_input := v_dd_input v; v_dep_targets := v_dep_targets v; v_extra_hash := v_extra_hash v; v_compilation := v_compilation v; v_multiple_input := m; v_pedantic := v_pedantic v; v_lang_ext := v_lang_ext v; v_split_dwarf := v_split_dwarf v; v_need_dep_target := v_need_dep_target v; v_dep_path := v_dep_path v; v_language := v_language v; v_cflag := v_cflag v; v_profile_generate := v_profile_generate v; v_outputs_gcno := v_outputs_gcno v; v_xclangs := v_xclangs v; v_color := v_color v; v_seen_arch := v_seen_arch v; v_dia := v_dia v; v_too_hard_pp := v_too_hard_pp v |}.
Definition set_dd_input x v := {| v_output := v_output v; v_input := v_input v; v_dd_input := x; v_dep_targets := v_dep_targets v; v_extra_hash := v_extra_hash v; v_compilation := v_compilation v; v_multiple_input := v_multiple_input v; v_pedantic := v_pedantic v; v_lang_ext := v_lang_ext v; v_split_dwarf := v_split_dwarf v; v_need_dep_target := v_need_dep_target v; v_dep_path := v_dep_path v; v_language := v_language v; v_cflag := v_cflag v; v_profile_generate := v_profile_generate v; v_outputs_gcno := v_outputs_gcno v; v_xclangs := v_xclangs v; v_color := v_color v; v_seen_arch := v_seen_arch v; v_dia := v_dia v; v_too_hard_pp := v_too_hard_pp v |}.
Definition set_dep_targets x v := {| v_output := v_output v; v_input := v_input v; v_dd_input := v_dd_input v; v_dep_targets := x; v_extra_hash := v_extra_hash v; v_compilation := v_compilation v; v_multiple_input := v_multiple_input v; v_pedantic := v_pedantic v; v_lang_ext := v_lang_ext v; v_split_dwarf := v_split_dwarf v; v_need_dep_target := v_need_dep_target v; v_dep_path := v_dep_path v; v_language := v_language v; v_cflag := v_cflag v; v_profile_generate := v_profile_generate v; v_outputs_gcno := v_outputs_gcno v; v_xclangs := v_xclangs v; v_color := v_color v; v_seen_arch := v_seen_arch v; v_dia := v_dia v; v_too_hard_pp := v_too_hard_pp v |}.
Definition set_extra_hash x v := {| v_output := v_output v; v_input := v_input v; v_dd_input := v_dd_input v; v_dep_targets := v_dep_targets v; v_extra_hash := x; v_compilation := v_compilation v; v_multiple_input := v_multiple_input v; v_pedantic := v_pedantic v; v_lang_ext := v_lang_ext v; v_split_dwarf := v_split_dwarf v; v_need_dep_target := v_need_dep_target v; v_dep_path := v_dep_path v; v_language := v_language v; v_cflag := v_cflag v; v_profile_generate := v_profile_generate v; v_outputs_gcno := v_outputs_gcno v; v_xclangs := v_xclangs v; v_color := v_color v; v_seen_arch := v_seen_arch v; v_dia := v_dia v; v_too_hard_pp := v_too_hard_pp v |}.
Definition set_compilation f v := {| v_output := v_output v; v_input := v_input v; v_dd_input := v_dd_input v; v_dep_targets := v_dep_targets v; v_extra_hash := v_extra_hash v; v_compilation := true; v_multiple_input := v_multiple_input v; v_pedantic := v_pedantic v; v_lang_ext := v_lang_ext v; v_split_dwarf := v_split_dwarf v; v_need_dep_target := v_need_dep_target v; v_dep_path := v_dep_path v; v_language := v_language v; v_cflag := f; v_profile_generate := v_profile_generate v; v_outputs_gcno := v_outputs_gcno v; v_xclangs := v_xclangs v; v_color := v_color v; v_seen_arch := v_seen_arch v; v_dia := v_dia v; v_too_hard_pp := v_too_hard_pp v |}.
Definition set_pedantic v := {| v_output := v_output v; v_input := v_input v; v_dd_input := v_dd_input v; v_dep_targets := v_dep_targets v; v_extra_hash := v_extra_hash v; v_compilation := v_compilation v; v_multiple_input := v_multiple_input v; v_pedantic := true; v_lang_ext := v_lang_ext v; v_split_dwarf := v_split_dwarf v; v_need_dep_target := v_need_dep_target v; v_dep_path := v_dep_path v; v_language := v_language v; v_cflag := v_cflag v; v_profile_generate := v_profile_generate v; v_outputs_gcno := v_outputs_gcno v; v_xclangs := v_xclangs v; v_color := v_color v; v_seen_arch := v_seen_arch v; v_dia := v_dia v; v_too_hard_pp := v_too_hard_pp v |}.
Definition set_lang_ext x v := {| v_output := v_output v; v_input := v_input v; v_dd_input := v_dd_input v; v_dep_targets := v_dep_targets v; v_extra_hash := v_extra_hash v; v_compilation := v_compilation v; v_multiple_input := v_multiple_input v; v_pedantic := v_pedantic v; v_lang_ext := x; v_split_dwarf := v_split_dwarf v; v_need_dep_target := v_need_dep_target v; v_dep_path := v_dep_path v; v_language := v_language v; v_cflag := v_cflag v; v_profile_generate := v_profile_generate v; v_outputs_gcno := v_outputs_gcno v; v_xclangs := v_xclangs v; v_color := v_color v; v_seen_arch := v_seen_arch v; v_dia := v_dia v; v_too_hard_pp := v_too_hard_pp v |}.
Definition set_split_dwarf v := {| v_output := v_output v; v_input := v_input v; v_dd_input := v_dd_input v; v_dep_targets := v_dep_targets v; v_extra_hash := v_extra_hash v; v_compilation := v_compilation v; v_multiple_input := v_multiple_input v; v_pedantic := v_pedantic v; v_lang_ext := v_lang_ext v; v_split_dwarf := true; v_need_dep_target := v_need_dep_target v; v_dep_path := v_dep_path v; v_language := v_language v; v_cflag := v_cflag v; v_profile_generate := v_profile_generate v; v_outputs_gcno := v_outputs_gcno v; v_xclangs := v_xclangs v; v_color := v_color v; v_seen_arch := v_seen_arch v; v_dia := v_dia v; v_too_hard_pp := v_too_hard_pp v |}.
Definition set_need_dep (th : option bytes) v := {| v_output := v_output v; v_input := v_input v; v_dd_input := v_dd_input v; v_dep_targets := v_dep_targets v; v_extra_hash := v_extra_hash v; v_compilation := v_compilation v; v_multiple_input := v_multiple_input v; v_pedantic := v_pedantic v; v_lang_ext := v_lang_ext v; v_split_dwarf := v_split_dwarf v; v_need_dep_target := true; v_dep_path := (match v_dep_path v with DPNotNeeded => DPMissing | x => x end); v_language := v_language v; v_cflag := v_cflag v; v_profile_generate := v_profile_generate v; v_outputs_gcno := v_outputs_gcno v; v_xclangs := v_xclangs v; v_color := v_color v; v_seen_arch := v_seen_arch v; v_dia := v_dia v; v_too_hard_pp := th |}.
Definition set_dep_provided v := {| v_output := v_output v; v_input := v_input v; v_dd_input := v_dd_input v; v_dep_targets := v_dep_targets v; v_extra_hash := v_extra_hash v; v_compilation := v_compilation v; v_multiple_input := v_multiple_input v; v_pedantic := v_pedantic v; v_lang_ext := v_lang_ext v; v_split_dwarf := v_split_dwarf v; v_need_dep_target := v_need_dep_target v; v_dep_path := DPProvided; v_language := v_language v; v_cflag := v_cflag v; v_profile_generate := v_profile_generate v; v_outputs_gcno := v_outputs_gcno v; v_xclangs := v_xclangs v; v_color := v_color v; v_seen_arch := v_seen_arch v; v_dia := v_dia v; v_too_hard_pp := v_too_hard_pp v |}.
Definition set_language x v := {| v_output := v_output v; v_input := v_input v; v_dd_input := v_dd_input v; v_dep_targets := v_dep_targets v; v_extra_hash := v_extra_hash v; v_compilation := v_compilation v; v_multiple_input := v_multiple_input v; v_pedantic := v_pedantic v; v_lang_ext := v_lang_ext v; v_split_dwarf := v_split_dwarf v; v_need_dep_target := v_need_dep_target v; v_dep_path := v_dep_path v; v_language := x; v_cflag := v_cflag v; v_profile_generate := v_profile_generate v; v_outputs_gcno := v_outputs_gcno v; v_xclangs := v_xclangs v; v_color := v_color v; v_seen_arch := v_seen_arch v; v_dia := v_dia v; v_too_hard_pp := v_too_hard_pp v |}.
Definition set_profile (pg gcno : bool) v := {| v_output := v_output v; v_input := v_input v; v_dd_input := v_dd_input v; v_dep_targets := v_dep_targets v; v_extra_hash := v_extra_hash v; v_compilation := v_compilation v; v_multiple_input := v_multiple_input v; v_pedantic := v_pedantic v; v_lang_ext := v_lang_ext v; v_split_dwarf := v_split_dwarf v; v_need_dep_target := v_need_dep_target v; v_dep_path := v_dep_path v; v_language := v_language v; v_cflag := v_cflag v; v_profile_generate := v_profile_generate v || pg; v_outputs_gcno := v_outputs_gcno v || gcno; v_xclangs := v_xclangs v; v_color := v_color v; v_seen_arch := v_seen_arch v; v_dia := v_dia v; v_too_hard_pp := v_too_hard_pp v |}.
Definition set_xclangs x v := {| v_output := v_output v; v_input := v_input v; v_dd_input := v_dd_input v; v_dep_targets := v_dep_targets v; v_extra_hash := v_extra_hash v; v_compilation := v_compilation v; v_multiple_input := v_multiple_input v; v_pedantic := v_pedantic v; v_lang_ext := v_lang_ext v; v_split_dwarf := v_split_dwarf v; v_need_dep_target := v_need_dep_target v; v_dep_path := v_dep_path v; v_language := v_language v; v_cflag := v_cflag v; v_profile_generate := v_profile_generate v; v_outputs_gcno := v_outputs_gcno v; v_xclangs := x; v_color := v_color v; v_seen_arch := v_seen_arch v; v_dia := v_dia v; v_too_hard_pp := v_too_hard_pp v |}.
Definition set_color x v := {| v_output := v_output v; v_input := v_input v; v_dd_input := v_dd_input v; v_dep_targets := v_dep_targets v; v_extra_hash := v_extra_hash v; v_compilation := v_compilation v; v_multiple_input := v_multiple_input v; v_pedantic := v_pedantic v; v_lang_ext := v_lang_ext v; v_split_dwarf := v_split_dwarf v; v_need_dep_target := v_need_dep_target v; v_dep_path := v_dep_path v; v_language := v_language v; v_cflag := v_cflag v; v_profile_generate := v_profile_generate v; v_outputs_gcno := v_outputs_gcno v; v_xclangs := v_xclangs v; v_color := x; v_seen_arch := v_seen_arch v; v_dia := v_dia v; v_too_hard_pp := v_too_hard_pp v |}.
Definition set_seen_arch x v := {| v_output := v_output v; v_input := v_input v; v_dd_input := v_dd_input v; v_dep_targets := v_dep_targets v; v_extra_hash := v_extra_hash v; v_compilation := v_compilation v; v_multiple_input := v_multiple_input v; v_pedantic := v_pedantic v; v_lang_ext := v_lang_ext v; v_split_dwarf := v_split_dwarf v; v_need_dep_target := v_need_dep_target v; v_dep_path := v_dep_path v; v_language := v_language v; v_cflag := v_cflag v; v_profile_generate := v_profile_generate v; v_outputs_gcno := v_outputs_gcno v; v_xclangs := v_xclangs v; v_color := v_color v; v_seen_arch := x; v_dia := v_dia v; v_too_hard_pp := v_too_hard_pp v |}.
Definition set_dia x v := {| v_output := v_output v; v_input := v_input v; v_dd_input := v_dd_input v; v_dep_targets := v_dep_targets v; v_extra_hash := v_extra_hash v; v_compilation := v_compilation v; v_multiple_input := v_multiple_input v; v_pedantic := v_pedantic v; v_lang_ext := v_lang_ext v; v_split_dwarf := v_split_dwarf v; v_need_dep_target := v_need_dep_target v; v_dep_path := v_dep_path v; v_language := v_language v; v_cflag := v_cflag v; v_profile_generate := v_profile_generate v; v_outputs_gcno := v_outputs_gcno v; v_xclangs := v_xclangs v; v_color := v_color v; v_seen_arch := v_seen_arch v; v_dia := x; v_too_hard_pp := v_too_hard_pp v |}.
Definition set_too_hard_pp x v := {| v_output := v_output v; v_input := v_input v; v_dd_input := v_dd_input v; v_dep_targets := v_dep_targets v; v_extra_hash := v_extra_hash v; v_compilation := v_compilation v; v_multiple_input := v_multiple_input v; v_pedantic := v_pedantic v; v_lang_ext := v_lang_ext v; v_split_dwarf := v_split_dwarf v; v_need_dep_target := v_need_dep_target v; v_dep_path := v_dep_path v; v_language := v_language v; v_cflag := v_cflag v; v_profile_generate := v_profile_generate v; v_outputs_gcno := v_outputs_gcno v; v_xclangs := v_xclangs v; v_color := v_color v; v_seen_arch := v_seen_arch v; v_dia := v_dia v; v_too_hard_pp := x |}.

(* ------------------------------------------------------------------ the main loop *)

Definition why := bytes.            (* the &'static str of CompilerArguments::CannotCache *)

Definition at_sign : N := 64.

(* `v.starts_with("@")` for separated / can-be-* values *)
Definition at_value (a : argument) : bool :=
  match a with
  | AWith _ _ v Separated | AWith _ _ v (CanBeConcatenated _) | AWith _ _ v (CanBeSeparated _) => starts_with [at_sign] v
  | _ => false
  end.

Definition is_dir (E : env) (arg : bytes) : bool :=
  match arg with [] => true | _ => mem_bytes arg (e_dirs E) end.

(* clang::resolve_profile_use_path *)
Definition resolve_profile_use_path (E : env) (arg : bytes) : bytes :=
  let path := path_join (e_cwd E) arg in
  if is_dir E arg then path_join path (bs "default.profdata") else path.

Definition color_of_value (v : bytes) : color :=
  if bytes_eqb v [] || bytes_eqb v (bs "always") then ColorOn
  else if bytes_eqb v (bs "never") then ColorOff
  else ColorAuto.

(* first `match arg.get_data()` of the loop (and the `@` check in front of it): everything except the lists *)
Definition effect_step (T : tables) (E : env) (v : vars) (a : argument) : vars + why :=
  if at_value a then inr [at_sign] else
  match a with
  | ARaw s =>
      if bytes_eqb s dashdash then
        inl (match v_input v with None => set_dd_input true v | Some _ => v end)
      else
        inl (set_input (Some s) (match v_input v with Some _ => true | None => v_multiple_input v end) v)
  | AUnknown _ => inl v
  | AFlag s c | AWith s c _ _ =>
      let val := match a with AWith _ _ x _ => x | _ => [] end in
      match c with
      | TooHardFlag | TooHard => inr s
      | PedanticFlag => inl (set_pedantic v)
      | Standard => inl (set_lang_ext (starts_with (bs "gnu") val) v)
      | SplitDwarf => inl (set_split_dwarf v)
      | DoCompilation => inl (set_compilation s v)
      | ProfileGenerate => inl (set_profile true false v)
      | ClangProfileUse => inl (set_extra_hash (v_extra_hash v ++ [resolve_profile_use_path E val]) v)
      | TestCoverage => inl (set_profile false true v)
      | Coverage => inl (set_profile true true v)
      | DiagnosticsColorFlag => inl (set_color ColorOn v)
      | NoDiagnosticsColorFlag => inl (set_color ColorOff v)
      | DiagnosticsColor => inl (set_color (color_of_value val) v)
      | Output => inl (set_output (Some val) v)
      | NeedDepTarget => inl (set_need_dep (Some s) v)
      | DepTarget => inl (set_dep_targets (v_dep_targets v ++ [(s, val)]) v)
      | DepArgumentPath => inl (set_dep_provided v)
      | SerializeDiagnostics => inl (set_dia (Some val) v)
      | Language =>
          match assoc val (t_xlang T) with
          | Some l => inl (set_language (Some l) v)
          | None => inr (bs "-x")
          end
      | Arch =>
          match v_seen_arch v with
          | Some s0 =>
              if negb (bytes_eqb s0 val) && negb (e_multiarch E)
              then inr (bs "multiple different -arch, and SCCACHE_CACHE_MULTIARCH not set")
              else inl (set_seen_arch (Some val) v)
          | None => inl (set_seen_arch (Some val) v)
          end
      | XClang => inl (set_xclangs (v_xclangs v ++ [val]) v)
      | ExtraHashFile | PassThroughFlag | PreprocessorArgumentFlag | PreprocessorArgument
      | PreprocessorArgumentPath | PassThrough | PassThroughPath | UnhashedFlag | Unhashed => inl v
      end
  end.

Definition arg_dest (T : tables) (a : argument) : dest * arm_effect :=
  match a with
  | ARaw _ => (DSkip, ENone)
  | AUnknown _ => (DCommon, ENone)
  | AFlag _ c | AWith _ c _ _ => t_main_dest T c
  end.

Definition a_value (a : argument) : bytes := match a with AWith _ _ x _ => x | _ => [] end.

Definition arm_effect_step (E : env) (eff : arm_effect) (a : argument) (v : vars) : vars :=
  match eff with
  | ENone => v
  | EExtraHash => set_extra_hash (v_extra_hash v ++ [path_join (e_cwd E) (a_value a)]) v
  | ETooHardPP =>
      set_too_hard_pp (match a_flag_str a with
                       | Some s => if bytes_eqb s (bs "-Xpreprocessor") || bytes_eqb s (bs "-Wp") then Some s
                                   else v_too_hard_pp v
                       | None => v_too_hard_pp v
                       end) v
  end.

Definition pst := (vars * lists)%type.

Definition main_step (T : tables) (E : env) (st : pst) (a : argument) : pst + why :=
  let '(v, l) := st in
  match effect_step T E v a with
  | inr w => inr w
  | inl v1 =>
      let '(d, eff) := arg_dest T a in
      match d with
      | DSkip => inl (v1, l)
      | DUnreachable => inl (v1, l)      (* never reached: effect_step returned for these constructors *)
      | _ => inl (arm_effect_step E eff a v1, push d (render_norm a) l)
      end
  end.

Fixpoint run_loop {S A} (step : S -> A -> S + why) (st : S) (al : list A) : S + why :=
  match al with
  | [] => inl st
  | a :: r => match step st a with inl st' => run_loop step st' r | inr w => inr w end
  end.

(* ------------------------------------------------------------------ the -Xclang loop *)

Definition xclang_word : bytes := bs "-Xclang".

Fixpoint interleave_xclang (ws : list bytes) : list bytes :=
  match ws with [] => [] | w :: r => xclang_word :: w :: interleave_xclang r end.

(* state: vars, lists, follows_plugin_arg *)
Definition xst := (vars * lists * bool)%type.

Definition x_step (T : tables) (E : env) (st : xst) (a : argument) : xst + why :=
  let '(v, l, fpa) := st in
  let fpa' := match a_flag_str a with Some s => bytes_eqb s (bs "-plugin-arg") | None => false end in
  let ws := interleave_xclang (render_norm a) in
  match a with
  | ARaw _ =>
      if fpa then inl (v, push DCommon ws l, fpa')
      else inr (bs "Can't handle Raw arguments with -Xclang")
  | AUnknown _ => inr (bs "Can't handle UnknownFlag arguments with -Xclang")
  | AFlag s c | AWith s c _ _ =>
      match t_x_dest T c with
      | (XCannotCache, _) => inr s
      | (XList d, eff) =>
          let v' := match eff with EExtraHash => arm_effect_step E eff a v | _ => v end in
          inl (v', push d ws l, fpa')
      end
  end.

(* ------------------------------------------------------------------ after the loops *)

Inductive artifact := Artifact (name : bytes) (path : bytes) (optional : bool).

Record parsed := {
  p_input : bytes;
  p_dd_input : bool;
  p_language : lang;
  p_cflag : bytes;
  p_outputs : list artifact;         (* sorted by name: dia, dwo, gcno, obj *)
  p_lists : lists;
  p_extra_hash : list bytes;
  p_profile_generate : bool;
  p_color : color;
  p_suppress_rewrite : bool;
  p_too_hard_pp : option bytes
}.

Inductive presult_args :=
| ROk (p : parsed)
| RCannotCache (w : why)
| RNotCompilation
| RPanic                 (* a panic of the real code; the model never produces it (kept for the codec) *)
| RFuel.                 (* model fuel exhausted; never happens with [tok_fuel] (see Proofs/Args.v) *)

Definition lang_of_file (T : tables) (p : bytes) : option lang :=
  match extension p with
  | Some e => assoc e (t_ext T)
  | None => None
  end.

Fixpoint dep_target_words (l : list (bytes * bytes)) : list bytes :=
  match l with [] => [] | (f, t) :: r => f :: t :: dep_target_words r end.

Definition finish (T : tables) (E : env) (v : vars) (l : lists) : presult_args :=
  if negb (v_compilation v) then RNotCompilation else
  if v_multiple_input v then RCannotCache (bs "multiple input files") else
  match v_input v with
  | None => RCannotCache (bs "no input file")
  | Some input =>
      let language :=
        match v_language v with
        | Some l => Some l
        | None =>
            match lang_of_file T input with
            | Some LC => if e_plusplus E then Some LCxx else Some LC
            | o => o
            end
        end in
      match language with
      | None => RCannotCache (bs "unknown source language")
      | Some lng =>
          let output_o :=
            match v_output v with
            | Some o => Some o
            | None => file_name (with_extension input (bs "o"))
            end in
          match output_o with
          | None => RCannotCache (bs "no output file name")
          | Some output =>
              let dwo := with_extension output (bs "dwo") in
              let l1 := if v_split_dwarf v then push DCommon [bs "-D_gsplit_dwarf_path=" ++ dwo] l else l in
              let o_dwo := if v_split_dwarf v then [Artifact (bs "dwo") dwo true] else [] in
              let suppress := match e_kind E with KGcc => v_lang_ext v && v_pedantic v | KClang => false end in
              let o_gcno := if v_outputs_gcno v then [Artifact (bs "gcno") (with_extension output (bs "gcno")) false] else [] in
              let pg := v_profile_generate v || v_outputs_gcno v in
              let l2 := if v_need_dep_target v
                        then push DDep (match v_dep_targets v with
                                        | [] => [bs "-MT"; output]
                                        | ts => dep_target_words ts
                                        end) l1
                        else l1 in
              let l3 := match v_dep_path v with
                        | DPMissing => push DDep [bs "-MF"; with_extension output (bs "d")] l2
                        | _ => l2
                        end in
              let o_dia := match v_dia v with Some p => [Artifact (bs "dia") p false] | None => [] end in
              ROk {| p_input := input; p_dd_input := v_dd_input v; p_language := lng; p_cflag := v_cflag v;
                     p_outputs := o_dia ++ o_dwo ++ o_gcno ++ [Artifact (bs "obj") output false];
                     p_lists := l3; p_extra_hash := v_extra_hash v; p_profile_generate := pg;
                     p_color := v_color v; p_suppress_rewrite := suppress; p_too_hard_pp := v_too_hard_pp v |}
          end
      end
  end.

Definition tokens_of (T : tables) (sel : tblsel) (dd : option bool) (fs : fsys) (ws : list bytes)
  : list argument * tok_end :=
  let lim := N.to_nat (t_expand_limit T) in
  tokenize (tok_fuel lim fs ws) T sel dd fs lim ws.

Definition parse_arguments (T : tables) (E : env) (argv : list bytes) : presult_args :=
  let sel := match e_kind E with KGcc => SelGcc | KClang => SelMerged end in
  let dd := match e_kind E with KGcc => None | KClang => Some false end in
  let '(al, te) := tokens_of T sel dd (e_files E) argv in
  match run_loop (main_step T E) (init_vars, empty_lists) al with
  | inr w => RCannotCache w
  | inl (v, l) =>
      match te with
      | TFuel => RFuel
      | TErrEnd => RCannotCache (bs "argument parse")
      | TEnd =>
          let '(xl, xe) := tokens_of T SelMerged None (e_files E) (v_xclangs v) in
          match run_loop (x_step T E) (v, l, false) xl with
          | inr w => RCannotCache w
          | inl (v2, l2, _) =>
              match xe with
              | TFuel => RFuel
              | TErrEnd => RCannotCache (bs "argument parse")
              | TEnd => finish T E v2 l2
              end
          end
      end
  end.

(* ------------------------------------------------------------------ the commands *)

Definition lang_arg (T : tables) (E : env) (l : lang) : option bytes :=
  match e_kind E with KGcc => t_lang_gcc T l | KClang => t_lang_clang T l end.

Definition obj_path (p : parsed) : option bytes :=
  let fix go (l : list artifact) :=
    match l with
    | [] => None
    | Artifact n path _ :: r => if bytes_eqb n (bs "obj") then Some path else go r
    end in
  go (p_outputs p).

(* generate_compile_commands, local SingleCompileCommand.arguments *)
Definition compile_command (T : tables) (E : env) (p : parsed) : list bytes :=
  let l := p_lists p in
  (match lang_arg T E (p_language p) with Some s => [bs "-x"; s] | None => [] end)
  ++ [p_cflag p; bs "-o"; match obj_path p with Some o => o | None => [] end]
  ++ l_pre l ++ l_dep l ++ l_unhashed l ++ l_common l ++ l_arch l
  ++ (if p_dd_input p then [dashdash] else [])
  ++ [p_input p].

Fixpoint nodup_bytes (l : list bytes) : list bytes :=
  match l with
  | [] => []
  | x :: r => if mem_bytes x r then nodup_bytes r else x :: nodup_bytes r
  end.

Record ppopts := {
  o_may_dist : bool;
  o_rewrite_includes_only : bool;
  o_ws_flags : list bytes          (* ignorable_whitespace_flags *)
}.

(* preprocess_cmd: the argument vector *)
Definition preprocess_command (T : tables) (E : env) (o : ppopts) (p : parsed) : list bytes :=
  let l := p_lists p in
  let rewritten := map (fun a => bs "-D__" ++ a ++ bs "__=1")
                       (filter (fun a => negb (bytes_eqb a (t_arch_flag T))) (l_arch l)) in
  let arch_to_use := if Nat.leb (length (nodup_bytes rewritten)) 1 then l_arch l else rewritten in
  (match lang_arg T E (p_language p) with Some s => [bs "-x"; s] | None => [] end)
  ++ [bs "-E"]
  ++ (if negb (o_may_dist o) && negb (p_profile_generate p) then o_ws_flags o else [])
  ++ (if o_rewrite_includes_only o && negb (p_suppress_rewrite p)
      then match e_kind E with KClang => [bs "-frewrite-includes"] | KGcc => [bs "-fdirectives-only"] end
      else [])
  ++ l_pre l ++ l_dep l ++ l_common l ++ arch_to_use
  ++ (if p_dd_input p then [dashdash] else [])
  ++ [p_input p].

(* ------------------------------------------------------------------ c.rs generate_hash_key: the argument vector of a key *)

(* what a key function receives as `arguments`, component by component; a filtered component is counted as
   contributing nothing (the predicate is Rust code), which is all the covering theorem needs *)
Definition key_words (spec : list keycomp) (p : parsed) (profile_out : option bytes) : list bytes :=
  flat_map (fun c => match c with
                     | KList d => get_list d (p_lists p)
                     | KFiltered _ _ => []
                     | KProfileOutput => match profile_out with Some o => [o] | None => [] end
                     | KCwd => []
                     end) spec.

(* ------------------------------------------------------------------ the environment of the compiler processes *)

(* std::process::Command: a child inherits the environment of the process that spawns it (here: the SERVER), overlaid
   with what `.envs(..)` adds, unless `.env_clear()` was called first *)
Definition envmap := list (bytes * bytes).

Definition env_has (k : bytes) (e : envmap) : bool := existsb (fun kv => bytes_eqb (fst kv) k) e.

Definition child_env (cleared : bool) (server client : envmap) : envmap :=
  if cleared then client
  else client ++ filter (fun kv => negb (env_has (fst kv) client)) server.
