(* Model/Args.v — executable model of sccache's gcc/clang argument handling:
     src/compiler/args.rs   ArgInfo::cmp, bsearch, the one- and two-table search, ArgInfo::process, ArgsIter::next,
                            Argument::normalize, Argument::iter_os_strings
     src/compiler/gcc.rs    ExpandIncludeFile, parse_arguments (main loop, -Xclang loop, the fix-ups after the loops),
                            preprocess_cmd, generate_compile_commands (local form)
   The tables and the constructor -> list maps are parameters (record [tables]); Gen/C01ArgTables.v instantiates them.
   Domain: argument words, file names and @-file contents are ASCII (bytes < 128): `to_string_lossy`, `to_str` and
   `read_to_string` are the identity there.  Not modelled: non-UTF-8 words, the dist command, path transformers. *)
From Coq Require Import List NArith Bool.
From Coq Require String.
Import String.StringSyntax.
From Sccache Require Import Base.Sx Model.ArgTypes.
Import ListNotations.
Local Open Scope N_scope.
Local Open Scope string_scope.

(* ------------------------------------------------------------------ tables *)

Record tables := {
  t_gcc : list arginfo;
  t_clang : list arginfo;
  t_main_dest : argdata -> dest * arm_effect;
  t_x_dest : argdata -> xdest * arm_effect;
  t_xlang : list (bytes * lang);
  t_ext : list (bytes * lang);
  t_lang_gcc : lang -> option bytes;
  t_lang_clang : lang -> option bytes;
  t_arch_flag : bytes
}.

(* ------------------------------------------------------------------ bytes *)

Fixpoint starts_with (p s : bytes) : bool :=
  match p, s with
  | [], _ => true
  | x :: p', y :: s' => N.eqb x y && starts_with p' s'
  | _ :: _, [] => false
  end.

(* lexicographic order on byte strings = Rust's `str::cmp` *)
Fixpoint bytes_cmp (a b : bytes) : comparison :=
  match a, b with
  | [], [] => Eq
  | [], _ :: _ => Lt
  | _ :: _, [] => Gt
  | x :: a', y :: b' => match N.compare x y with Eq => bytes_cmp a' b' | c => c end
  end.

Definition opt_N_eqb (a : option N) (b : N) : bool :=
  match a with Some x => N.eqb x b | None => false end.

Fixpoint assoc {A} (k : bytes) (l : list (bytes * A)) : option A :=
  match l with
  | [] => None
  | (k', v) :: r => if bytes_eqb k k' then Some v else assoc k r
  end.

Fixpoint mem_bytes (k : bytes) (l : list bytes) : bool :=
  match l with [] => false | x :: r => bytes_eqb k x || mem_bytes k r end.

(* ------------------------------------------------------------------ args.rs: search *)

(* ArgInfo::cmp: the entry compared WITH the argument (Gt = the entry sorts after the argument = search to the left).
   For delimiter entries the Rust code returns `arg[s.len()].cmp(&d)`, i.e. the comparison the other way round;
   that is modelled literally. *)
Definition info_cmp (i : arginfo) (arg : bytes) : comparison :=
  match i with
  | ITake s _ (CanBeSeparated None) _ | ITake s _ (Concatenated None) _ =>
      if starts_with s arg then Eq else bytes_cmp s arg
  | ITake s _ (CanBeSeparated (Some d)) _ | ITake s _ (Concatenated (Some d)) _ =>
      if Nat.ltb (length s) (length arg) && starts_with s arg
      then N.compare (nth (length s) arg 0) d
      else bytes_cmp s arg
  | _ => bytes_cmp (flag_str i) arg
  end.

Fixpoint bsearch (fuel : nat) (key : bytes) (items : list arginfo) : option arginfo :=
  match fuel with
  | O => None
  | S f =>
      match items with
      | [] => None
      | _ =>
          let middle := Nat.div (length items) 2 in
          match nth_error items middle with
          | None => None
          | Some m =>
              match info_cmp m key with
              | Eq =>
                  let after := if Nat.eqb (length items) 1 then None
                               else bsearch f key (skipn (S middle) items) in
                  match after with Some a => Some a | None => Some m end
              | Gt => bsearch f key (firstn middle items)
              | Lt => bsearch f key (skipn (S middle) items)
              end
          end
      end
  end.

Definition search1 (tbl : list arginfo) (key : bytes) : option arginfo :=
  bsearch (S (length tbl)) key tbl.

(* (&[ArgInfo], &[ArgInfo])::search: the second table complements or overrides the first *)
Definition search2 (t0 t1 : list arginfo) (key : bytes) : option arginfo :=
  match search1 t0 key, search1 t1 key with
  | None, None => None
  | Some a, None => Some a
  | None, Some b => Some b
  | Some a, Some b =>
      match bytes_cmp (flag_str a) (flag_str b) with Gt => Some a | _ => Some b end
  end.

Inductive tblsel := SelGcc | SelMerged.

Definition search (T : tables) (sel : tblsel) (key : bytes) : option arginfo :=
  match sel with
  | SelGcc => search1 (t_gcc T) key
  | SelMerged => search2 (t_gcc T) (t_clang T) key
  end.

(* SearchableArgInfo::check (a debug assertion in ArgsIter::new): strictly increasing flag spellings *)
Fixpoint sorted_strict (l : list arginfo) : bool :=
  match l with
  | a :: ((b :: _) as r) =>
      (match bytes_cmp (flag_str a) (flag_str b) with Lt => true | _ => false end) && sorted_strict r
  | _ => true
  end.

(* ------------------------------------------------------------------ args.rs: Argument, process *)

Inductive argument :=
| ARaw (s : bytes)
| AUnknown (s : bytes)
| AFlag (s : bytes) (c : argdata)
| AWith (s : bytes) (c : argdata) (v : bytes) (d : disp).

Definition a_flag_str (a : argument) : option bytes :=
  match a with AFlag s _ | AWith s _ _ _ => Some s | _ => None end.
Definition a_data (a : argument) : option argdata :=
  match a with AFlag _ c | AWith _ c _ _ => Some c | _ => None end.

(* result of ArgInfo::process: the parsed argument and whether `get_next_arg` was called *)
Inductive presult :=
| POk (a : argument) (consumed : bool)
| PEnd.                       (* Err(UnexpectedEndOfArgs) *)

Definition process_conc (s : bytes) (c : argdata) (d : option N) (arg : bytes) : bytes :=
  let len := length s in
  let len' := match d with
              | Some dd => if opt_N_eqb (nth_error arg len) dd then S len else len
              | None => len
              end in
  skipn len' arg.

Definition process (i : arginfo) (arg : bytes) (next : option bytes) : presult :=
  match i with
  | IFlag s c => POk (AFlag s c) false
  | ITake s _ Separated c =>
      match next with
      | Some a => POk (AWith s c a Separated) true
      | None => PEnd
      end
  | ITake s _ (Concatenated d) c => POk (AWith s c (process_conc s c d arg) (Concatenated d)) false
  | ITake s _ (CanBeSeparated d) c | ITake s _ (CanBeConcatenated d) c =>
      if bytes_eqb arg s then
        match next with
        | Some a => POk (AWith s c a (CanBeConcatenated d)) true
        | None =>
            match d with
            | None => POk (AWith s c [] (Concatenated d)) false
            | Some _ => PEnd
            end
        end
      else POk (AWith s c (process_conc s c d arg) (CanBeSeparated d)) false
  end.

(* Argument::normalize with the rule of parse_arguments: two-character flags are joined, longer ones split *)
Definition normalize (a : argument) : argument :=
  match a with
  | AWith s c v (CanBeConcatenated d) | AWith s c v (CanBeSeparated d) =>
      AWith s c v (if Nat.eqb (length s) 2 then Concatenated d else Separated)
  | _ => a
  end.

Definition iter_os_strings (a : argument) : list bytes :=
  match a with
  | ARaw s | AUnknown s => [s]
  | AFlag s _ => [s]
  | AWith s _ v (CanBeSeparated d) | AWith s _ v (Concatenated d) =>
      [s ++ (match d, v with Some c, _ :: _ => [c] | _, _ => [] end) ++ v]
  | AWith s _ v Separated | AWith s _ v (CanBeConcatenated _) => [s; v]
  end.

Definition render_norm (a : argument) : list bytes := iter_os_strings (normalize a).

(* ------------------------------------------------------------------ gcc.rs: ExpandIncludeFile *)

Definition fsys := list (bytes * bytes).     (* readable files in cwd: name -> content *)

Definition is_ws (c : N) : bool :=
  (N.leb 9 c && N.leb c 13) || N.eqb c 32.

(* str::split_whitespace *)
Fixpoint split_ws_go (cur : bytes) (s : bytes) : list bytes :=
  match s with
  | [] => match cur with [] => [] | _ => [rev cur] end
  | c :: r =>
      if is_ws c then match cur with [] => split_ws_go [] r | _ => rev cur :: split_ws_go [] r end
      else split_ws_go (c :: cur) r
  end.
Definition split_ws (s : bytes) : list bytes := split_ws_go [] s.

Definition has_quote (s : bytes) : bool := existsb (fun c => N.eqb c 34 || N.eqb c 39) s.

Inductive popres :=
| PopEnd
| PopFuel
| PopArg (a : bytes) (rest : list bytes).

(* ExpandIncludeFile::next; the stack is kept top-first.  An `@name` that cannot be read, or whose content holds a
   quote, is returned literally. *)
Fixpoint pop (fuel : nat) (fs : fsys) (stack : list bytes) : popres :=
  match fuel with
  | O => PopFuel
  | S f =>
      match stack with
      | [] => PopEnd
      | arg :: rest =>
          match arg with
          | 64 :: name =>
              match assoc name fs with
              | None => PopArg arg rest
              | Some content =>
                  if has_quote content then PopArg arg rest
                  else pop f fs (split_ws content ++ rest)
              end
          | _ => PopArg arg rest
          end
      end
  end.

(* ------------------------------------------------------------------ args.rs: ArgsIter *)

Inductive tok_end := TEnd | TErrEnd | TFuel.

Definition dashdash : bytes := [45; 45].

(* dd = seen_double_dashes: None for gcc, Some false/true for clang.
   Returns the parsed arguments up to the end / the first error. *)
Fixpoint tokenize (fuel : nat) (T : tables) (sel : tblsel) (dd : option bool) (fs : fsys)
         (stack : list bytes) : list argument * tok_end :=
  match fuel with
  | O => ([], TFuel)
  | S f =>
      match pop fuel fs stack with
      | PopEnd => ([], TEnd)
      | PopFuel => ([], TFuel)
      | PopArg arg rest =>
          let dd' := match dd with
                     | Some false => if bytes_eqb arg dashdash then Some true else dd
                     | _ => dd
                     end in
          match dd' with
          | Some true =>
              let '(l, e) := tokenize f T sel dd' fs rest in (ARaw arg :: l, e)
          | _ =>
              match search T sel arg with
              | None =>
                  let a := if starts_with [45] arg then AUnknown arg else ARaw arg in
                  let '(l, e) := tokenize f T sel dd' fs rest in (a :: l, e)
              | Some i =>
                  (* get_next_arg is only evaluated when process needs it; popping has no side effect otherwise *)
                  let nx := pop fuel fs rest in
                  match nx with
                  | PopFuel => ([], TFuel)
                  | _ =>
                      let next := match nx with PopArg a _ => Some a | _ => None end in
                      match process i arg next with
                      | PEnd => ([], TErrEnd)
                      | POk a consumed =>
                          let rest' := if consumed then match nx with PopArg _ r => r | _ => [] end else rest in
                          let '(l, e) := tokenize f T sel dd' fs rest' in (a :: l, e)
                      end
                  end
              end
          end
      end
  end.
