(* Startup.v — executable model of sccache's cold start: many clients race to
   reach / start the one server of an address.

   Anchors (read at the modelled commit):
     src/commands.rs  connect_or_start_server, run_server_process (unix), the
                      start-up notification socket, ServerStartup::{Ok,AddrInUse,TimedOut}
     src/client.rs    connect_to_server, connect_with_retry = retry(Fixed(500ms).take(10), connect):
                      ONE attempt plus one more per delay = 11 attempts
     src/server.rs    start_server: the three bind branches, notify_server_startup(..)? (a failed
                      notification makes the server EXIT, also after a successful bind)
     src/net.rs       lock_unix_socket_path (flock on <path>.lock) and LockedUnixListener: the lock file is owned
                      by the LISTENER, so it is held exactly as long as the server listens on the path

   Processes.  Client i (i < k) and the server it spawns, server i; every client spawns at most
   one server (connect_or_start_server is not a loop).  A schedule is a list of events
        EC i   client i performs its next atomic step          (blocked in CWait without mail: stutter)
        ES i   server i performs its next atomic step
        ET i   client i's start-up wait times out (SERVER_STARTUP_TIMEOUT), only while it waits
   and `exec` interprets it; "for all interleavings" is `forall sched`.

   Shared OS state (ASSUMED kernel semantics, not modelled further):
     name : what the address resolves to.  TCP port / abstract socket: free or bound, bind is
            exclusive and the name is released when the owner exits.  Unix socket PATH: a directory
            entry; `unlink` removes whatever is there (also a live server's socket, which keeps
            listening, unreachable); `bind` fails with EADDRINUSE iff the entry exists (live or
            stale); the entry survives its owner (stale: connect is refused).
     lock : holder of the flock on <path>.lock; released together with the holder's listening socket.  In this
            model a server stops listening only by exiting (`exit_server` closes the socket and releases the lock
            in one step); the other way a listener goes away — run() dropping it when the shutdown phase begins,
            the process living on until its in-flight requests are done — is Model/ServerLife.v's Draining phase,
            during which this server is, for the start-up race, the same as an exited one: not listening, not
            holding the lock (Model/ServerExit.v `arrival`, C20_late_client_cold_starts).
   `UdsPath false` is the start-up WITHOUT the lock (the code before the fix: finding S11),
   kept so that the defect stays a checked witness; `UdsPath true` is the code as it is now.  *)
From Coq Require Import List NArith Bool.
Import ListNotations.
Local Open Scope N_scope.

Inductive akind := Tcp | Abstract | UdsPath (locked : bool).

Inductive status := StOk | StInUse.

Inductive fail := FTimeout | FRetry.

Inductive cstate :=
| CNone                 (* no such client *)
| CInit                 (* about to connect_to_server *)
| CSpawn                (* connection refused / not found: about to spawn a server *)
| CWait                 (* run_server_process: waiting on the notification socket *)
| CRetry (delays : nat) (* connect_with_retry with this many delays left *)
| CDone (srv : N)       (* holds a connection to server srv *)
| CFail (why : fail).   (* bailed out *)

Inductive sstate :=
| SNone                 (* not spawned *)
| SStart                (* storage initialised, about to enter the bind branch *)
| SLocked               (* unix path: holds the lock, about to unlink *)
| SUnlinked             (* unix path: unlinked, about to bind *)
| SBound                (* listening, about to notify Ok *)
| SFail                 (* bind / lock failed with AddrInUse, about to notify *)
| SRunning              (* listening and serving *)
| SExited (was_bound : bool).

Inductive nstate := NFree | NStale | NBound (srv : N).

Inductive ev := EC (i : N) | ES (i : N) | ET (i : N).

Record st := mk {
  kind : akind;
  retries : nat;              (* number of delays of connect_with_retry (10 in the code) *)
  cl : N -> cstate;
  sv : N -> sstate;
  mbox : N -> option status;  (* what server i wrote to client i's notification socket *)
  name : nstate;
  lock : option N;
}.

Definition upd {A} (f : N -> A) (i : N) (x : A) : N -> A :=
  fun j => if j =? i then x else f j.

Definition listening (s : sstate) : bool :=
  match s with SBound | SRunning => true | _ => false end.

(* the server a connect() to the address reaches, if any *)
Definition listener (s : st) : option N :=
  match name s with
  | NBound j => if listening (sv s j) then Some j else None
  | _ => None
  end.

Definition set_cl (s : st) i c := mk (kind s) (retries s) (upd (cl s) i c) (sv s) (mbox s) (name s) (lock s).
Definition set_sv (s : st) i x := mk (kind s) (retries s) (cl s) (upd (sv s) i x) (mbox s) (name s) (lock s).
Definition set_mbox (s : st) i m := mk (kind s) (retries s) (cl s) (sv s) (upd (mbox s) i (Some m)) (name s) (lock s).
Definition set_name (s : st) n := mk (kind s) (retries s) (cl s) (sv s) (mbox s) n (lock s).
Definition set_lock (s : st) l := mk (kind s) (retries s) (cl s) (sv s) (mbox s) (name s) l.

Definition released (k : akind) : nstate :=
  match k with UdsPath _ => NStale | _ => NFree end.

Definition lock_is (s : st) (i : N) : bool :=
  match lock s with Some j => j =? i | None => false end.

Definition name_is (s : st) (i : N) : bool :=
  match name s with NBound j => j =? i | _ => false end.

(* the server stops listening (here: process exit): the listening socket closes and, with it, the lock is released *)
Definition exit_server (s : st) (i : N) : st :=
  let b := listening (sv s i) in
  let s1 := if name_is s i then set_name s (released (kind s)) else s in
  let s2 := if lock_is s1 i then set_lock s1 None else s1 in
  set_sv s2 i (SExited b).

Definition waiting (s : st) (i : N) : bool :=
  match cl s i with CWait => true | _ => false end.

(* notify_server_startup(status)?  — connects to the spawning client's socket, which exists only
   while that client is still inside run_server_process *)
Definition notify (s : st) (i : N) (m : status) : option st :=
  if waiting s i then Some (set_mbox s i m) else None.

Definition step_client (s : st) (i : N) : st :=
  match cl s i with
  | CInit =>
      match listener s with
      | Some j => set_cl s i (CDone j)
      | None => set_cl s i CSpawn
      end
  | CSpawn => set_cl (set_sv s i SStart) i CWait
  | CWait =>
      match mbox s i with
      | Some _ => set_cl s i (CRetry (retries s))   (* Ok and AddrInUse both go on to connect_with_retry *)
      | None => s
      end
  | CRetry n =>
      match listener s with
      | Some j => set_cl s i (CDone j)
      | None => match n with
                | O => set_cl s i (CFail FRetry)
                | S n' => set_cl s i (CRetry n')
                end
      end
  | _ => s
  end.

Definition step_bind (s : st) (i : N) (free : bool) : st :=
  if free then set_sv (set_name s (NBound i)) i SBound else set_sv s i SFail.

Definition step_server (s : st) (i : N) : st :=
  match sv s i with
  | SStart =>
      match kind s with
      | Tcp | Abstract => step_bind s i (match listener s with None => true | Some _ => false end)
      | UdsPath false => set_sv (set_name s NFree) i SUnlinked
      | UdsPath true =>
          match lock s with
          | None => set_sv (set_lock s (Some i)) i SLocked
          | Some _ => set_sv s i SFail
          end
      end
  | SLocked => set_sv (set_name s NFree) i SUnlinked
  | SUnlinked => step_bind s i (match name s with NFree => true | _ => false end)
  | SBound =>
      match notify s i StOk with
      | Some s' => set_sv s' i SRunning
      | None => exit_server s i
      end
  | SFail =>
      match notify s i StInUse with
      | Some s' => exit_server s' i
      | None => exit_server s i
      end
  | _ => s
  end.

Definition step (s : st) (e : ev) : st :=
  match e with
  | EC i => step_client s i
  | ES i => step_server s i
  | ET i => if waiting s i then set_cl s i (CFail FTimeout) else s
  end.

Definition exec (s : st) (sched : list ev) : st := fold_left step sched s.

Definition init (k : akind) (r : nat) (n : N) (stale : bool) : st :=
  mk k r (fun i => if i <? n then CInit else CNone) (fun _ => SNone) (fun _ => None)
     (match k with UdsPath _ => if stale then NStale else NFree | _ => NFree end) None.

(* ---------- what can still move ---------- *)

Definition client_enabled (s : st) (i : N) : bool :=
  match cl s i with
  | CInit | CSpawn | CRetry _ => true
  | CWait => match mbox s i with Some _ => true | None => false end
  | _ => false
  end.

Definition server_enabled (s : st) (i : N) : bool :=
  match sv s i with
  | SStart | SLocked | SUnlinked | SBound | SFail => true
  | _ => false
  end.

(* nothing is left to do, except for timers that could still expire *)
Definition quiescent (s : st) : Prop :=
  forall i, client_enabled s i = false /\ server_enabled s i = false.

(* the decidable form, for the clients 0 .. n-1 (processes >= n never exist) *)
Definition ids (n : N) : list N := map N.of_nat (seq 0 (N.to_nat n)).

Definition quiescentb (n : N) (s : st) : bool :=
  forallb (fun i => negb (client_enabled s i) && negb (server_enabled s i)) (ids n).

(* ---------- observations used by Run/C20.v and by the monitors ---------- *)

Definition live (x : sstate) : bool :=
  match x with SNone | SExited _ => false | _ => true end.

Definition ev_label (s : st) (e : ev) : N :=
  (* outcome of the step, as the real processes log it:
       client: 1 connect ok, 2 connect refused, 3 spawned, 4 got Ok, 5 got AddrInUse, 6 retry failed,
               7 gave up, 8 start-up timed out, 0 nothing (stutter)
       server: 10 bound, 11 AddrInUse (bind), 12 lock taken, 13 AddrInUse (lock), 14 unlinked,
               15 notified, 16 notification failed (exits), 0 nothing *)
  match e with
  | EC i =>
      match cl s i with
      | CInit => match listener s with Some _ => 1 | None => 2 end
      | CSpawn => 3
      | CWait => match mbox s i with Some StOk => 4 | Some StInUse => 5 | None => 0 end
      | CRetry n => match listener s with Some _ => 1 | None => match n with O => 7 | _ => 6 end end
      | _ => 0
      end
  | ES i =>
      match sv s i with
      | SStart =>
          match kind s with
          | Tcp | Abstract => match listener s with None => 10 | Some _ => 11 end
          | UdsPath false => 14
          | UdsPath true => match lock s with None => 12 | Some _ => 13 end
          end
      | SLocked => 14
      | SUnlinked => match name s with NFree => 10 | _ => 11 end
      | SBound | SFail => if waiting s i then 15 else 16
      | _ => 0
      end
  | ET i => if waiting s i then 8 else 0
  end.
