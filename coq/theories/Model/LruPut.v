(* LruPut.v — the caller protocol of the disk cache on top of Model/Lru.v:
   DiskCache::put and DiskCache::put_preprocessor_cache_entry (src/cache/disk.rs), which store an
   entry in three steps under two separate lock acquisitions:
       prepare_add (reserve)  ->  write the data into the temp file  ->  commit | abandon.
   Modelled literally, including what happens when the write fails:
     - put:    `if let Err(e) = f.as_file_mut().write_all(&v) { lru.abandon(f); return Err(e) }`
     - put_pp: `serialize_to(BufWriter::new(f.as_file_mut()))?`  — the entry is merely DROPPED
               (LruDiskCacheAddEntry's drop removes the temp file and keeps the reservation; the
               reservation is 0 bytes there).
   The write fault is an oracle: [fault = Some m] = the write fails after m bytes (disk full, quota, EFBIG). *)
From Coq Require Import List NArith Bool.
From Sccache Require Import Base.Sx Model.Lru.
Import ListNotations.
Local Open Scope N_scope.

(* drop of an uncommitted LruDiskCacheAddEntry without abandon(): the temp file goes, the reservation stays *)
Definition drop_entry (s : st) (h : N) : st :=
  set_handles s (hremove h (handles s)) (next_h s).

Inductive pres := POk | PRefused (r : res) | PWriteErr | PCommitErr (r : res).

(* DiskCache::put; n = v.len() after entry.finish() *)
Definition put (s : st) (k : key) (n : N) (fault : option N) : st * pres :=
  let h := next_h s in
  let '(s1, r) := prepare_add s k n in
  match r with
  | ROk =>
      match fault with
      | Some m => let s2 := fst (write_tmp s1 h m) in (fst (abandon s2 h), PWriteErr)
      | None =>
          let s2 := fst (write_tmp s1 h n) in
          let '(s3, r3, _) := commit s2 h in
          (s3, match r3 with ROk => POk | _ => PCommitErr r3 end)
      end
  | _ => (s1, PRefused r)
  end.

(* DiskCache::put_preprocessor_cache_entry (on the preprocessor store's own LruDiskCache);
   n = serialised length *)
Definition put_pp (s : st) (k : key) (n : N) (fault : option N) : st * pres :=
  let h := next_h s in
  let '(s1, r) := prepare_add s k 0 in
  match r with
  | ROk =>
      match fault with
      | Some m => let s2 := fst (write_tmp s1 h m) in (drop_entry s2 h, PWriteErr)
      | None =>
          let s2 := fst (write_tmp s1 h n) in
          let '(s3, r3, _) := commit s2 h in
          (s3, match r3 with ROk => POk | _ => PCommitErr r3 end)
      end
  | _ => (s1, PRefused r)
  end.

Inductive dop :=
| DPut (k : key) (n : N) (fault : option N)
| DPutPp (k : key) (n : N) (fault : option N)
| DGet (k : key).

Inductive dout := DP (r : pres) | DG (r : res).

Definition dstep (s : st) (o : dop) : st * dout :=
  match o with
  | DPut k n f => let '(s', r) := put s k n f in (s', DP r)
  | DPutPp k n f => let '(s', r) := put_pp s k n f in (s', DP r)
  | DGet k => let '(s', r, _) := get s k in (s', DG r)
  end.

Definition drun (s : st) (ops : list dop) : st := fold_left (fun s o => fst (dstep s o)) ops s.

Fixpoint dtrace (s : st) (ops : list dop) : list (dout * st) :=
  match ops with
  | [] => []
  | o :: r => let '(s', x) := dstep s o in (x, s') :: dtrace s' r
  end.
