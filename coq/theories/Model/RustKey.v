(* RustKey.v — executable model of the cache-key pre-image of a rustc compile
   (`RustHasher::generate_hash_key` in src/compiler/rust.rs): the exact byte string fed to the BLAKE3 digest.

   The ORDER of the components and every constant in them (`hash_spec`, `cache_version`, the excluded / sorted
   argument names, the argument terminator, the env-dep markers, the CARGO_* filter) are not written here: they
   come from Gen/C05HashSpec.v, which the translator regenerates from the `m.update(..)` / `.hash(..)`
   statements of the function on every run.  What is written here is the meaning of each component:

     HCacheVersion   CACHE_VERSION
     HShlibDigests   the digests of the shared libraries of the compiler's sysroot, concatenated
     HArguments      OsStr::hash of ONE string: the arguments as (flag, value) pairs, minus the excluded flags
                     (--extern, -L, --out-dir; --target when it names a json file), the `--cfg` pairs sorted and
                     moved to the end, each flag and each value followed by `arg_terminator` — which is EMPTY in
                     the code as it is: the pieces are concatenated without any delimiter, so the string does
                     not determine them (finding C05-S22, recorded; a terminator cannot be added without
                     changing the pre-image pinned by the existing unit test test_generate_hash_key)
     HFileDigests    the digests of: the source files of dep-info (sorted by path), the --extern files (sorted by
                     path), the static libraries, the target json file — concatenated, no counts
     HEnvDeps        sorted `# env-dep` entries: hash(var) then `=` hash(value) for a set variable, the unset
                     marker for an unset one
     HCargoEnv       sorted environment minus RUSTC_COLOR, only CARGO_* minus CARGO_MAKEFLAGS/CARGO_REGISTRIES_*:
                     hash(var) `=` hash(value)
     HCwd            Hash for Path of the working directory
     HRustcVersion   Hash for String of `rustc -vV`
   plus the list of outputs (file names from `rustc --print file-names` with the rmeta / dep-info fix-ups). *)
From Coq Require Import List NArith Bool.
From Coq Require String.
Import String.StringSyntax.
From Sccache Require Import Base.Sx Model.RustPath Model.DepInfo Model.RustArgs Gen.C05HashSpec.
Import ListNotations.
Local Open Scope N_scope.

Definition pair := (bytes * option bytes)%type.

Record hreq : Type := {
  h_shlibs : list bytes;                  (* hex digests *)
  h_args : list pair;                     (* os_string_arguments *)
  h_target_json : bool;                   (* target_json.is_some() *)
  h_src : list bytes;                     (* digests, in the order of the sorted source paths *)
  h_ext : list bytes;
  h_static : list bytes;
  h_tjson : list bytes;
  h_env_deps : list pair;                 (* as parsed, unsorted *)
  h_env : list (bytes * bytes);           (* the client's environment *)
  h_cwd : bytes;
  h_version : bytes
}.

(* ---------- orders used by the `.sort()` calls ---------- *)

Definition opt_cmp (a b : option bytes) : comparison :=
  match a, b with
  | None, None => Eq
  | None, Some _ => Lt
  | Some _, None => Gt
  | Some x, Some y => bytes_cmp x y
  end.

Definition pair_cmp (a b : pair) : comparison :=
  match bytes_cmp (fst a) (fst b) with
  | Eq => opt_cmp (snd a) (snd b)
  | c => c
  end.

Definition pair_leb (a b : pair) : bool := match pair_cmp a b with Gt => false | _ => true end.

Definition kv_cmp (a b : bytes * bytes) : comparison :=
  match bytes_cmp (fst a) (fst b) with
  | Eq => bytes_cmp (snd a) (snd b)
  | c => c
  end.

Definition kv_leb (a b : bytes * bytes) : bool := match kv_cmp a b with Gt => false | _ => true end.

(* ---------- component 3: the argument string ---------- *)

Definition name_in (l : list bytes) (p : pair) : bool := existsb (beq (fst p)) l.

Definition hashed_args (target_json : bool) (args : list pair) : list pair :=
  filter (fun p => negb target_json || negb (name_in arg_excluded_if_target_json p))
         (filter (fun p => negb (name_in arg_excluded p)) args).

(* `partition` then `rest.chain(sorted sortables)` *)
Definition ordered_args (target_json : bool) (args : list pair) : list pair :=
  let h := hashed_args target_json args in
  filter (fun p => negb (name_in arg_sorted_last p)) h
  ++ stable_sort pair_leb (filter (name_in arg_sorted_last) h).

Definition pieces_of (p : pair) : list bytes :=
  fst p :: match snd p with Some v => [v] | None => [] end.

Definition arg_pieces (target_json : bool) (args : list pair) : list bytes :=
  flat_map pieces_of (ordered_args target_json args).

Definition terminated (term : bytes) (pieces : list bytes) : bytes :=
  flat_map (fun piece => piece ++ term) pieces.

Definition arg_string (target_json : bool) (args : list pair) : bytes :=
  terminated arg_terminator (arg_pieces target_json args).

(* ---------- components 8a / 8b: environment ---------- *)

Definition enc_env_dep (p : pair) : bytes :=
  os_hash (fst p) ++
  match snd p with
  | Some v => env_dep_set_marker ++ os_hash v
  | None =>
      match env_dep_unset_marker with
      | Some m => m
      | None => env_dep_set_marker ++ os_hash []      (* before the fix: unset was hashed as the value "" *)
      end
  end.

Definition sorted_env_deps (l : list pair) : list pair := stable_sort pair_leb l.

Definition cargo_hashed (kv : bytes * bytes) : bool :=
  starts_with cargo_prefix (fst kv)
  && negb (existsb (beq (fst kv)) cargo_skip_exact)
  && negb (existsb (fun p => starts_with p (fst kv)) cargo_skip_prefix).

Definition cargo_env (env : list (bytes * bytes)) : list (bytes * bytes) :=
  filter cargo_hashed
         (stable_sort kv_leb (filter (fun kv => negb (existsb (beq (fst kv)) env_dropped)) env)).

Definition enc_cargo (kv : bytes * bytes) : bytes :=
  os_hash (fst kv) ++ cargo_separator ++ os_hash (snd kv).

(* both lists use the same entry format and nothing marks where the first ends: what the pre-image determines
   is their concatenation *)
Definition env_entries (r_env_deps : list pair) (env : list (bytes * bytes)) : list pair :=
  sorted_env_deps r_env_deps ++ map (fun kv => (fst kv, Some (snd kv))) (cargo_env env).

(* ---------- the pre-image ---------- *)

Definition group_digests (r : hreq) (g : digest_group) : list bytes :=
  match g with
  | DSource => h_src r
  | DExtern => h_ext r
  | DStaticlib => h_static r
  | DTargetJson => h_tjson r
  end.

Definition enc_comp (r : hreq) (c : hcomp) : bytes :=
  match c with
  | HCacheVersion => cache_version
  | HShlibDigests => concat (h_shlibs r)
  | HArguments => os_hash (arg_string (h_target_json r) (h_args r))
  | HFileDigests gs => concat (flat_map (group_digests r) gs)
  | HEnvDeps => flat_map enc_env_dep (sorted_env_deps (h_env_deps r))
  | HCargoEnv => flat_map enc_cargo (cargo_env (h_env r))
  | HCwd => path_hash (h_cwd r)
  | HRustcVersion => str_hash (h_version r)
  end.

Definition encode_with (spec : list hcomp) (r : hreq) : bytes := flat_map (enc_comp r) spec.

Definition encode (r : hreq) : bytes := encode_with hash_spec r.

(* the pre-image of `weak_toolchain_key` *)
Definition encode_weak (r : hreq) : bytes := encode_with (firstn weak_key_after hash_spec) r.

(* ---------- the observation of the `key` leg: everything before the (cwd, version) tail ---------- *)

Definition is_tail_comp (c : hcomp) : bool :=
  match c with HCwd | HRustcVersion => true | _ => false end.

Definition spec_prefix : list hcomp := filter (fun c => negb (is_tail_comp c)) hash_spec.

Definition tail_is_last : bool :=
  match rev hash_spec with
  | HRustcVersion :: HCwd :: before => forallb (fun c => negb (is_tail_comp c)) before
  | _ => false
  end.

(* ---------- outputs (generate_hash_key, after the key) ---------- *)

Definition ends_with (suffix s : bytes) : bool :=
  if Nat.ltb (length s) (length suffix) then false
  else beq (skipn (Nat.sub (length s) (length suffix)) s) suffix.

(* str::replacen(from, to, 1) *)
Fixpoint replace_first (from to s : bytes) : bytes :=
  match s with
  | [] => match from with [] => to | _ => [] end
  | c :: r => if starts_with from s then to ++ skipn (length from) s else c :: replace_first from to r
  end.

Local Open Scope string_scope.

Record output : Type := { o_key : bytes; o_path : bytes; o_optional : bool }.

Fixpoint out_insert (o : output) (l : list output) : list output :=
  match l with
  | [] => [o]
  | x :: r =>
      match bytes_cmp (o_key o) (o_key x) with
      | Lt => o :: x :: r
      | Eq => o :: r
      | Gt => x :: out_insert o r
      end
  end.

Definition outputs_of (p : parsed) (filenames : list bytes) : list output :=
  let emit := p_emit p in
  let has e := set_mem (bs e) emit in
  let only_meta := negb (match emit with [] => true | _ => false end)
                   && forallb (fun e => beq e (bs "metadata") || beq e (bs "dep-info")) emit in
  let o1 := if only_meta then filter (fun o => ends_with (bs ".rlib") o || ends_with (bs ".rmeta") o) filenames
            else filenames in
  let o2 :=
    if has "metadata" then
      fold_left
        (fun outs lib =>
           let rmeta := replace_first (bs ".rlib") (bs ".rmeta") lib in
           let outs := if existsb (beq rmeta) outs then outs else outs ++ [rmeta] in
           if has "link" then outs else filter (fun x => negb (beq x lib)) outs)
        (set_of (filter (ends_with (bs ".rlib")) o1)) o1
    else o1 in
  let base := fold_left (fun acc o => out_insert {| o_key := o; o_path := path_join (p_output_dir p) o;
                                                    o_optional := false |} acc) o2 [] in
  let add (opt : bool) (x : option bytes) (acc : list output) :=
    match x with
    | Some n => out_insert {| o_key := n; o_path := path_join (p_output_dir p) n; o_optional := opt |} acc
    | None => acc
    end in
  add true (p_gcno p) (add true (p_profile p) (add false (p_dep_info p) base)).

(* ---------- well-formedness of a request, for the injectivity theorem ---------- *)

Definition is_hex (c : N) : bool := in_range 48 57 c || in_range 97 102 c.

(* util::hex of a BLAKE3 output: 64 characters of [0-9a-f] *)
Definition is_digest (d : bytes) : bool := Nat.eqb (length d) 64 && forallb is_hex d.

(* shorter than 2^56 bytes *)
Definition small (s : bytes) : bool := N.of_nat (length s) <? 72057594037927936.

Definition pair_small (p : pair) : bool :=
  small (fst p) && match snd p with Some v => small v | None => true end.

(* the last two components as one opaque string: Hash for Path is not an injective encoding *)
Definition tail_of (r : hreq) : bytes := path_hash (h_cwd r) ++ str_hash (h_version r).

Definition digest_start (t : bytes) : bool := Nat.leb 64 (length t) && forallb is_hex (firstn 64 t).

(* the tail can be told from a digest and from an environment entry: its 8th byte is not NUL (the working directory
   has at least 8 bytes of component names) and its first 64 bytes are not all hex digits *)
Definition tail_ok (t : bytes) : bool :=
  Nat.leb 8 (length t) && negb (nth 7 t 0 =? 0) && negb (digest_start t).

Definition all_digests (r : hreq) : list bytes := h_src r ++ h_ext r ++ h_static r ++ h_tjson r.

Definition req_entries (r : hreq) : list pair := env_entries (h_env_deps r) (h_env r).

Definition req_arg_string (r : hreq) : bytes := arg_string (h_target_json r) (h_args r).

Definition req_wf (r : hreq) : bool :=
  forallb is_digest (h_shlibs r) && forallb is_digest (all_digests r)
  && small (req_arg_string r) && forallb pair_small (req_entries r) && tail_ok (tail_of r).

Definition pieces_nul_free (ps : list bytes) : bool := forallb (forallb (fun c => negb (c =? 0))) ps.

(* ---------- component 2: which files of <sysroot>/lib stand for "the compiler itself" (Rust::new) ---------- *)

Inductive fkind : Type :=
| KFile            (* a regular file *)
| KDir
| KSymFile         (* a symbolic link that resolves to a regular file *)
| KSymDir
| KSymDangling
| KOther.

(* `(t.is_file() || t.is_symlink() && p.is_file()) && p.extension() == DLL_EXTENSION`: DirEntry::file_type does not
   follow links, Path::is_file does *)
Definition resolves_to_file (k : fkind) : bool := match k with KFile | KSymFile => true | _ => false end.

Definition is_shlib (e : bytes * fkind) : bool := resolves_to_file (snd e) && extension_is (bs "so") (fst e).

(* the files whose digests are `compiler_shlibs_digests`, in the order they are hashed (libs.sort()) *)
Definition sysroot_libs (libdir : bytes) (entries : list (bytes * fkind)) : list bytes :=
  sort_paths (map (fun e => path_join libdir (fst e)) (filter is_shlib entries)).

(* ---------- the preliminary `rustc ... --emit dep-info` run (source files and env-deps come from it) ---------- *)

Definition depinfo_dropped : list bytes := [bs "--emit"; bs "--out-dir"].

(* `filtered_arguments`: every (flag, value) pair of the request except --emit and --out-dir, flattened; rustc must
   expand the crate exactly as the real compile does (cfg(debug_assertions) follows -C opt-level, --cfg, --target ...) *)
Definition depinfo_args (args : list pair) : list bytes :=
  flat_map pieces_of (filter (fun p => negb (name_in depinfo_dropped p)) args).

(* ---------- static libraries: what hash_regular_archive feeds to the digest ---------- *)

(* every member in ARCHIVE order, name then data (headers, dates, modes are skipped; members of one name all count) *)
Definition archive_preimage (members : list (bytes * bytes)) : bytes :=
  flat_map (fun m => fst m ++ snd m) members.
