(* Model/DistRustInputs.v — C13: which dependency rlibs the Rust inputs packager sends trimmed to their metadata.
   Anchors: src/compiler/rust.rs
     ArgCrateTypes::process           one `--crate-type` value: split at ',', "lib"|"rlib" => rlib, "staticlib" => staticlib,
                                      anything else => others
     parse_arguments                  for each option in order: others non-empty => cannot_cache!("crate-type");
                                      crate_types.rlib |= rlib; crate_types.staticlib |= staticlib;
                                      afterwards neither set => cannot_cache!("No crate-type passed")
     RustInputsPackager::write_inputs can_trim_rlibs = matches!(crate_types, CrateTypes { rlib: true, staticlib: false });
                                      per input: can_trim_rlibs && can_trim_this(path) and a metadata member exists => an ar
                                      archive holding only that member; otherwise the file as it is
     can_trim_this                    extension is "rlib" and no file with the same stem and extension "a" exists *)
From Coq Require Import List Bool.
Import ListNotations.

Inductive cty := TLib | TRlib | TStaticlib | TBin | TDylib | TCdylib | TProcMacro.

(* producing this crate type reads object code out of the dependency rlibs *)
Definition needs_object_code (t : cty) : bool :=
  match t with TLib | TRlib => false | _ => true end.

Record ctypes := { c_rlib : bool; c_staticlib : bool }.

Definition is_rlib (t : cty) : bool := match t with TLib | TRlib => true | _ => false end.
Definition is_staticlib (t : cty) : bool := match t with TStaticlib => true | _ => false end.
Definition is_other (t : cty) : bool := negb (is_rlib t) && negb (is_staticlib t).

(* the options in command-line order, each a comma-separated value; None = cannot cache (never distributed) *)
Fixpoint parse_opts (opts : list (list cty)) (acc : ctypes) : option ctypes :=
  match opts with
  | [] => Some acc
  | v :: rest =>
      if existsb is_other v then None
      else parse_opts rest {| c_rlib := c_rlib acc || existsb is_rlib v;
                              c_staticlib := c_staticlib acc || existsb is_staticlib v |}
  end.

Definition crate_types (opts : list (list cty)) : option ctypes :=
  match parse_opts opts {| c_rlib := false; c_staticlib := false |} with
  | Some c => if c_rlib c || c_staticlib c then Some c else None
  | None => None
  end.

Definition can_trim_rlibs (c : ctypes) : bool := c_rlib c && negb (c_staticlib c).

Inductive sent := Complete | Trimmed | Missing.

(* one dependency rlib: has a sibling lib*.a; has a metadata member (`rust.metadata.bin` or `lib.rmeta`).
   `send_rlib_orig` is the tree before `fix: dist: send dependency rlibs whose metadata member is lib.rmeta ...`:
   only `rust.metadata.bin` (legacy = true) was recognised and an rlib without it was left out of the archive. *)
Definition send_rlib (c : ctypes) (sibling_a has_metadata : bool) : sent :=
  if can_trim_rlibs c && negb sibling_a && has_metadata then Trimmed else Complete.

Definition send_rlib_orig (c : ctypes) (sibling_a legacy_member : bool) : sent :=
  if can_trim_rlibs c && negb sibling_a
  then (if legacy_member then Trimmed else Missing)
  else Complete.

Definition packaged (opts : list (list cty)) (sibling_a has_metadata : bool) : option sent :=
  match crate_types opts with
  | Some c => Some (send_rlib c sibling_a has_metadata)
  | None => None
  end.
