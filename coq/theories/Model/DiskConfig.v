(* DiskConfig.v — executable model of how sccache arrives at the effective local-disk-cache
   configuration (src/config.rs): the `[cache.disk]` section of the config file (serde defaults
   for absent keys), the four environment variables SCCACHE_DIR / SCCACHE_CACHE_SIZE /
   SCCACHE_DIRECT / SCCACHE_LOCAL_RW_MODE with their parsers, and the merge
   `DiskCacheEnvConfig::apply_to`: each variable overrides only its own setting (after the fix
   for S20; before it ANY of the four variables replaced the whole file section by defaults). *)
From Coq Require Import List NArith Bool.
From Sccache Require Import Base.Sx.
Import ListNotations.
Local Open Scope N_scope.

Inductive mode := ReadOnly | ReadWrite.

Record ppcfg := {
  pp_use : bool;            (* use_preprocessor_cache_mode *)
  pp_stat : bool;           (* file_stat_matches *)
  pp_ctime : bool;          (* use_ctime_for_stat *)
  pp_ignore_time : bool;    (* ignore_time_macros *)
  pp_skip_sys : bool;       (* skip_system_headers *)
  pp_hash_wd : bool         (* hash_working_directory *)
}.

(* impl Default for PreprocessorCacheModeConfig *)
Definition pp_default : ppcfg :=
  {| pp_use := false; pp_stat := false; pp_ctime := true; pp_ignore_time := false;
     pp_skip_sys := false; pp_hash_wd := true |}.
(* PreprocessorCacheModeConfig::activated() *)
Definition pp_activated : ppcfg :=
  {| pp_use := true; pp_stat := false; pp_ctime := true; pp_ignore_time := false;
     pp_skip_sys := false; pp_hash_wd := true |}.

Definition ten_gigs : N := 10737418240.

Record diskcfg := {
  c_dir : option (list N);    (* None = default_disk_cache_dir() *)
  c_size : N;
  c_pp : ppcfg;
  c_mode : mode
}.

(* impl Default for DiskCacheConfig *)
Definition disk_default : diskcfg :=
  {| c_dir := None; c_size := ten_gigs; c_pp := pp_activated; c_mode := ReadWrite |}.

(* ---------- the file section ---------- *)

Record fpp := {
  f_use : option bool; f_stat : option bool; f_ctime : option bool;
  f_ignore_time : option bool; f_skip_sys : option bool; f_hash_wd : option bool
}.

Record fdisk := {
  f_dir : option (list N);
  f_size : option N;
  f_mode : option mode;
  f_pp : option fpp           (* [cache.disk.preprocessor_cache_mode] present? *)
}.

Definition or_default {A} (o : option A) (d : A) : A := match o with Some a => a | None => d end.

(* #[serde(default)] on PreprocessorCacheModeConfig: absent keys come from ITS Default
   (so a sub-table that does not mention use_preprocessor_cache_mode switches the mode off) *)
Definition file_pp (p : fpp) : ppcfg :=
  {| pp_use := or_default (f_use p) (pp_use pp_default);
     pp_stat := or_default (f_stat p) (pp_stat pp_default);
     pp_ctime := or_default (f_ctime p) (pp_ctime pp_default);
     pp_ignore_time := or_default (f_ignore_time p) (pp_ignore_time pp_default);
     pp_skip_sys := or_default (f_skip_sys p) (pp_skip_sys pp_default);
     pp_hash_wd := or_default (f_hash_wd p) (pp_hash_wd pp_default) |}.

(* #[serde(default)] on DiskCacheConfig *)
Definition file_disk (f : fdisk) : diskcfg :=
  {| c_dir := f_dir f;
     c_size := or_default (f_size f) (c_size disk_default);
     c_pp := match f_pp f with Some p => file_pp p | None => c_pp disk_default end;
     c_mode := or_default (f_mode f) (c_mode disk_default) |}.

(* CacheConfigs::into_fallback: disk.unwrap_or_default() *)
Definition file_cfg (f : option fdisk) : diskcfg :=
  match f with Some fd => file_disk fd | None => disk_default end.

(* ---------- the environment ---------- *)

Record env := {
  e_dir : option (list N);       (* SCCACHE_DIR *)
  e_size : option (list N);      (* SCCACHE_CACHE_SIZE *)
  e_direct : option (list N);    (* SCCACHE_DIRECT *)
  e_mode : option (list N)       (* SCCACHE_LOCAL_RW_MODE *)
}.

Definition s_read_only : list N := [82; 69; 65; 68; 95; 79; 78; 76; 89].          (* "READ_ONLY" *)
Definition s_read_write : list N := [82; 69; 65; 68; 95; 87; 82; 73; 84; 69].     (* "READ_WRITE" *)

(* anything else: warn and ignore the variable *)
Definition parse_mode (s : list N) : option mode :=
  if bytes_eqb s s_read_only then Some ReadOnly
  else if bytes_eqb s s_read_write then Some ReadWrite
  else None.

Definition lower (c : N) : N := if (65 <=? c) && (c <=? 90) then c + 32 else c.

(* bool_from_env_var: None = the error that makes Config::load fail *)
Definition parse_bool (s : list N) : option bool :=
  let l := map lower s in
  if bytes_eqb l [116; 114; 117; 101] || bytes_eqb l [111; 110] || bytes_eqb l [49] then Some true
  else if bytes_eqb l [102; 97; 108; 115; 101] || bytes_eqb l [111; 102; 102] || bytes_eqb l [48] then Some false
  else None.

Fixpoint digits (l : list N) (acc : N) : option N :=
  match l with
  | [] => Some acc
  | c :: r => if (48 <=? c) && (c <=? 57) then digits r (acc * 10 + (c - 48)) else None
  end.

(* u64::from_str: optional '+', at least one ASCII digit, no overflow *)
Definition parse_u64 (l : list N) : option N :=
  let l' := match l with 43 :: r => r | _ => l end in
  match l' with
  | [] => None
  | _ => match digits l' 0 with
         | Some n => if n <? 18446744073709551616 then Some n else None
         | None => None
         end
  end.

(* config.rs parse_size (the u64 multiplication is assumed not to overflow) *)
Definition parse_size (s : list N) : option N :=
  let mult := match last s 0 with
              | 75 => 1024 | 77 => 1048576 | 71 => 1073741824 | 84 => 1099511627776
              | _ => 1 end in
  let body := if 1 <? mult then removelast s else s in
  match parse_u64 body with Some n => Some (n * mult) | None => None end.

Definition env_mode (e : env) : option mode :=
  match e_mode e with Some s => parse_mode s | None => None end.
Definition env_size (e : env) : option N :=
  match e_size e with Some s => parse_size s | None => None end.
(* Some None = unset, None = error *)
Definition env_direct (e : env) : option (option bool) :=
  match e_direct e with
  | None => Some None
  | Some s => match parse_bool s with Some b => Some (Some b) | None => None end
  end.

Definition set_use (p : ppcfg) (b : bool) : ppcfg :=
  {| pp_use := b; pp_stat := pp_stat p; pp_ctime := pp_ctime p; pp_ignore_time := pp_ignore_time p;
     pp_skip_sys := pp_skip_sys p; pp_hash_wd := pp_hash_wd p |}.

(* Config::load: config_from_env()? ; file ; from_env_and_file_configs.  None = load error *)
Definition effective (e : env) (f : option fdisk) : option diskcfg :=
  match env_direct e with
  | None => None
  | Some direct =>
      let base := file_cfg f in
      Some {| c_dir := match e_dir e with Some d => Some d | None => c_dir base end;
              c_size := or_default (env_size e) (c_size base);
              c_pp := match direct with Some b => set_use (c_pp base) b | None => c_pp base end;
              c_mode := or_default (env_mode e) (c_mode base) |}
  end.

(* what the file says about the mode *)
Definition file_mode (f : option fdisk) : mode := c_mode (file_cfg f).

Definition is_ro (m : mode) : bool := match m with ReadOnly => true | ReadWrite => false end.
