(* Model/PpCache.v — preprocessor-cache ("direct") mode: the manifest of src/compiler/preprocessor_cache.rs
   (`IncludeEntry`, `PreprocessorCacheEntry::{add_result, lookup_result_digest, result_matches}`,
   `include_file_digest`) and the include recorder of src/compiler/c.rs (`remember_include_file`,
   `include_is_too_new`), over an abstract file-system snapshot and a date.

   This is the code AFTER the two `fix:` commits of branch verif/C04:
     - result_matches keeps iterating when ignore_time_macros is set (was: returned after the first include);
     - the digest recorded for an include that mentions __DATE__/__TIMESTAMP__ is
       "<content digest>-<digest of date / mtime>" (`Salted`), computed the same way when recording and when
       looking up and always compared (was: content comparison skipped, salted digest derived from the result
       key and never compared); the stat shortcut is not taken for such includes.

   External functions are section variables: `H` (BLAKE3 of the file contents, as hex string) and `HT` (BLAKE3 of
   the delimiter-separated date / SOURCE_DATE_EPOCH / mtime fields).  Hex digests never contain '-', so a plain
   and a salted digest string are never equal and a salted string determines both parts: that is what the
   two-constructor type `idigest` states. *)
From Coq Require Import List NArith Bool.
From Sccache Require Import Base.Sx Gen.C04Consts Model.PpPaths Model.TimeMacro.
Import ListNotations.
Local Open Scope N_scope.

Definition path := list N.

Inductive kind := KFile | KDir | KOther.   (* regular file / directory / fifo, device, socket *)

Record node := {
  n_kind : kind;
  n_size : N;        (* metadata.len() *)
  n_mtime : N;
  n_ctime : N;
  n_bytes : bytes;   (* contents, for regular files *)
}.

(* a file-system snapshot: canonical absolute path -> what is there (absent = no entry) *)
Definition fsnap := list (path * node).

Fixpoint fs_find (fs : fsnap) (p : path) : option node :=
  match fs with
  | [] => None
  | (q, nd) :: r => if bytes_eqb q p then Some nd else fs_find r p
  end.

(* stat / open of a path: the snapshot is keyed by canonical absolute paths; `.` and `..` in the path given are
   resolved lexically (no symlinks) *)
Definition fs_get (fs : fsnap) (p : path) : option node := fs_find fs (canon_path p).

(* File::open + read to the end: fails on a missing file; a directory opens but read() fails *)
Definition fs_read (fs : fsnap) (p : path) : option bytes :=
  match fs_get fs p with
  | Some nd => match n_kind nd with KFile => Some (n_bytes nd) | _ => None end
  | None => None
  end.

Record config := {
  file_stat_matches : bool;
  use_ctime_for_stat : bool;
  ignore_time_macros : bool;
  skip_system_headers : bool;
  hash_working_directory : bool;
}.

Fixpoint bytes_ltb (a b : bytes) : bool :=
  match a, b with
  | _, [] => false
  | [], _ :: _ => true
  | x :: a', y :: b' => N.ltb x y || (N.eqb x y && bytes_ltb a' b')
  end.

Definition opt_N_eqb (a b : option N) : bool :=
  match a, b with
  | Some x, Some y => N.eqb x y
  | None, None => true
  | _, _ => false
  end.

(* `impl From<SystemTime> for Timestamp` (src/util.rs): an instant x nanoseconds after 1_000_000 s BEFORE the Unix epoch
   becomes (seconds, nanoseconds) with nanoseconds in [0, 10^9) and seconds the FLOOR of the signed distance from
   the epoch - also before 1970 ("(-4, -0.3)" is stored as (-5, +0.7)).  Result: (seconds negative?, |seconds|, nanos). *)
Definition ts_base_ns : N := 1000000 * 1000000000.
Definition ts_of (x : N) : bool * N * N :=
  if N.leb ts_base_ns x then (false, (x - ts_base_ns) / 1000000000, (x - ts_base_ns) mod 1000000000)
  else
    let d := ts_base_ns - x in                      (* > 0 nanoseconds before the epoch *)
    let q := d / 1000000000 in
    let r := d mod 1000000000 in
    if N.eqb r 0 then (true, q, 0) else (true, q + 1, 1000000000 - r).

Section Digests.
Variable D : Type.
Variable Deqb : D -> D -> bool.
Variable H : bytes -> D.
(* digest of the (potential) macro expansions: the date information if __DATE__ was found, the mtime if
   __TIMESTAMP__ was found *)
Variable HT : option bytes -> option N -> D.

Inductive idigest := Plain (d : D) | Salted (d t : D).

Definition idigest_eqb (a b : idigest) : bool :=
  match a, b with
  | Plain x, Plain y => Deqb x y
  | Salted x s, Salted y t => Deqb x y && Deqb s t
  | _, _ => false
  end.

Definition is_salted (d : idigest) : bool := match d with Salted _ _ => true | Plain _ => false end.

(* pub fn include_file_digest(content_digest, finder, mtime) -> Option<String> *)
Definition include_file_digest (cd : D) (fl : flags) (date : bytes) (mtime : option N) : option idigest :=
  if negb (fl_date fl) && negb (fl_timestamp fl) then Some (Plain cd)
  else
    let od := if fl_date fl then Some date else None in
    if fl_timestamp fl then
      match mtime with
      | Some m => Some (Salted cd (HT od (Some m)))
      | None => None
      end
    else Some (Salted cd (HT od None)).

(* the digest of the INPUT file that preprocessor_cache_entry_hash_key mixes into the manifest key
   (None = `Ok(None)`: the mode is disabled for this request) *)
Definition input_file_digest (cfg : config) (b : bytes) (date : bytes) (mtime : N) : option idigest :=
  if ignore_time_macros cfg then Some (Plain (H b))
  else
    let fl := scan_file b in
    if fl_time fl then None
    else include_file_digest (H b) fl date (Some mtime).

(* What preprocessor_cache_entry_hash_key feeds to the digest besides the compiler digest, the language tag and the
   input path: every argument and every allow-listed variable (name, "=", value) through OsString's `Hash`, i.e.
   each with its own length prefix, the extra hashes (fixed-length hex digests), and the input file digest.  With
   an injective digest the key is therefore a function of these LISTS, not of their concatenation. *)
Record pp_key_parts := {
  pk_plusplus : bool;
  pk_args : list bytes;
  pk_extra : list bytes;
  pk_env : list (bytes * bytes);     (* the allow-listed variables, in the order of the request *)
  pk_input : idigest;
}.

Definition env_allowed (name : bytes) : bool := existsb (fun a => bytes_eqb a name) pp_cached_env_vars.

Definition pp_key_of (cfg : config) (plusplus : bool) (args extra : list bytes) (env : list (bytes * bytes))
           (b : bytes) (date : bytes) (mtime : N) : option pp_key_parts :=
  match input_file_digest cfg b date mtime with
  | None => None
  | Some d => Some {| pk_plusplus := plusplus; pk_args := args; pk_extra := extra;
                      pk_env := filter (fun kv => env_allowed (fst kv)) env; pk_input := d |}
  end.

Fixpoint list_eqb {A} (eqb : A -> A -> bool) (a b : list A) : bool :=
  match a, b with
  | [], [] => true
  | x :: a', y :: b' => eqb x y && list_eqb eqb a' b'
  | _, _ => false
  end.

Definition pp_key_eqb (a b : pp_key_parts) : bool :=
  Bool.eqb (pk_plusplus a) (pk_plusplus b)
  && list_eqb bytes_eqb (pk_args a) (pk_args b)
  && list_eqb bytes_eqb (pk_extra a) (pk_extra b)
  && list_eqb (fun x y => bytes_eqb (fst x) (fst y) && bytes_eqb (snd x) (snd y)) (pk_env a) (pk_env b)
  && idigest_eqb (pk_input a) (pk_input b).

Record include_entry := {
  ie_path : path;
  ie_digest : idigest;
  ie_size : N;
  ie_mtime : option N;
  ie_ctime : option N;
}.

Definition key := bytes.

Record entry := {
  number_of_entries : N;
  results : list (key * list include_entry);   (* BTreeMap: ascending by key *)
}.

Definition entry_new : entry := {| number_of_entries := 0; results := [] |}.

Fixpoint rs_find (k : key) (rs : list (key * list include_entry)) : option (list include_entry) :=
  match rs with
  | [] => None
  | (k', v) :: r => if bytes_eqb k' k then Some v else rs_find k r
  end.

(* insert or replace, keeping ascending key order *)
Fixpoint rs_put (k : key) (v : list include_entry) (rs : list (key * list include_entry)) :=
  match rs with
  | [] => [(k, v)]
  | (k', v') :: r =>
      if bytes_eqb k' k then (k, v) :: r
      else if bytes_ltb k k' then (k, v) :: (k', v') :: r
      else (k', v') :: rs_put k v r
  end.

(* ---- add_result ---- *)

(* the closure inside add_result: symlink_metadata, should_cache_time *)
Definition mk_include (fs : fsnap) (start : N) (f : idigest * path) : option include_entry :=
  match fs_get fs (snd f) with
  | None => None
  | Some nd =>
      let should_cache_time := N.ltb (N.max (n_mtime nd) (n_ctime nd)) start in
      Some {| ie_path := snd f; ie_digest := fst f; ie_size := n_size nd;
              ie_mtime := if should_cache_time then Some (n_mtime nd) else None;
              ie_ctime := if should_cache_time then Some (n_ctime nd) else None |}
  end.

Fixpoint map_opt {A B} (f : A -> option B) (l : list A) : option (list B) :=
  match l with
  | [] => Some []
  | x :: r => match f x with
              | None => None
              | Some y => match map_opt f r with None => None | Some ys => Some (y :: ys) end
              end
  end.

Definition len {A} (l : list A) : N := N.of_nat (length l).

Definition add_result (e : entry) (fs : fsnap) (start : N) (k : key) (files : list (idigest * path)) : entry :=
  let e1 := if N.ltb max_pp_cache_entries (len (results e))
            then {| number_of_entries := 0; results := [] |} else e in
  match map_opt (mk_include fs start) files with
  | None => e1
  | Some incs =>
      let new_n := len incs + number_of_entries e1 in
      let rs := if N.ltb max_pp_cache_file_info_entries new_n then [] else results e1 in
      match rs_find k rs with
      | Some old =>
          {| number_of_entries := number_of_entries e1 - len old + len incs; results := rs_put k incs rs |}
      | None =>
          {| number_of_entries := number_of_entries e1 + len incs; results := rs_put k incs rs |}
      end
  end.

(* ---- lookup_result_digest / result_matches ---- *)

Definition stat_shortcut (cfg : config) (e : include_entry) (nd : node) : bool :=
  if file_stat_matches cfg && negb (is_salted (ie_digest e)) then
    match ie_mtime e, ie_ctime e with
    | Some m, Some c =>
        if use_ctime_for_stat cfg then N.eqb (n_mtime nd) m && N.eqb (n_ctime nd) c
        else false   (* the guarded arm does not apply, `(Some, None)` does not match: contents comparison *)
    | Some m, None => N.eqb (n_mtime nd) m
    | _, _ => false
    end
  else false.

(* one iteration of the loop in result_matches: true = `continue`, false = `return false` *)
Definition include_matches (cfg : config) (fs : fsnap) (date : bytes) (e : include_entry) : bool :=
  match fs_get fs (ie_path e) with
  | None => false
  | Some nd =>
      if negb (N.eqb (n_size nd) (ie_size e)) then false
      else if stat_shortcut cfg e nd then true
      else
        match fs_read fs (ie_path e) with
        | None => false
        | Some b =>
            if ignore_time_macros cfg then idigest_eqb (ie_digest e) (Plain (H b))
            else
              let fl := scan_file b in
              if fl_time fl then false
              else
                let mtime := if fl_timestamp fl then Some (n_mtime nd) else None in
                match include_file_digest (H b) fl date mtime with
                | Some d => idigest_eqb d (ie_digest e)
                | None => false
                end
        end
  end.

Definition result_matches (cfg : config) (fs : fsnap) (date : bytes) (incs : list include_entry) : bool :=
  forallb (include_matches cfg fs date) incs.

Fixpoint first_match (cfg : config) (fs : fsnap) (date : bytes) (rs : list (key * list include_entry)) : option key :=
  match rs with
  | [] => None
  | (k, incs) :: r => if result_matches cfg fs date incs then Some k else first_match cfg fs date r
  end.

(* `for (digest, includes) in self.results.iter().rev()` *)
Definition lookup_result_digest (cfg : config) (fs : fsnap) (date : bytes) (e : entry) : option key :=
  first_match cfg fs date (rev (results e)).

(* ---- the include recorder (c.rs) ---- *)

Definition include_is_too_new (mtime ctime : option N) (start : N) : bool :=
  (match mtime with Some m => N.leb start m | None => false end)
  || (match ctime with Some c => N.leb start c | None => false end).

Definition is_angle (p : path) : bool :=
  match p with
  | 60 :: _ :: _ => match last p 0 with 62 => true | _ => false end   (* len >= 2, '<' ... '>' *)
  | _ => false
  end.

Fixpoint inc_mem (p : path) (l : list (path * idigest)) : bool :=
  match l with
  | [] => false
  | (q, _) :: r => bytes_eqb q p || inc_mem p r
  end.

(* remember_include_file for an absolute path: None = `Ok(false)` (disable the mode), Some = `Ok(true)` *)
Definition remember_include_file (cfg : config) (fs : fsnap) (start : N) (date : bytes) (input : path)
           (included : list (path * idigest)) (p : path) (system : bool) : option (list (path * idigest)) :=
  if is_angle p then Some included
  else if system && skip_system_headers cfg then Some included
  else if inc_mem p included then Some included
  else if bytes_eqb p input then Some included
  else
    match fs_get fs p with
    | None => None
    | Some nd =>
        match n_kind nd with
        | KDir => Some included
        | KOther => None
        | KFile =>
            if include_is_too_new (Some (n_mtime nd)) (Some (n_ctime nd)) start then None
            else
              let fl := if ignore_time_macros cfg then no_flags else scan_file (n_bytes nd) in
              if fl_time fl then None
              else
                match include_file_digest (H (n_bytes nd)) fl date (Some (n_mtime nd)) with
                | None => None
                | Some d => Some (included ++ [(p, d)])
                end
        end
    end.

Fixpoint remember_all (cfg : config) (fs : fsnap) (start : N) (date : bytes) (input : path)
         (included : list (path * idigest)) (incs : list (path * bool)) : option (list (path * idigest)) :=
  match incs with
  | [] => Some included
  | (p, sys) :: r =>
      match remember_include_file cfg fs start date input included p sys with
      | None => None
      | Some inc' => remember_all cfg fs start date input inc' r
      end
  end.

(* files.sort_unstable_by(|a, b| a.1.cmp(&b.1)) — paths are distinct (HashMap keys) *)
Fixpoint ins_sorted (x : idigest * path) (l : list (idigest * path)) : list (idigest * path) :=
  match l with
  | [] => [x]
  | y :: r => if bytes_ltb (snd x) (snd y) then x :: y :: r else y :: ins_sorted x r
  end.

Definition sort_files (l : list (path * idigest)) : list (idigest * path) :=
  fold_right (fun pd acc => ins_sorted (snd pd, fst pd) acc) [] l.

Inductive rec_status := RecOk | RecDisabled | RecEmpty.

(* the recording half of the direct-mode prelude of generate_hash_key: on which entry (`fresh` = a new
   one, as the prelude does today; otherwise the given one) the result is added *)
Definition record (cfg : config) (e : entry) (fs : fsnap) (start : N) (date : bytes) (input : path)
           (k : key) (incs : list (path * bool)) : entry * rec_status :=
  match remember_all cfg fs start date input [] incs with
  | None => (e, RecDisabled)
  | Some [] => (e, RecEmpty)
  | Some included => (add_result e fs start k (sort_files included), RecOk)
  end.

(* one execution of the recording half: the file system, compile start instant and date it ran in, and what
   the preprocessor output announced *)
Record rec_op := {
  ro_fresh : bool;
  ro_fs : fsnap;
  ro_start : N;
  ro_date : bytes;
  ro_input : path;
  ro_key : key;
  ro_incs : list (path * bool);
}.

(* a disabled / empty recording stores nothing: the stored entry stays as it was *)
Definition apply_rec (cfg : config) (e : entry) (op : rec_op) : entry * rec_status :=
  let base := if ro_fresh op then entry_new else e in
  match record cfg base (ro_fs op) (ro_start op) (ro_date op) (ro_input op) (ro_key op) (ro_incs op) with
  | (e', RecOk) => (e', RecOk)
  | (_, st) => (e, st)
  end.

(* The same with the WINDOW of generate_hash_key made explicit: the include recorder (process_preprocessed_file) runs
   on the file system `ro_fs op`; the preprocessor output is hashed; only then add_result stats the recorded files - in
   the file system `fs_add`, which somebody may have changed in between. *)
Definition record_w (cfg : config) (e : entry) (fs fs_add : fsnap) (start : N) (date : bytes) (input : path)
           (k : key) (incs : list (path * bool)) : entry * rec_status :=
  match remember_all cfg fs start date input [] incs with
  | None => (e, RecDisabled)
  | Some [] => (e, RecEmpty)
  | Some included => (add_result e fs_add start k (sort_files included), RecOk)
  end.

Definition apply_rec_w (cfg : config) (e : entry) (op : rec_op) (fs_add : fsnap) : entry * rec_status :=
  let base := if ro_fresh op then entry_new else e in
  match record_w cfg base (ro_fs op) fs_add (ro_start op) (ro_date op) (ro_input op) (ro_key op) (ro_incs op) with
  | (e', RecOk) => (e', RecOk)
  | (_, st) => (e, st)
  end.

(* the argument list that generate_hash_key hands to preprocessor_cache_entry_hash_key: preprocessor, arch and common
   arguments, the profile output path if any, and - iff hash_working_directory - the working directory, LAST and
   whatever the spelling of the input path *)
Definition prelude_pp_args (cfg : config) (pre arch common : list bytes) (profile_out : option bytes) (cwd : bytes)
  : list bytes :=
  pre ++ arch ++ common ++ (match profile_out with Some p => [p] | None => [] end)
      ++ (if hash_working_directory cfg then [cwd] else []).

Definition run_recs (cfg : config) (ops : list rec_op) : entry :=
  fold_left (fun e op => fst (apply_rec cfg e op)) ops entry_new.

End Digests.

Arguments Plain {D} _.
Arguments Salted {D} _ _.
