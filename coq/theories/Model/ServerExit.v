(* ServerExit.v — what CLIENTS experience around the start and the end of a server's life: the glue between
   Model/Startup.v (the cold-start race), Model/ServerLife.v (idle timer, stop, shutdown phase) and the client
   decision functions of Model/Client.v (imported, not changed).

   Three behaviour classes of property C20 live at these seams:
   (a) the start-up REPORT.  The Startup model's mailbox carries StOk | StInUse and the waiting client proceeds
       on both.  In the code the report is ServerStartup::{Ok{addr}, AddrInUse, TimedOut, Err} and the client
       proceeds on Ok only if the reported address, as a string, is the address it asked for — whatever the
       spelling of a Unix socket path (symlinked directory, `..`, doubled separators).  `status_of_report`
       is that abstraction; a report that is not in its domain makes the client bail (exit 2).
   (b) a client that ARRIVES during the shutdown phase.  run() has dropped the listener when the phase
       begins (the accept loop owns it), so the address is free: connect is refused, and by
       connect_or_start_server the late client cold-starts a fresh server instead of queueing up behind a
       server that will never accept again.
   (c) a client whose request is IN FLIGHT when the process exits (cap expired): it has received the
       CompileStarted frame and some prefix — possibly ending INSIDE the length header or inside the payload —
       of the CompileFinished frame, then EOF.  *)
From Coq Require Import List NArith Bool.
From Sccache Require Import Model.Startup.
From Sccache Require Import Model.ServerLife.
From Sccache Require Import Model.Client.
Import ListNotations.
Local Open Scope N_scope.

(* (a) *)
Definition status_of_report (r : startup_report) : option status :=
  match r with
  | SOk true => Some StOk
  | SAddrInUse => Some StInUse
  | _ => None
  end.

(* the client that spawned a server for address `a`, once that server has bound: does it go on to connect? *)
Definition spawner_proceeds (a : saddr) : bool :=
  match status_of_report (report_of_started_server a) with Some _ => true | None => false end.

(* (b) the listening socket exists exactly while the server is serving *)
Definition connect_ok (s : lst) : bool :=
  match lphase s with Serving => true | _ => false end.

Definition arrival (s : lst) : conn_attempt := if connect_ok s then AOk else ARefused.

(* a client arrives: it gets a connection iff the listener exists; otherwise nothing changes in this server *)
Definition lconnect (s : lst) (c : N) : lst * bool :=
  if connect_ok s then (lstep s (LAccept c), true) else (s, false).

(* (c) the bytes on a cut connection and what its client does with them *)
Definition cut_stream (f : finished) (k : nat) : list N :=
  frame (encode_compile_response CompileStarted) ++ firstn k (frame (encode_finished f)).

Definition cut_client (opq : N -> list N -> bool) (ignore_io : bool) (f : finished) (k : nat) : outcome :=
  client opq ignore_io (cut_stream f k) Eof.

(* (c') HOW a cut connection ends.  When the server process exits the kernel closes its sockets.  A socket left as
   accept() returned it is released in an orderly way: the client's pending read returns end-of-file (Eof), the one
   ending on which handle_compile_response falls back to a local compile.  A socket configured to ABORT on close
   (SO_LINGER with a zero timeout) is reset instead: the client's read fails with ECONNRESET.  net.rs hands the
   accepted stream on untouched (TCP and Unix alike). *)
Definition close_ending (abort_on_close : bool) : ending := if abort_on_close then Reset else Eof.

Definition accepted_abort_on_close : bool := false.

Definition cut_client_ending (opq : N -> list N -> bool) (ignore_io : bool) (f : finished) (k : nat) (e : ending) : outcome :=
  client opq ignore_io (cut_stream f k) e.
