(* Scheduler.v — executable model of the sccache-dist scheduler's bookkeeping
   (src/bin/sccache-dist/main.rs: `Scheduler`, impl SchedulerIncoming).

   State, as in the code: `job_count` (the id counter), `jobs : JobId -> (server, state)`
   behind one mutex, `servers : ServerId -> ServerDetails` behind another
   (jobs_assigned, jobs_unclaimed, server_nonce, num_cpus, last_error).
   Maps and sets are association lists / lists kept strictly sorted by key,
   which is also the canonical printing order.

   Messages are the handlers SPLIT AT THE LOCK BOUNDARIES the code has:
     MAllocBegin ord   handle_alloc_job up to the call of do_assign_job: under the
                       servers lock choose the server (load_weight, least loaded,
                       servers without a remembered error first), take the next id,
                       insert it in jobs_assigned / jobs_unclaimed; the lock is then
                       RELEASED and the call sits "in the window" (ghost field
                       `inflight : job -> server`, the call's local variables).
                       `ord` is the order in which the HashMap happens to iterate
                       (arbitrary in the real code; a parameter here).
     MAllocEndOk j st  do_assign_job returned Ok{state: st}: under the jobs and servers
                       locks re-validate the reservation and record the job.
     MAllocEndFail j   do_assign_job returned Err: under the servers lock remember the
                       error and drop the reservation.
     MHeartbeat s n c  handle_heartbeat_server (same nonce / fresh nonce / new server).
     MUpdate j s st    handle_update_job_state.
     MStatus           handle_status.
   Any message may come between a begin and its end, including further begins and
   the ends of other calls in any order: that is every interleaving the
   thread-per-request HTTP server can produce, because each piece runs under the
   locks the code takes for it.

   Panics are outcomes: `assert!` failures and `lock().unwrap()` on a poisoned
   mutex give OPanic, and a panic while a guard is alive poisons that mutex
   (`pois_jobs`, `pois_servers`), exactly as std::sync::Mutex does.

   `fx = true` is the code after the two `fix:` commits (reservation re-validated in
   alloc_end_ok, completion no longer asserts; the job token is created BEFORE the
   slot is reserved); `fx = false` is the code as it was (kept so that the old
   defects S8 and S21 stay replayable inside Coq).

   Not modelled (the property excludes time-outs): prune_servers (90 s without a
   heartbeat), stale unclaimed jobs (60 s / 300 s), forgetting last_error (300 s);
   `last_seen`.  last_error is a logical clock value: only the order matters.
   Whether JobAuthorizer::generate_token fails is a flag of the registration
   (`sv_tokfail`, scripted by the hook through the authorizer it registers).  *)
From Coq Require Import List NArith Bool.
From Sccache Require Import Base.Sx Gen.C18Consts.
Import ListNotations.
Local Open Scope N_scope.

(* ---------- finite sets / maps keyed by N, strictly sorted lists ---------- *)

Fixpoint smem (k : N) (l : list N) : bool :=
  match l with
  | [] => false
  | x :: r => (k =? x) || smem k r
  end.

Fixpoint sins (k : N) (l : list N) : list N :=
  match l with
  | [] => [k]
  | x :: r => if k =? x then x :: r else if k <? x then k :: x :: r else x :: sins k r
  end.

Definition srem (k : N) (l : list N) : list N := filter (fun x => negb (k =? x)) l.

Fixpoint aget {V} (k : N) (l : list (N * V)) : option V :=
  match l with
  | [] => None
  | (k', v) :: r => if k =? k' then Some v else aget k r
  end.

Fixpoint aset {V} (k : N) (v : V) (l : list (N * V)) : list (N * V) :=
  match l with
  | [] => [(k, v)]
  | (k', v') :: r =>
      if k =? k' then (k, v) :: r
      else if k <? k' then (k, v) :: (k', v') :: r
      else (k', v') :: aset k v r
  end.

Definition adel {V} (k : N) (l : list (N * V)) : list (N * V) :=
  filter (fun kv => negb (k =? fst kv)) l.

Definition amem {V} (k : N) (l : list (N * V)) : bool :=
  match aget k l with Some _ => true | None => false end.

Definition len {A} (l : list A) : N := N.of_nat (length l).

(* ---------- state ---------- *)

Record server : Type := mkServer {
  sv_assigned : list N;          (* jobs_assigned *)
  sv_unclaimed : list N;         (* keys of jobs_unclaimed *)
  sv_nonce : N;                  (* server_nonce *)
  sv_cpus : N;                   (* num_cpus *)
  sv_last_error : option N;      (* last_error, logical time *)
  sv_tokfail : bool              (* job_authorizer.generate_token fails (a property of the registration) *)
}.

Record st : Type := mkSt {
  job_count : N;
  jobs : list (N * (N * jstate));   (* job id -> (server id, state) *)
  servers : list (N * server);
  inflight : list (N * N);          (* ghost: calls of handle_alloc_job inside their window: job -> server *)
  pois_jobs : bool;
  pois_servers : bool;
  clock : N
}.

Definition init : st :=
  {| job_count := 0; jobs := []; servers := []; inflight := []; pois_jobs := false; pois_servers := false; clock := 1 |}.

Definition set_jobs (s : st) (j : list (N * (N * jstate))) : st :=
  {| job_count := job_count s; jobs := j; servers := servers s; inflight := inflight s;
     pois_jobs := pois_jobs s; pois_servers := pois_servers s; clock := clock s |}.
Definition set_servers (s : st) (v : list (N * server)) : st :=
  {| job_count := job_count s; jobs := jobs s; servers := v; inflight := inflight s;
     pois_jobs := pois_jobs s; pois_servers := pois_servers s; clock := clock s |}.
Definition set_inflight (s : st) (f : list (N * N)) : st :=
  {| job_count := job_count s; jobs := jobs s; servers := servers s; inflight := f;
     pois_jobs := pois_jobs s; pois_servers := pois_servers s; clock := clock s |}.
Definition set_job_count (s : st) (c : N) : st :=
  {| job_count := c; jobs := jobs s; servers := servers s; inflight := inflight s;
     pois_jobs := pois_jobs s; pois_servers := pois_servers s; clock := clock s |}.
Definition set_clock (s : st) (c : N) : st :=
  {| job_count := job_count s; jobs := jobs s; servers := servers s; inflight := inflight s;
     pois_jobs := pois_jobs s; pois_servers := pois_servers s; clock := c |}.
Definition poison_jobs (s : st) : st :=
  {| job_count := job_count s; jobs := jobs s; servers := servers s; inflight := inflight s;
     pois_jobs := true; pois_servers := pois_servers s; clock := clock s |}.
Definition poison_servers (s : st) : st :=
  {| job_count := job_count s; jobs := jobs s; servers := servers s; inflight := inflight s;
     pois_jobs := pois_jobs s; pois_servers := true; clock := clock s |}.

Definition sv_set_assigned (v : server) (a : list N) : server :=
  {| sv_assigned := a; sv_unclaimed := sv_unclaimed v; sv_nonce := sv_nonce v; sv_cpus := sv_cpus v;
     sv_last_error := sv_last_error v; sv_tokfail := sv_tokfail v |}.
Definition sv_set_unclaimed (v : server) (u : list N) : server :=
  {| sv_assigned := sv_assigned v; sv_unclaimed := u; sv_nonce := sv_nonce v; sv_cpus := sv_cpus v;
     sv_last_error := sv_last_error v; sv_tokfail := sv_tokfail v |}.
Definition sv_set_last_error (v : server) (e : option N) : server :=
  {| sv_assigned := sv_assigned v; sv_unclaimed := sv_unclaimed v; sv_nonce := sv_nonce v; sv_cpus := sv_cpus v;
     sv_last_error := e; sv_tokfail := sv_tokfail v |}.

Definition fresh_server (nonce cpus : N) (tf : bool) : server :=
  {| sv_assigned := []; sv_unclaimed := []; sv_nonce := nonce; sv_cpus := cpus; sv_last_error := None;
     sv_tokfail := tf |}.

(* ---------- messages and outcomes ---------- *)

Inductive msg : Type :=
| MHeartbeat (sid nonce cpus : N) (tokfail : bool)
| MAllocBegin (ord : list N)
| MAllocEndOk (j : N) (stt : jstate)
| MAllocEndFail (j : N)
| MUpdate (j sid : N) (stt : jstate)
| MStatus.

Inductive alloc_err : Type := EUnassigned | EJobNotKnown | EServerNotKnown.
Inductive upd_res : Type := UOk | UNotOwner | UInvalid | UUnknown | UServerUnknown.

Inductive out : Type :=
| OPanic
| OHbErr                              (* Err: zero CPUs *)
| OHb (is_new : bool)
| OWindow (j sid : N)                 (* the call reached do_assign_job(sid, j, ..) *)
| OAllocNoCap (nservers : N)          (* Ok(AllocJobResult::Fail): insufficient capacity *)
| OAllocOk (j sid : N)                (* Ok(AllocJobResult::Success) *)
| OAllocGone (j sid : N)              (* Ok(AllocJobResult::Fail): the server was replaced in the window (fixed code) *)
| OAllocErr (e : alloc_err)           (* Err: do_assign_job failed *)
| OAllocTokErr                        (* Err: could not create an auth token for this job *)
| OUpd (r : upd_res)
| OStatus (nservers ncpus in_progress : N)
| ONotInFlight.                       (* not a message: no such call is in its window *)

(* ---------- load_weight and the choice of the server ---------- *)

Definition slack (cpus : N) : N := cpus + slack_add + cpus / slack_div.

(* load_weight as an exact rational: None = MAX_PER_CORE_LOAD + 1 ("no new jobs for now"),
   Some (j, c) = j / c.  (f64 division of two integers below 2^25 orders exactly like the rationals.) *)
Definition load_weight (njobs cpus : N) : option (N * N) :=
  if slack cpus <=? njobs then None else Some (njobs, cpus).

(* load < bn / bd  (bd > 0).  MAX+1 is never below a bound that is at most MAX; j / 0 is inf or NaN: never less. *)
Definition load_lt (l : option (N * N)) (bn bd : N) : bool :=
  match l with
  | None => false
  | Some (j, c) => if c =? 0 then false else j * bd <? bn * c
  end.

Record sel : Type := mkSel {
  sel_best : option (N * server);
  sel_bn : N; sel_bd : N;                      (* best_load *)
  sel_err : option (N * server * N);           (* best_err with its last_error *)
  sel_stop : bool                              (* `break` taken *)
}.

Definition sel_init : sel :=
  {| sel_best := None; sel_bn := max_per_core_load; sel_bd := 1; sel_err := None; sel_stop := false |}.

Definition sel_step (a : sel) (kv : N * server) : sel :=
  if sel_stop a then a else
  let njobs := len (sv_assigned (snd kv)) in
  let load := load_weight njobs (sv_cpus (snd kv)) in
  match sv_last_error (snd kv) with
  | Some e =>
      if load_lt load max_per_core_load 1 then
        match sel_err a with
        | Some (_, be) =>
            if e <? be then
              {| sel_best := sel_best a; sel_bn := sel_bn a; sel_bd := sel_bd a;
                 sel_err := Some (kv, e); sel_stop := false |}
            else a
        | None =>
            {| sel_best := sel_best a; sel_bn := sel_bn a; sel_bd := sel_bd a;
               sel_err := Some (kv, e); sel_stop := false |}
        end
      else a
  | None =>
      if load_lt load (sel_bn a) (sel_bd a) then
        {| sel_best := Some kv; sel_bn := njobs; sel_bd := sv_cpus (snd kv);
           sel_err := sel_err a; sel_stop := njobs =? 0 |}
      else a
  end.

Definition choose (l : list (N * server)) : option (N * server) :=
  let a := fold_left sel_step l sel_init in
  match sel_best a with
  | Some kv => Some kv
  | None => match sel_err a with Some (kv, _) => Some kv | None => None end
  end.

(* the iteration order of the servers map: the ids of `ord` first (registered ones, first occurrence),
   then the remaining servers in ascending order *)
Fixpoint take_pref (ord seen : list N) (srv : list (N * server)) : list (N * server) :=
  match ord with
  | [] => []
  | k :: r =>
      if smem k seen then take_pref r seen srv
      else match aget k srv with
           | Some v => (k, v) :: take_pref r (k :: seen) srv
           | None => take_pref r seen srv
           end
  end.

Definition iter_order (ord : list N) (srv : list (N * server)) : list (N * server) :=
  take_pref ord [] srv ++ filter (fun kv => negb (smem (fst kv) ord)) srv.

(* ---------- the handlers ---------- *)

Definition alloc_begin (fx : bool) (ord : list N) (s : st) : st * out :=
  if pois_servers s then (s, OPanic) else
  match choose (iter_order ord (servers s)) with
  | None => (s, OAllocNoCap (len (servers s)))
  | Some (sid, sv) =>
      let j := job_count s in
      let s1 := set_job_count s (j + 1) in
      if fx && sv_tokfail sv then (s1, OAllocTokErr)                         (* fixed code: the token is created first *)
      else
      if smem j (sv_assigned sv) then (poison_servers s1, OPanic)           (* assert!(jobs_assigned.insert(job_id)) *)
      else
        let sv1 := sv_set_assigned sv (sins j (sv_assigned sv)) in
        if smem j (sv_unclaimed sv) then                                     (* assert!(jobs_unclaimed.insert(..).is_none()) *)
          (poison_servers (set_servers s1 (aset sid sv1 (servers s1))), OPanic)
        else
          let sv2 := sv_set_unclaimed sv1 (sins j (sv_unclaimed sv1)) in
          if sv_tokfail sv then                                              (* old code: `?` AFTER the inserts *)
            (set_servers s1 (aset sid sv2 (servers s1)), OAllocTokErr)
          else
          (set_inflight (set_servers s1 (aset sid sv2 (servers s1))) (aset j sid (inflight s1)), OWindow j sid)
  end.

Definition alloc_end_fail (j : N) (s : st) : st * out :=
  match aget j (inflight s) with
  | None => (s, ONotInFlight)
  | Some sid =>
      let s0 := set_inflight s (adel j (inflight s)) in
      if pois_servers s then (s0, OPanic) else
      match aget sid (servers s) with
      | Some sv =>
          let sv' := sv_set_assigned (sv_set_unclaimed (sv_set_last_error sv (Some (clock s)))
                                        (srem j (sv_unclaimed sv))) (srem j (sv_assigned sv)) in
          (set_clock (set_servers s0 (aset sid sv' (servers s0))) (clock s + 1),
           OAllocErr (if smem j (sv_assigned sv) then EUnassigned else EJobNotKnown))
      | None => (s0, OAllocErr EServerNotKnown)
      end
  end.

Definition record_job (fx : bool) (j sid : N) (stt : jstate) (s0 : st) : st * out :=
  if amem j (jobs s0) then                                                   (* assert!(jobs.insert(..).is_none()) *)
    let s1 := poison_jobs (set_jobs s0 (aset j (sid, stt) (jobs s0))) in
    ((if fx then poison_servers s1 else s1), OPanic)
  else (set_jobs s0 (aset j (sid, stt) (jobs s0)), OAllocOk j sid).

Definition alloc_end_ok (fx : bool) (j : N) (stt : jstate) (s : st) : st * out :=
  match aget j (inflight s) with
  | None => (s, ONotInFlight)
  | Some sid =>
      let s0 := set_inflight s (adel j (inflight s)) in
      if pois_jobs s then (s0, OPanic) else
      if fx then
        if pois_servers s then (poison_jobs s0, OPanic) else
        let reserved := match aget sid (servers s) with
                        | Some sv => smem j (sv_assigned sv)
                        | None => false
                        end in
        if reserved then record_job fx j sid stt s0 else (s0, OAllocGone j sid)
      else record_job fx j sid stt s0
  end.

(* lock().unwrap() of jobs, then of servers *)
Definition lock_both (s : st) : option st :=
  if pois_jobs s then Some s
  else if pois_servers s then Some (poison_jobs s)
  else None.

Definition heartbeat (sid nonce cpus : N) (tf : bool) (s : st) : st * out :=
  if cpus =? 0 then (s, OHbErr) else
  match lock_both s with
  | Some s' => (s', OPanic)
  | None =>
      match aget sid (servers s) with
      | Some sv =>
          if sv_nonce sv =? nonce then (s, OHb false)
          else
            let js := filter (fun kv => negb (smem (fst kv) (sv_assigned sv))) (jobs s) in
            (set_servers (set_jobs s js) (aset sid (fresh_server nonce cpus tf) (servers s)), OHb true)
      | None => (set_servers s (aset sid (fresh_server nonce cpus tf) (servers s)), OHb true)
      end
  end.

Definition jstate_eqb (a b : jstate) : bool := jstate_code a =? jstate_code b.

Definition trans_ok (a b : jstate) : bool :=
  existsb (fun p => jstate_eqb (fst p) a && jstate_eqb (snd p) b) transitions.

Definition update (fx : bool) (j sid : N) (stt : jstate) (s : st) : st * out :=
  match lock_both s with
  | Some s' => (s', OPanic)
  | None =>
      match aget j (jobs s) with
      | None => (s, OUpd UUnknown)
      | Some (owner, cur) =>
          if negb (owner =? sid) then (s, OUpd UNotOwner)
          else if negb (trans_ok cur stt) then (s, OUpd UInvalid)
          else
            match stt with
            | Complete =>
                let s1 := set_jobs s (adel j (jobs s)) in
                match aget sid (servers s) with
                | Some sv =>
                    if smem j (sv_assigned sv) then
                      (set_servers s1 (aset sid (sv_set_assigned sv (srem j (sv_assigned sv))) (servers s1)), OUpd UOk)
                    else if fx then (s1, OUpd UOk)                            (* logged, no longer asserted *)
                    else (poison_servers (poison_jobs s1), OPanic)           (* assert!(jobs_assigned.remove(..)) *)
                | None => (s1, OUpd UServerUnknown)
                end
            | Started =>
                let s1 := set_jobs s (aset j (owner, stt) (jobs s)) in
                match aget sid (servers s) with
                | Some sv =>
                    (set_servers s1 (aset sid (sv_set_unclaimed sv (srem j (sv_unclaimed sv))) (servers s1)), OUpd UOk)
                | None => (s1, OUpd UOk)
                end
            | _ => (set_jobs s (aset j (owner, stt) (jobs s)), OUpd UOk)
            end
      end
  end.

Definition sum_cpus (l : list (N * server)) : N :=
  fold_right (fun kv acc => sv_cpus (snd kv) + acc) 0 l.

Definition status (s : st) : st * out :=
  match lock_both s with
  | Some s' => (s', OPanic)
  | None => (s, OStatus (len (servers s)) (sum_cpus (servers s)) (len (jobs s)))
  end.

Definition step (fx : bool) (s : st) (m : msg) : st * out :=
  match m with
  | MHeartbeat sid n c tf => heartbeat sid n c tf s
  | MAllocBegin ord => alloc_begin fx ord s
  | MAllocEndOk j stt => alloc_end_ok fx j stt s
  | MAllocEndFail j => alloc_end_fail j s
  | MUpdate j sid stt => update fx j sid stt s
  | MStatus => status s
  end.

Definition run (fx : bool) (s : st) (ms : list msg) : st :=
  fold_left (fun a m => fst (step fx a m)) ms s.

(* all intermediate observations, for the correspondence check *)
Fixpoint trace (fx : bool) (s : st) (ms : list msg) : list (out * st) :=
  match ms with
  | [] => []
  | m :: r => let '(s', o) := step fx s m in (o, s') :: trace fx s' r
  end.

(* ---------- vocabulary of the property statements ---------- *)

Definition keys {V} (l : list (N * V)) : list N := map fst l.

(* the only legal walk of a job: pending -> ready -> started -> complete *)
Definition next_state (a : jstate) : option jstate :=
  match a with Pending => Some Ready | Ready => Some Started | Started => Some Complete | Complete => None end.

(* the property's capacity of a server: cores + 1 + cores/8 *)
Definition capacity (cpus : N) : N := cpus + 1 + cpus / 8.

(* the live jobs attributed to server sid *)
Definition live_on (sid : N) (s : st) : list (N * (N * jstate)) :=
  filter (fun kv => fst (snd kv) =? sid) (jobs s).

(* ---------- the locks each handler piece runs under (numbers: the global order, jobs = 0 < servers = 1) ----------
   This is what makes the pieces atomic with respect to each other, and what `lock_both` / the poisoning
   rules above assume; Properties/C18Locks.v checks it against the acquisition sequences read from the Rust
   source (Gen/C18Locks.v) and proves that this discipline cannot deadlock. *)
Definition lock_jobs : N := 0.
Definition lock_servers : N := 1.

Definition piece_locks (m : msg) : list N :=
  match m with
  | MAllocBegin _ => [lock_servers]                     (* choice + reservation *)
  | MAllocEndFail _ => [lock_servers]                   (* the with_context closure *)
  | MAllocEndOk _ _ => [lock_jobs; lock_servers]        (* re-validation + recording *)
  | MHeartbeat _ _ _ _ => [lock_jobs; lock_servers]
  | MUpdate _ _ _ => [lock_jobs; lock_servers]
  | MStatus => [lock_jobs; lock_servers]
  end.
